//! Operator catalogue shared by the C13 / C14 harnesses (`#[path = "../opcat.rs"] mod opcat;`).
//!
//! Every entry builds a single-node ONNX model with the shared encoder, loads it through the
//! real loader (`ModelOptions::with_all_ops().load`), pulls the deserialised operator out of the
//! loaded graph (`Model::verif_graph`) and hands back the `Arc<dyn Operator>` together with
//! randomly generated, mostly valid inputs.  The harnesses then call `Operator::run` /
//! `Operator::run_in_place` directly with inputs of their own layout / ownership.
#![allow(dead_code)]
use crate::onnx_enc::{self as enc, dt, Attr, Graph, Node, ValueInfo};
use hcommon::Rng;
use rten::verif::{InPlaceInputs, InputList, OpRunContext, Operator, OutputMask};
use rten::{BufferPool, ModelOptions, Value, ValueView};
use rten_tensor::prelude::*;
use rten_tensor::Tensor;
use std::collections::HashMap;
use std::sync::Arc;

pub type Op = Arc<dyn Operator + Send + Sync>;

pub struct Case {
    pub name: &'static str,
    pub onnx: &'static str,
    pub domain: &'static str,
    pub attrs: Vec<(String, Attr)>,
    pub inputs: Vec<Option<Value>>,
    pub n_out: usize,
    /// Inputs whose layout the C14 harness varies (data inputs; index/shape inputs stay as they are).
    pub data_inputs: Vec<usize>,
}

impl Case {
    fn new(name: &'static str, inputs: Vec<Option<Value>>) -> Case {
        let data_inputs = (0..inputs.len()).filter(|&i| inputs[i].is_some()).collect();
        Case { name, onnx: name, domain: "", attrs: vec![], inputs, n_out: 1, data_inputs }
    }
    fn attr(mut self, k: &str, a: Attr) -> Case {
        self.attrs.push((k.to_string(), a));
        self
    }
    fn onnx(mut self, n: &'static str) -> Case {
        self.onnx = n;
        self
    }
    fn dom(mut self, n: &'static str) -> Case {
        self.domain = n;
        self
    }
    fn outs(mut self, n: usize) -> Case {
        self.n_out = n;
        self
    }
    fn data(mut self, d: &[usize]) -> Case {
        self.data_inputs = d.to_vec();
        self
    }
    pub fn key(&self) -> String {
        let ins: Vec<String> = self
            .inputs
            .iter()
            .map(|i| match i {
                None => "-".to_string(),
                Some(v) => dtype_name(v).to_string(),
            })
            .collect();
        format!("{}|{}|{:?}|{}|{}", self.domain, self.onnx, self.attrs, ins.join(","), self.n_out)
    }
    pub fn describe(&self) -> String {
        let ins: Vec<String> = self
            .inputs
            .iter()
            .map(|i| match i {
                None => "-".to_string(),
                Some(v) => format!("{}{:?}", dtype_name(v), shape_of(v)),
            })
            .collect();
        let at: Vec<String> = self.attrs.iter().map(|(k, a)| format!("{k}={}", attr_str(a))).collect();
        format!("{} attrs[{}] in[{}]", self.name, at.join(";"), ins.join(";")).replace(['\t', '\n'], " ")
    }
}

fn attr_str(a: &Attr) -> String {
    match a {
        Attr::Int(i) => format!("{i}"),
        Attr::Float(f) => format!("{f}"),
        Attr::Str(s) => s.clone(),
        Attr::Ints(v) => format!("{v:?}"),
        Attr::Floats(v) => format!("{v:?}"),
        Attr::Strs(v) => format!("{v:?}"),
        _ => "?".into(),
    }
}

pub fn dtype_name(v: &Value) -> &'static str {
    match v {
        Value::FloatTensor(_) => "f32",
        Value::Int32Tensor(_) => "i32",
        Value::Int8Tensor(_) => "i8",
        Value::UInt8Tensor(_) => "u8",
        Value::Sequence(_) => "seq",
        _ => "other",
    }
}

pub fn shape_of(v: &Value) -> Vec<usize> {
    match v {
        Value::FloatTensor(t) => t.shape().to_vec(),
        Value::Int32Tensor(t) => t.shape().to_vec(),
        Value::Int8Tensor(t) => t.shape().to_vec(),
        Value::UInt8Tensor(t) => t.shape().to_vec(),
        _ => vec![],
    }
}

pub fn data_ptr(v: &Value) -> usize {
    match v {
        Value::FloatTensor(t) => t.data_ptr() as usize,
        Value::Int32Tensor(t) => t.data_ptr() as usize,
        Value::Int8Tensor(t) => t.data_ptr() as usize,
        Value::UInt8Tensor(t) => t.data_ptr() as usize,
        _ => 0,
    }
}

fn onnx_dt(v: &Value) -> i32 {
    match v {
        Value::FloatTensor(_) => dt::FLOAT,
        Value::Int32Tensor(_) => dt::INT32,
        Value::Int8Tensor(_) => dt::INT8,
        Value::UInt8Tensor(_) => dt::UINT8,
        _ => dt::FLOAT,
    }
}

/// Canonical, layout-independent content of a value: dtype, shape, element bits in logical
/// (row-major index) order with every NaN mapped to one bit pattern.
#[derive(Clone, PartialEq, Debug)]
pub struct Canon {
    pub dtype: &'static str,
    pub shape: Vec<usize>,
    pub bits: Vec<u32>,
    pub items: Vec<Canon>,
}

pub fn canon(v: &Value) -> Canon {
    let (bits, items): (Vec<u32>, Vec<Canon>) = match v {
        Value::FloatTensor(t) => (
            t.iter().map(|x| if x.is_nan() { 0x7fc0_0000 } else { x.to_bits() }).collect(),
            vec![],
        ),
        Value::Int32Tensor(t) => (t.iter().map(|x| *x as u32).collect(), vec![]),
        Value::Int8Tensor(t) => (t.iter().map(|x| *x as u8 as u32).collect(), vec![]),
        Value::UInt8Tensor(t) => (t.iter().map(|x| *x as u32).collect(), vec![]),
        Value::Sequence(s) => (vec![], s.iter().map(|v| canon(&v.to_owned())).collect()),
        _ => (vec![], vec![]),
    };
    Canon { dtype: dtype_name(v), shape: shape_of(v), bits, items }
}

pub fn canon_diff(a: &[Canon], b: &[Canon]) -> Option<String> {
    if a.len() != b.len() {
        return Some(format!("output count {} vs {}", a.len(), b.len()));
    }
    for (k, (x, y)) in a.iter().zip(b).enumerate() {
        if x.dtype != y.dtype {
            return Some(format!("out{k} dtype {} vs {}", x.dtype, y.dtype));
        }
        if x.shape != y.shape {
            return Some(format!("out{k} shape {:?} vs {:?}", x.shape, y.shape));
        }
        if x.bits.len() != y.bits.len() {
            return Some(format!("out{k} len {} vs {}", x.bits.len(), y.bits.len()));
        }
        if let Some(i) = (0..x.bits.len()).find(|&i| x.bits[i] != y.bits[i]) {
            return Some(format!(
                "out{k} shape {:?} elem {i}: bits {:#x} vs {:#x}",
                x.shape, x.bits[i], y.bits[i]
            ));
        }
        if let Some(d) = canon_diff(&x.items, &y.items) {
            return Some(format!("out{k} seq: {d}"));
        }
    }
    None
}

/// Operator cache keyed by `Case::key` (loading a model per case would dominate the run time).
#[derive(Default)]
pub struct OpCache(HashMap<String, Result<Op, String>>);

impl OpCache {
    pub fn get(&mut self, c: &Case) -> Result<Op, String> {
        let key = c.key();
        if let Some(r) = self.0.get(&key) {
            return r.clone();
        }
        let r = load_op(c);
        self.0.insert(key, r.clone());
        r
    }
}

pub fn load_op(c: &Case) -> Result<Op, String> {
    if c.name.starts_with("Fused") {
        return load_fused(c);
    }
    let in_names: Vec<String> =
        c.inputs.iter().enumerate().map(|(i, v)| if v.is_some() { format!("i{i}") } else { String::new() }).collect();
    let out_names: Vec<String> = (0..c.n_out).map(|i| format!("o{i}")).collect();
    let mut node = Node::new(
        c.onnx,
        "n",
        &in_names.iter().map(|s| s.as_str()).collect::<Vec<_>>(),
        &out_names.iter().map(|s| s.as_str()).collect::<Vec<_>>(),
    );
    if !c.domain.is_empty() {
        node = node.domain(c.domain);
    }
    for (k, a) in &c.attrs {
        node = node.attr(k, a.clone());
    }
    // The shared encoder packs `ints`/`floats` attributes; rten's AttributeProto decoder wants the
    // unpacked (proto2) form real ONNX files use, so the node is encoded here.
    let mut nb = Vec::new();
    for i in &node.inputs {
        enc::f_str(&mut nb, 1, i);
    }
    for o in &node.outputs {
        enc::f_str(&mut nb, 2, o);
    }
    enc::f_str(&mut nb, 3, &node.name);
    enc::f_str(&mut nb, 4, &node.op_type);
    for (k, a) in &node.attrs {
        let mut ab = Vec::new();
        enc::f_str(&mut ab, 1, k);
        match a {
            Attr::Float(v) => {
                enc::f_f32(&mut ab, 2, *v);
                enc::f_i64(&mut ab, 20, 1);
            }
            Attr::Int(v) => {
                enc::f_i64(&mut ab, 3, *v);
                enc::f_i64(&mut ab, 20, 2);
            }
            Attr::Str(v) => {
                enc::f_str(&mut ab, 4, v);
                enc::f_i64(&mut ab, 20, 3);
            }
            Attr::Floats(v) => {
                for x in v {
                    enc::f_f32(&mut ab, 7, *x);
                }
                enc::f_i64(&mut ab, 20, 6);
            }
            Attr::Ints(v) => {
                for x in v {
                    enc::f_i64(&mut ab, 8, *x);
                }
                enc::f_i64(&mut ab, 20, 7);
            }
            Attr::Strs(v) => {
                for x in v {
                    enc::f_str(&mut ab, 9, x);
                }
                enc::f_i64(&mut ab, 20, 8);
            }
            _ => return Err("unsupported attribute kind".into()),
        }
        enc::f_bytes(&mut nb, 5, &ab);
    }
    if !node.domain.is_empty() {
        enc::f_str(&mut nb, 7, &node.domain);
    }
    let g = Graph {
        nodes: vec![],
        inputs: c
            .inputs
            .iter()
            .enumerate()
            .filter_map(|(i, v)| v.as_ref().map(|v| ValueInfo::new(&format!("i{i}"), onnx_dt(v), None)))
            .collect(),
        outputs: out_names.iter().map(|n| ValueInfo::new(n, dt::FLOAT, None)).collect(),
        ..Default::default()
    };
    let mut gb = Vec::new();
    enc::f_bytes(&mut gb, 1, &nb);
    gb.extend_from_slice(&g.encode());
    let mut bytes = Vec::new();
    enc::f_i64(&mut bytes, 1, 8);
    enc::f_str(&mut bytes, 2, "rten-verif");
    enc::f_bytes(&mut bytes, 7, &gb);
    for (dom, ver) in [("", 21i64), ("com.microsoft", 1)] {
        let mut os = Vec::new();
        enc::f_str(&mut os, 1, dom);
        enc::f_i64(&mut os, 2, ver);
        enc::f_bytes(&mut bytes, 8, &os);
    }
    let mut opts = ModelOptions::with_all_ops();
    opts.enable_optimization(false);
    let model = opts.load(bytes).map_err(|e| format!("load: {e}"))?;
    for (_, node) in model.verif_graph().iter() {
        if let Some(opn) = node.as_operator() {
            return Ok(opn.clone_operator());
        }
    }
    Err("no operator node in loaded graph".into())
}

pub fn run_op(op: &dyn Operator, inputs: &[Option<ValueView>], n_out: usize) -> Result<Vec<Value>, String> {
    let pool = BufferPool::new();
    let il = InputList::from_optional(inputs);
    let ctx = OpRunContext::new(&pool, &il, OutputMask::all_used(n_out));
    op.run(&ctx).map(|o| o.into_iter().collect()).map_err(|e| format!("{e:?}"))
}

pub fn run_op_in_place(
    op: &dyn Operator,
    in_place: Vec<(usize, Value)>,
    others: &[Option<ValueView>],
    n_out: usize,
) -> Result<Vec<Value>, String> {
    let pool = BufferPool::new();
    let il = InputList::from_optional(others);
    let ctx = OpRunContext::new(&pool, &il, OutputMask::all_used(n_out));
    op.run_in_place(InPlaceInputs::from_iter(in_place), &ctx)
        .map(|o| o.into_iter().collect())
        .map_err(|e| format!("{e:?}"))
}

// ---------------------------------------------------------------------------------------------
// Random tensors

pub fn rshape(rng: &mut Rng, max_rank: usize, min_rank: usize) -> Vec<usize> {
    let rank = min_rank + rng.usize_below(max_rank - min_rank + 1);
    (0..rank)
        .map(|_| if rng.chance(1, 25) { 0 } else if rng.chance(1, 5) { 1 } else { 1 + rng.usize_below(5) })
        .collect()
}

pub fn rshape_nz(rng: &mut Rng, max_rank: usize, min_rank: usize) -> Vec<usize> {
    let rank = min_rank + rng.usize_below(max_rank - min_rank + 1);
    (0..rank).map(|_| 1 + rng.usize_below(4)).collect()
}

/// A pair of shapes that broadcast together (mostly), in the flavours the fast paths distinguish:
/// equal, scalar, leading / trailing / middle broadcast, lower rank, two-sided.
pub fn bpair(rng: &mut Rng) -> (Vec<usize>, Vec<usize>) {
    let out = rshape(rng, 4, 0);
    let derive = |rng: &mut Rng, out: &[usize], heavy: bool| -> Vec<usize> {
        let mut s: Vec<usize> = out.to_vec();
        match rng.below(7) {
            0 => {}
            1 => s = if rng.chance(1, 2) { vec![] } else { vec![1; rng.usize_below(out.len() + 1)] },
            2 => {
                let k = rng.usize_below(s.len() + 1);
                for d in s.iter_mut().take(k) {
                    *d = 1;
                }
            }
            3 => {
                let k = rng.usize_below(s.len() + 1);
                let n = s.len();
                for d in s.iter_mut().skip(n - k) {
                    *d = 1;
                }
            }
            4 => {
                let k = rng.usize_below(s.len() + 1);
                s = s[k..].to_vec();
            }
            _ => {
                for d in s.iter_mut() {
                    if rng.chance(1, 2) {
                        *d = 1;
                    }
                }
                if rng.chance(1, 2) {
                    let k = rng.usize_below(s.len() + 1);
                    s = s[k..].to_vec();
                }
            }
        }
        if heavy && rng.chance(1, 40) && !s.is_empty() {
            let k = rng.usize_below(s.len());
            s[k] += 1; // incompatible on purpose
        }
        s
    };
    let a = if rng.chance(1, 2) { out.clone() } else { derive(rng, &out, false) };
    let b = derive(rng, &out, true);
    if rng.chance(1, 2) {
        (a, b)
    } else {
        (b, a)
    }
}

pub fn rf32(rng: &mut Rng) -> f32 {
    match rng.below(40) {
        0 => f32::NAN,
        1 => f32::INFINITY,
        2 => f32::NEG_INFINITY,
        3 => -0.0,
        4 => 0.0,
        5 => f32::MIN_POSITIVE / 4.0,
        6 => 1e30,
        7 => -1e30,
        8..=19 => rng.range_i64(-4, 4) as f32,
        20..=25 => (rng.f32_unit() - 0.5) * 200.0,
        _ => (rng.f32_unit() - 0.5) * 4.0,
    }
}

pub fn ri32(rng: &mut Rng) -> i32 {
    match rng.below(40) {
        0 => i32::MAX,
        1 => i32::MIN,
        2 => i32::MAX - 1,
        3..=5 => rng.range_i64(-100_000, 100_000) as i32,
        6..=8 => 0,
        _ => rng.range_i64(-6, 6) as i32,
    }
}

pub fn numel(s: &[usize]) -> usize {
    s.iter().product()
}

pub fn tf(rng: &mut Rng, s: &[usize]) -> Value {
    Tensor::from_data(s, (0..numel(s)).map(|_| rf32(rng)).collect::<Vec<f32>>()).into()
}
/// Finite, moderate floats (for ops whose reductions would otherwise be NaN everywhere).
pub fn tfm(rng: &mut Rng, s: &[usize]) -> Value {
    Tensor::from_data(
        s,
        (0..numel(s))
            .map(|_| if rng.chance(1, 3) { rng.range_i64(-3, 3) as f32 } else { (rng.f32_unit() - 0.5) * 6.0 })
            .collect::<Vec<f32>>(),
    )
    .into()
}
/// Small-integer-valued floats: sums of products are exact, so any difference is a wrong element.
pub fn tfi(rng: &mut Rng, s: &[usize], lo: i64, hi: i64) -> Value {
    Tensor::from_data(s, (0..numel(s)).map(|_| rng.range_i64(lo, hi) as f32).collect::<Vec<f32>>()).into()
}
/// (M, K, N) with one "wide" side: two or more full packing panels along N (or along M).
pub fn wide_mkn(rng: &mut Rng) -> (usize, usize, usize) {
    let small = *rng.pick(&[2usize, 3, 5]);
    let wide = *rng.pick(&[63usize, 64, 65, 96, 130]);
    let k = 1 + rng.usize_below(5);
    if rng.chance(3, 4) {
        (small, k, wide)
    } else {
        (wide, k, small)
    }
}
pub fn ti(rng: &mut Rng, s: &[usize]) -> Value {
    Tensor::from_data(s, (0..numel(s)).map(|_| ri32(rng)).collect::<Vec<i32>>()).into()
}
pub fn tism(rng: &mut Rng, s: &[usize], lo: i64, hi: i64) -> Value {
    Tensor::from_data(s, (0..numel(s)).map(|_| rng.range_i64(lo, hi) as i32).collect::<Vec<i32>>()).into()
}
pub fn ti8(rng: &mut Rng, s: &[usize]) -> Value {
    Tensor::from_data(s, (0..numel(s)).map(|_| rng.range_i64(-128, 127) as i8).collect::<Vec<i8>>()).into()
}
pub fn tu8(rng: &mut Rng, s: &[usize]) -> Value {
    Tensor::from_data(s, (0..numel(s)).map(|_| rng.range_i64(0, 255) as u8).collect::<Vec<u8>>()).into()
}
pub fn ivec(v: &[i64]) -> Value {
    Tensor::from_data(&[v.len()], v.iter().map(|&x| x as i32).collect::<Vec<i32>>()).into()
}
pub fn fscalar(x: f32) -> Value {
    Tensor::from(x).into()
}
pub fn iscalar(x: i32) -> Value {
    Tensor::from(x).into()
}
/// Float or int tensor (mostly float).
pub fn tany(rng: &mut Rng, s: &[usize]) -> Value {
    if rng.chance(2, 3) {
        tf(rng, s)
    } else {
        ti(rng, s)
    }
}
pub fn tany4(rng: &mut Rng, s: &[usize]) -> Value {
    match rng.below(6) {
        0 => ti8(rng, s),
        1 => tu8(rng, s),
        2 | 3 => ti(rng, s),
        _ => tf(rng, s),
    }
}
fn like(rng: &mut Rng, v: &Value, s: &[usize]) -> Value {
    match v {
        Value::FloatTensor(_) => tf(rng, s),
        Value::Int32Tensor(_) => ti(rng, s),
        Value::Int8Tensor(_) => ti8(rng, s),
        Value::UInt8Tensor(_) => tu8(rng, s),
        _ => tf(rng, s),
    }
}

pub const UNARY_F: &[&str] = &[
    "Abs", "Acos", "Acosh", "Asin", "Asinh", "Atan", "Atanh", "Ceil", "Cos", "Cosh", "Elu", "Erf", "Exp", "Floor",
    "Gelu", "HardSigmoid", "HardSwish", "IsInf", "IsNaN", "LeakyRelu", "Log", "Neg", "Reciprocal", "Relu", "Round",
    "Sigmoid", "Sign", "Sin", "Sinh", "Softplus", "Sqrt", "Tan", "Tanh", "Swish",
];
pub const BINARY: &[&str] = &[
    "Add", "Sub", "Mul", "Div", "Pow", "Mod", "And", "Or", "Xor", "Equal", "Greater", "GreaterOrEqual", "Less",
    "LessOrEqual",
];
pub const OTHER: &[&str] = &[
    "Not", "Clip", "PRelu", "Where", "Max", "Min", "Mean", "Sum", "Cast", "CastLike", "Identity", "Expand", "Flatten",
    "Reshape", "Squeeze", "Unsqueeze", "Transpose", "Concat", "Tile", "Slice", "Split", "Gather", "GatherElements",
    "GatherND", "ScatterElements", "ScatterND", "BatchNormalization", "InstanceNormalization", "LayerNormalization",
    "RMSNormalization", "LpNormalization", "Softmax", "LogSoftmax", "Resize", "MatMul", "Gemm", "Conv",
    "ConvTranspose", "MaxPool", "AveragePool", "GlobalAveragePool", "GlobalMaxPool", "Pad", "ReduceSum",
    "ReduceMean", "ReduceMax", "ReduceMin", "ReduceProd", "ReduceL1", "ReduceL2", "ReduceLogSum",
    "ReduceLogSumExp", "ReduceSumSquare", "ArgMax", "ArgMin", "CumSum", "TopK", "Trilu", "DepthToSpace", "OneHot",
    "NonZero", "Einsum", "Shape", "Size", "Range", "EyeLike", "ReverseSequence", "MatMulInteger",
    "DequantizeLinear", "QuantizeLinear", "DynamicQuantizeLinear", "GeluMs", "QuickGelu", "BiasGelu", "FastGelu",
    "SequenceInsert", "SequenceErase", "GridSample", "Dropout", "ConstantOfShape", "FusedSilu", "FusedAddSoftmax", "GRU", "LSTM", "Attention", "ConvInteger", "Upsample", "Scatter", "SimplifiedLayerNormalization", "SkipLayerNormalization", "ConvPad", "ConvIntegerPad", "ConvTransposePad", "MaxPoolPad", "AveragePoolPad", "MatMulWide", "GemmWide", "MatMulIntegerWide", "EinsumWide", "ConvWide",
];

pub fn all_names() -> Vec<&'static str> {
    UNARY_F.iter().chain(BINARY).chain(OTHER).copied().collect()
}

fn axis_of(rng: &mut Rng, rank: usize) -> i64 {
    if rank == 0 {
        return 0;
    }
    let a = rng.usize_below(rank) as i64;
    if rng.chance(1, 3) {
        a - rank as i64
    } else {
        a
    }
}

fn seq_of(vals: Vec<Value>) -> Option<Value> {
    let mut ts: Vec<Tensor<f32>> = vec![];
    for v in vals {
        match v {
            Value::FloatTensor(t) => ts.push(t),
            _ => return None,
        }
    }
    Some(Value::Sequence(rten::Sequence::from(ts)))
}

/// Generate a case for catalogue entry `name`.
pub fn gen(name: &'static str, rng: &mut Rng) -> Option<Case> {
    let s = |n: &str| Attr::Str(n.to_string());
    if UNARY_F.contains(&name) {
        let sh = rshape(rng, 4, 0);
        let x = if rng.chance(1, 6) { ti(rng, &sh) } else { tf(rng, &sh) };
        let mut c = Case::new(name, vec![Some(x)]);
        match name {
            "Elu" | "LeakyRelu" => c = c.attr("alpha", Attr::Float(rng.f32_unit())),
            "HardSigmoid" => {
                c = c.attr("alpha", Attr::Float(rng.f32_unit())).attr("beta", Attr::Float(rng.f32_unit()))
            }
            "Gelu" => {
                if rng.chance(1, 2) {
                    c = c.attr("approximate", s(if rng.chance(1, 2) { "tanh" } else { "none" }))
                }
            }
            _ => {}
        }
        return Some(c);
    }
    if BINARY.contains(&name) {
        let (a, b) = bpair(rng);
        let int = matches!(name, "And" | "Or" | "Xor") || rng.chance(1, 3);
        let (x, y) = if int {
            if matches!(name, "Pow") {
                (tism(rng, &a, -3, 3), tism(rng, &b, 0, 3))
            } else {
                (ti(rng, &a), ti(rng, &b))
            }
        } else {
            (tf(rng, &a), tf(rng, &b))
        };
        let mut c = Case::new(name, vec![Some(x), Some(y)]);
        if name == "Mod" && (!int || rng.chance(1, 2)) {
            c = c.attr("fmod", Attr::Int(1));
        }
        return Some(c);
    }
    let c = match name {
        "Not" => {
            let sh = rshape(rng, 4, 0);
            Case::new(name, vec![Some(tism(rng, &sh, 0, 1))])
        }
        "Clip" => {
            let sh = rshape(rng, 4, 0);
            let x = tany(rng, &sh);
            let lo = rng.chance(2, 3).then(|| like(rng, &x, &[]));
            let hi = rng.chance(2, 3).then(|| like(rng, &x, &[]));
            Case::new(name, vec![Some(x), lo, hi]).data(&[0])
        }
        "PRelu" => {
            let (a, b) = bpair(rng);
            Case::new(name, vec![Some(tf(rng, &a)), Some(tf(rng, &b))])
        }
        "Where" => {
            let (a, b) = bpair(rng);
            let (c0, _) = bpair(rng);
            let cs = if rng.chance(1, 2) { a.clone() } else { c0 };
            let x = tany(rng, &a);
            let y = like(rng, &x, &b);
            Case::new(name, vec![Some(tism(rng, &cs, 0, 1)), Some(x), Some(y)])
        }
        "Max" | "Min" | "Mean" | "Sum" => {
            let (a, b) = bpair(rng);
            let x = tany(rng, &a);
            let mut v = vec![Some(like(rng, &x, &b))];
            if rng.chance(1, 2) {
                v.push(Some(like(rng, &x, &a)));
            }
            v.insert(0, Some(x));
            Case::new(name, v)
        }
        "Cast" => {
            let sh = rshape(rng, 4, 0);
            let to = *rng.pick(&[dt::FLOAT, dt::INT32, dt::INT8, dt::UINT8, dt::INT64, dt::BOOL]);
            Case::new(name, vec![Some(tany4(rng, &sh))]).attr("to", Attr::Int(to as i64))
        }
        "CastLike" => {
            let sh = rshape(rng, 4, 0);
            Case::new(name, vec![Some(tany4(rng, &sh)), Some(tany4(rng, &[]))]).data(&[0])
        }
        "Identity" => {
            let sh = rshape(rng, 4, 0);
            Case::new(name, vec![Some(tany4(rng, &sh))])
        }
        "Dropout" => {
            let sh = rshape(rng, 4, 0);
            Case::new(name, vec![Some(tf(rng, &sh))])
        }
        "Expand" => {
            let (a, b) = bpair(rng);
            Case::new(name, vec![Some(tany(rng, &a)), Some(ivec(&b.iter().map(|&x| x as i64).collect::<Vec<_>>()))])
                .data(&[0])
        }
        "Flatten" => {
            let sh = rshape(rng, 4, 0);
            let ax = rng.range_i64(-(sh.len() as i64) - 1, sh.len() as i64 + 1);
            Case::new(name, vec![Some(tany4(rng, &sh))]).attr("axis", Attr::Int(ax))
        }
        "Reshape" => {
            let sh = rshape(rng, 4, 0);
            let n = numel(&sh);
            let mut spec: Vec<i64> = match rng.below(5) {
                0 => vec![n as i64],
                1 => vec![-1],
                2 => {
                    let mut r = sh.clone();
                    rng.shuffle(&mut r);
                    r.iter().map(|&x| x as i64).collect()
                }
                3 => {
                    let mut v: Vec<i64> = sh.iter().map(|&x| x as i64).collect();
                    v.insert(rng.usize_below(v.len() + 1), 1);
                    v
                }
                _ => {
                    // factorisation of n
                    let mut v = vec![];
                    let mut m = n.max(1);
                    for p in [2usize, 3, 5] {
                        while m % p == 0 && rng.chance(2, 3) {
                            v.push(p as i64);
                            m /= p;
                        }
                    }
                    v.push(if n == 0 { 0 } else { m as i64 });
                    v
                }
            };
            if !spec.is_empty() && rng.chance(1, 4) {
                let k = rng.usize_below(spec.len());
                spec[k] = *rng.pick(&[-1i64, 0, 0, -2, 7]);
            }
            let az = rng.chance(1, 4);
            let mut c = Case::new(name, vec![Some(tany4(rng, &sh)), Some(ivec(&spec))]).data(&[0]);
            if az {
                c = c.attr("allowzero", Attr::Int(1));
            }
            c
        }
        "Squeeze" => {
            let mut sh = rshape(rng, 4, 0);
            for d in sh.iter_mut() {
                if rng.chance(1, 2) {
                    *d = 1;
                }
            }
            let axes: Option<Vec<i64>> = rng.chance(2, 3).then(|| {
                let mut ax = vec![];
                for (i, &d) in sh.iter().enumerate() {
                    if (d == 1 && rng.chance(2, 3)) || rng.chance(1, 30) {
                        ax.push(if rng.chance(1, 3) { i as i64 - sh.len() as i64 } else { i as i64 });
                    }
                }
                rng.shuffle(&mut ax);
                ax
            });
            Case::new(name, vec![Some(tany4(rng, &sh)), axes.map(|a| ivec(&a))]).data(&[0])
        }
        "Unsqueeze" => {
            let sh = rshape(rng, 3, 0);
            let k = 1 + rng.usize_below(2);
            let orank = sh.len() + k;
            let mut pos: Vec<usize> = (0..orank).collect();
            rng.shuffle(&mut pos);
            let mut ax: Vec<i64> = pos[..k]
                .iter()
                .map(|&p| if rng.chance(1, 3) { p as i64 - orank as i64 } else { p as i64 })
                .collect();
            if rng.chance(1, 20) {
                ax.push(ax[0]);
            }
            if rng.chance(1, 30) {
                ax[0] = orank as i64;
            }
            Case::new(name, vec![Some(tany4(rng, &sh)), Some(ivec(&ax))]).data(&[0])
        }
        "Transpose" => {
            let sh = rshape(rng, 4, 0);
            let mut c = Case::new(name, vec![Some(tany4(rng, &sh))]);
            if rng.chance(3, 4) {
                let mut p: Vec<i64> = (0..sh.len() as i64).collect();
                rng.shuffle(&mut p);
                c = c.attr("perm", Attr::Ints(p));
            }
            c
        }
        "Concat" => {
            let sh = rshape(rng, 4, 1);
            let ax = axis_of(rng, sh.len());
            let axu = if ax < 0 { (ax + sh.len() as i64) as usize } else { ax as usize };
            let x = tany(rng, &sh);
            let n = rng.usize_below(3);
            let mut v = vec![];
            for _ in 0..n {
                let mut s2 = sh.clone();
                s2[axu] = if rng.chance(1, 5) { 0 } else { 1 + rng.usize_below(3) };
                if rng.chance(1, 40) {
                    let k = rng.usize_below(s2.len());
                    s2[k] += 1;
                }
                v.push(Some(like(rng, &x, &s2)));
            }
            v.insert(0, Some(x));
            Case::new(name, v).attr("axis", Attr::Int(ax))
        }
        "Tile" => {
            let sh = rshape(rng, 3, 0);
            let reps: Vec<i64> = sh
                .iter()
                .map(|_| if rng.chance(1, 2) { 1 } else { rng.range_i64(0, 3) })
                .collect();
            Case::new(name, vec![Some(tany(rng, &sh)), Some(ivec(&reps))]).data(&[0])
        }
        "Slice" => {
            let sh = rshape(rng, 4, 1);
            let k = 1 + rng.usize_below(sh.len());
            let mut axes: Vec<usize> = (0..sh.len()).collect();
            rng.shuffle(&mut axes);
            axes.truncate(k);
            let mut st = vec![];
            let mut en = vec![];
            let mut sp = vec![];
            for &a in &axes {
                let n = sh[a] as i64;
                st.push(rng.range_i64(-n - 1, n + 1));
                en.push(if rng.chance(1, 6) { i32::MAX as i64 } else { rng.range_i64(-n - 1, n + 1) });
                sp.push(*rng.pick(&[1i64, 1, 1, 2, 3, -1, -2]));
            }
            let axv: Vec<i64> =
                axes.iter().map(|&a| if rng.chance(1, 3) { a as i64 - sh.len() as i64 } else { a as i64 }).collect();
            let with_axes = rng.chance(3, 4) || k != sh.len();
            let with_steps = with_axes && rng.chance(1, 2);
            Case::new(
                name,
                vec![
                    Some(tany(rng, &sh)),
                    Some(ivec(&st)),
                    Some(ivec(&en)),
                    with_axes.then(|| ivec(&axv)),
                    with_steps.then(|| ivec(&sp)),
                ],
            )
            .data(&[0])
        }
        "Split" => {
            let sh = rshape_nz(rng, 3, 1);
            let ax = axis_of(rng, sh.len());
            let axu = if ax < 0 { (ax + sh.len() as i64) as usize } else { ax as usize };
            let a = rng.usize_below(sh[axu] + 1);
            Case::new(name, vec![Some(tany(rng, &sh)), Some(ivec(&[a as i64, (sh[axu] - a) as i64]))])
                .attr("axis", Attr::Int(ax))
                .outs(2)
                .data(&[0])
        }
        "Gather" => {
            let sh = rshape_nz(rng, 3, 1);
            let ax = axis_of(rng, sh.len());
            let axu = if ax < 0 { (ax + sh.len() as i64) as usize } else { ax as usize };
            let ish = rshape(rng, 2, 0);
            let n = sh[axu] as i64;
            Case::new(name, vec![Some(tany(rng, &sh)), Some(tism(rng, &ish, -n, n - 1))]).attr("axis", Attr::Int(ax))
        }
        "GatherElements" => {
            let sh = rshape_nz(rng, 3, 1);
            let ax = axis_of(rng, sh.len());
            let axu = if ax < 0 { (ax + sh.len() as i64) as usize } else { ax as usize };
            let mut ish = sh.clone();
            ish[axu] = 1 + rng.usize_below(3);
            let n = sh[axu] as i64;
            Case::new(name, vec![Some(tany(rng, &sh)), Some(tism(rng, &ish, -n, n - 1))]).attr("axis", Attr::Int(ax))
        }
        "GatherND" => {
            let sh = rshape_nz(rng, 3, 1);
            let k = 1 + rng.usize_below(sh.len());
            let m = 1 + rng.usize_below(3);
            let mut idx = vec![];
            for _ in 0..m {
                for d in 0..k {
                    idx.push(rng.usize_below(sh[d]) as i32);
                }
            }
            Case::new(name, vec![Some(tany(rng, &sh)), Some(Tensor::from_data(&[m, k], idx).into())])
        }
        "ScatterElements" => {
            let sh = rshape_nz(rng, 3, 1);
            let ax = axis_of(rng, sh.len());
            let axu = if ax < 0 { (ax + sh.len() as i64) as usize } else { ax as usize };
            let mut ish = sh.clone();
            ish[axu] = 1;
            let n = sh[axu] as i64;
            let x = tany(rng, &sh);
            let u = like(rng, &x, &ish);
            let mut c = Case::new(name, vec![Some(x), Some(tism(rng, &ish, 0, n - 1)), Some(u)]).attr("axis", Attr::Int(ax));
            if rng.chance(1, 3) {
                c = c.attr("reduction", s(*rng.pick(&["add", "mul", "min", "max"])));
            }
            c
        }
        "ScatterND" => {
            let sh = rshape_nz(rng, 3, 1);
            let idx = vec![rng.usize_below(sh[0]) as i32];
            let x = tany(rng, &sh);
            let mut ush = vec![1usize];
            ush.extend_from_slice(&sh[1..]);
            let u = like(rng, &x, &ush);
            Case::new(name, vec![Some(x), Some(Tensor::from_data(&[1, 1], idx).into()), Some(u)])
        }
        "BatchNormalization" => {
            let mut sh = rshape_nz(rng, 4, 2);
            if rng.chance(1, 10) {
                sh[0] = 0;
            }
            let c = sh[1];
            let var: Value =
                Tensor::from_data(&[c], (0..c).map(|_| rng.f32_unit() + 0.1).collect::<Vec<f32>>()).into();
            Case::new(name, vec![Some(tfm(rng, &sh)), Some(tfm(rng, &[c])), Some(tfm(rng, &[c])), Some(tfm(rng, &[c])), Some(var)])
        }
        "InstanceNormalization" => {
            let sh = rshape_nz(rng, 4, 3);
            let c = sh[1];
            Case::new(name, vec![Some(tfm(rng, &sh)), Some(tfm(rng, &[c])), Some(tfm(rng, &[c]))])
        }
        "LayerNormalization" | "RMSNormalization" => {
            let sh = rshape_nz(rng, 4, 1);
            let ax = axis_of(rng, sh.len());
            let axu = if ax < 0 { (ax + sh.len() as i64) as usize } else { ax as usize };
            let nsh = sh[axu..].to_vec();
            let mut v = vec![Some(tfm(rng, &sh)), Some(tfm(rng, &nsh))];
            if name == "LayerNormalization" && rng.chance(1, 2) {
                v.push(Some(tfm(rng, &nsh)));
            }
            let mut c = Case::new(name, v).attr("axis", Attr::Int(ax));
            if name == "RMSNormalization" {
                c.onnx = "RMSNormalization";
            }
            c
        }
        "LpNormalization" => {
            let sh = rshape(rng, 4, 1);
            Case::new(name, vec![Some(tfm(rng, &sh))])
                .attr("axis", Attr::Int(axis_of(rng, sh.len())))
                .attr("p", Attr::Int(1 + rng.below(2) as i64))
        }
        "Softmax" | "LogSoftmax" => {
            let sh = rshape(rng, 4, 1);
            let x = if rng.chance(1, 4) { tf(rng, &sh) } else { tfm(rng, &sh) };
            Case::new(name, vec![Some(x)]).attr("axis", Attr::Int(axis_of(rng, sh.len())))
        }
        "Resize" => {
            let sh = rshape_nz(rng, 4, 4);
            let mode = *rng.pick(&["nearest", "linear"]);
            let mut c = Case::new(name, vec![Some(tfm(rng, &sh))]);
            if rng.chance(1, 2) {
                let sc: Vec<f32> = vec![1.0, 1.0, *rng.pick(&[1.0f32, 2.0, 0.5, 1.5]), *rng.pick(&[1.0f32, 2.0, 0.5, 3.0])];
                c.inputs.push(None);
                c.inputs.push(Some(Tensor::from_data(&[4], sc).into()));
            } else {
                let sz = vec![sh[0] as i64, sh[1] as i64, rng.range_i64(1, 6), rng.range_i64(1, 6)];
                c.inputs.push(None);
                c.inputs.push(None);
                c.inputs.push(Some(ivec(&sz)));
            }
            c = c.attr("mode", s(mode)).data(&[0]);
            if rng.chance(1, 2) {
                c = c.attr(
                    "coordinate_transformation_mode",
                    s(*rng.pick(&["asymmetric", "half_pixel", "align_corners", "pytorch_half_pixel"])),
                );
            }
            c
        }
        "MatMul" => {
            let m = rng.usize_below(6);
            let k = rng.usize_below(6);
            let n = 1 + rng.usize_below(6);
            let (mut a, mut b) = (vec![m, k], vec![k, n]);
            match rng.below(5) {
                0 => {
                    let bt = 1 + rng.usize_below(3);
                    a.insert(0, bt);
                    b.insert(0, bt);
                }
                1 => a.insert(0, 1 + rng.usize_below(3)),
                2 => b.insert(0, 1 + rng.usize_below(3)),
                3 => {
                    a.insert(0, 1 + rng.usize_below(2));
                    a.insert(0, 1 + rng.usize_below(2));
                    b.insert(0, 1);
                }
                _ => {}
            }
            if rng.chance(1, 4) {
                Case::new(name, vec![Some(tism(rng, &a, -5, 5)), Some(tism(rng, &b, -5, 5))])
            } else {
                Case::new(name, vec![Some(tfm(rng, &a)), Some(tfm(rng, &b))])
            }
        }
        "MatMulInteger" => {
            let m = 1 + rng.usize_below(5);
            let k = 1 + rng.usize_below(9);
            let n = 1 + rng.usize_below(5);
            Case::new(name, vec![Some(tu8(rng, &[m, k])), Some(ti8(rng, &[k, n]))])
        }
        "Gemm" => {
            let m = 1 + rng.usize_below(5);
            let k = 1 + rng.usize_below(5);
            let n = 1 + rng.usize_below(5);
            let ta = rng.chance(1, 2);
            let tb = rng.chance(1, 2);
            let a = if ta { vec![k, m] } else { vec![m, k] };
            let b = if tb { vec![n, k] } else { vec![k, n] };
            let csh = rng.pick(&[vec![m, n], vec![n], vec![1, n], vec![m, 1], vec![]]).clone();
            let mut v = vec![Some(tfm(rng, &a)), Some(tfm(rng, &b))];
            if rng.chance(2, 3) {
                v.push(Some(tfm(rng, &csh)));
            }
            Case::new(name, v)
                .attr("transA", Attr::Int(ta as i64))
                .attr("transB", Attr::Int(tb as i64))
                .attr("alpha", Attr::Float(*rng.pick(&[1.0f32, 0.5, 2.0])))
                .attr("beta", Attr::Float(*rng.pick(&[1.0f32, 0.0, 0.5])))
        }
        "Conv" | "ConvTranspose" => {
            let (n, ci, co) = (1 + rng.usize_below(2), 1 + rng.usize_below(4), 1 + rng.usize_below(4));
            let d1 = rng.chance(1, 4);
            let (h, w) = (2 + rng.usize_below(6), 2 + rng.usize_below(6));
            let (kh, kw) = (1 + rng.usize_below(3.min(h)), 1 + rng.usize_below(3.min(w)));
            let depthwise = name == "Conv" && rng.chance(1, 5);
            let (xs, ws) = if name == "Conv" {
                if d1 {
                    (vec![n, ci, w], vec![co, ci, kw])
                } else if depthwise {
                    (vec![n, ci, h, w], vec![ci, 1, kh, kw])
                } else {
                    (vec![n, ci, h, w], vec![co, ci, kh, kw])
                }
            } else if d1 {
                (vec![n, ci, w], vec![ci, co, kw])
            } else {
                (vec![n, ci, h, w], vec![ci, co, kh, kw])
            };
            let oc = if depthwise { ci } else { co };
            let mut v = vec![Some(tfm(rng, &xs)), Some(tfm(rng, &ws))];
            if rng.chance(1, 2) {
                v.push(Some(tfm(rng, &[oc])));
            }
            let mut c = Case::new(name, v);
            if depthwise {
                c = c.attr("group", Attr::Int(ci as i64));
            }
            if rng.chance(1, 2) {
                let st = 1 + rng.below(2) as i64;
                c = c.attr("strides", Attr::Ints(if d1 { vec![st] } else { vec![st, 1 + rng.below(2) as i64] }));
            }
            if name == "Conv" && rng.chance(1, 3) {
                c = c.attr("pads", Attr::Ints(if d1 { vec![1, 1] } else { vec![1, 0, 1, 0] }));
            }
            c
        }
        "MaxPool" | "AveragePool" => {
            let sh = vec![1 + rng.usize_below(2), 1 + rng.usize_below(3), 2 + rng.usize_below(5), 2 + rng.usize_below(5)];
            let k = vec![1 + rng.below(2) as i64, 1 + rng.below(2) as i64];
            let mut c = Case::new(name, vec![Some(tfm(rng, &sh))]).attr("kernel_shape", Attr::Ints(k));
            if rng.chance(1, 2) {
                c = c.attr("strides", Attr::Ints(vec![1 + rng.below(2) as i64, 1 + rng.below(2) as i64]));
            }
            if rng.chance(1, 3) {
                c = c.attr("pads", Attr::Ints(vec![0, 1, 0, 1]));
            }
            c
        }
        "GlobalAveragePool" | "GlobalMaxPool" => {
            let sh = rshape_nz(rng, 4, 4);
            Case::new(name, vec![Some(tfm(rng, &sh))])
        }
        "Pad" => {
            let sh = rshape_nz(rng, 3, 1);
            let r = sh.len();
            let mode = *rng.pick(&["constant", "constant", "reflect", "edge"]);
            let pads: Vec<i64> = (0..2 * r)
                .map(|i| {
                    let lim = if mode == "reflect" { sh[i % r] as i64 - 1 } else { 2 };
                    rng.range_i64(0, lim.max(0).min(2))
                })
                .collect();
            let x = tany(rng, &sh);
            let cv = (mode == "constant" && rng.chance(1, 2)).then(|| like(rng, &x, &[]));
            Case::new(name, vec![Some(x), Some(ivec(&pads)), cv]).attr("mode", s(mode)).data(&[0])
        }
        "ReduceSum" | "ReduceMean" | "ReduceMax" | "ReduceMin" | "ReduceProd" | "ReduceL1" | "ReduceL2"
        | "ReduceLogSum" | "ReduceLogSumExp" | "ReduceSumSquare" => {
            let sh = if rng.chance(1, 8) { rshape(rng, 4, 0) } else { rshape_nz(rng, 4, 1) };
            let x = if matches!(name, "ReduceSum" | "ReduceMax" | "ReduceMin" | "ReduceProd" | "ReduceMean") && rng.chance(1, 3) {
                tism(rng, &sh, -4, 4)
            } else {
                tfm(rng, &sh)
            };
            let axes: Option<Vec<i64>> = rng.chance(4, 5).then(|| {
                let mut ax: Vec<i64> = vec![];
                for i in 0..sh.len() {
                    if rng.chance(1, 2) {
                        ax.push(if rng.chance(1, 3) { i as i64 - sh.len() as i64 } else { i as i64 });
                    }
                }
                rng.shuffle(&mut ax);
                ax
            });
            Case::new(name, vec![Some(x), axes.map(|a| ivec(&a))])
                .attr("keepdims", Attr::Int(rng.below(2) as i64))
                .data(&[0])
        }
        "ArgMax" | "ArgMin" => {
            let sh = rshape_nz(rng, 4, 1);
            Case::new(name, vec![Some(if rng.chance(1, 3) { tism(rng, &sh, -3, 3) } else { tfm(rng, &sh) })])
                .attr("axis", Attr::Int(axis_of(rng, sh.len())))
                .attr("keepdims", Attr::Int(rng.below(2) as i64))
        }
        "CumSum" => {
            let sh = rshape(rng, 3, 1);
            let mut c = Case::new(name, vec![Some(if rng.chance(1, 2) { tism(rng, &sh, -5, 5) } else { tfm(rng, &sh) }), Some(iscalar(axis_of(rng, sh.len()) as i32))])
                .data(&[0]);
            if rng.chance(1, 3) {
                c = c.attr("exclusive", Attr::Int(1));
            }
            if rng.chance(1, 3) {
                c = c.attr("reverse", Attr::Int(1));
            }
            c
        }
        "TopK" => {
            let sh = rshape_nz(rng, 3, 1);
            let ax = axis_of(rng, sh.len());
            let axu = if ax < 0 { (ax + sh.len() as i64) as usize } else { ax as usize };
            let k = rng.usize_below(sh[axu] + 1) as i64;
            // distinct values: ties are broken by index, NaN handling is C31's business
            let n = numel(&sh);
            let mut vals: Vec<f32> = (0..n).map(|i| i as f32 * 0.5 - 3.0).collect();
            rng.shuffle(&mut vals);
            Case::new(name, vec![Some(Tensor::from_data(&sh, vals).into()), Some(ivec(&[k]))])
                .attr("axis", Attr::Int(ax))
                .attr("largest", Attr::Int(rng.below(2) as i64))
                .outs(2)
                .data(&[0])
        }
        "Trilu" => {
            let sh = rshape_nz(rng, 4, 2);
            let k = rng.chance(1, 2).then(|| iscalar(rng.range_i64(-3, 3) as i32));
            Case::new(name, vec![Some(tany(rng, &sh)), k]).attr("upper", Attr::Int(rng.below(2) as i64)).data(&[0])
        }
        "DepthToSpace" => {
            let sh = vec![1 + rng.usize_below(2), 4 * (1 + rng.usize_below(2)), 1 + rng.usize_below(3), 1 + rng.usize_below(3)];
            Case::new(name, vec![Some(tf(rng, &sh))])
                .attr("blocksize", Attr::Int(2))
                .attr("mode", s(*rng.pick(&["DCR", "CRD"])))
        }
        "OneHot" => {
            let sh = rshape(rng, 2, 0);
            let d = 1 + rng.usize_below(4) as i64;
            Case::new(name, vec![Some(tism(rng, &sh, -d, d - 1)), Some(iscalar(d as i32)), Some(tf(rng, &[2]))])
                .attr("axis", Attr::Int(-1))
                .data(&[0])
        }
        "NonZero" => {
            let sh = rshape(rng, 3, 0);
            Case::new(name, vec![Some(if rng.chance(1, 2) { tism(rng, &sh, -1, 1) } else { tf(rng, &sh) })])
        }
        "Einsum" => {
            let (i, j, k) = (1 + rng.usize_below(4), 1 + rng.usize_below(4), 1 + rng.usize_below(4));
            let (eq, a, b): (&str, Vec<usize>, Vec<usize>) = match rng.below(4) {
                0 => ("ij,jk->ik", vec![i, j], vec![j, k]),
                1 => ("bij,bjk->bik", vec![2, i, j], vec![2, j, k]),
                2 => ("ij,kj->ik", vec![i, j], vec![k, j]),
                _ => ("ij,ij->i", vec![i, j], vec![i, j]),
            };
            Case::new(name, vec![Some(tfm(rng, &a)), Some(tfm(rng, &b))]).attr("equation", s(eq))
        }
        "Shape" | "Size" => {
            let sh = rshape(rng, 4, 0);
            Case::new(name, vec![Some(tany4(rng, &sh))])
        }
        "Range" => Case::new(
            name,
            vec![Some(iscalar(rng.range_i64(-3, 3) as i32)), Some(iscalar(rng.range_i64(-3, 8) as i32)), Some(iscalar(*rng.pick(&[1, 2, -1])))],
        )
        .data(&[]),
        "EyeLike" => {
            let sh = rshape_nz(rng, 2, 2);
            Case::new(name, vec![Some(tany(rng, &sh))]).attr("k", Attr::Int(rng.range_i64(-2, 2)))
        }
        "ReverseSequence" => {
            let sh = vec![1 + rng.usize_below(4), 1 + rng.usize_below(4), 1 + rng.usize_below(3)];
            let bt = rng.chance(1, 2);
            let (ba, ta) = if bt { (0, 1) } else { (1, 0) };
            let lens = tism(rng, &[sh[ba]], 1, sh[ta] as i64);
            Case::new(name, vec![Some(tany(rng, &sh)), Some(lens)])
                .attr("batch_axis", Attr::Int(ba as i64))
                .attr("time_axis", Attr::Int(ta as i64))
                .data(&[0])
        }
        "DequantizeLinear" => {
            let sh = rshape(rng, 3, 0);
            let x = if rng.chance(1, 2) { ti8(rng, &sh) } else { tu8(rng, &sh) };
            let zp = like(rng, &x, &[]);
            Case::new(name, vec![Some(x), Some(fscalar(0.25)), Some(zp)]).data(&[0])
        }
        "QuantizeLinear" => {
            let sh = rshape(rng, 3, 0);
            Case::new(name, vec![Some(tf(rng, &sh)), Some(fscalar(0.5)), Some(tu8(rng, &[]))]).data(&[0])
        }
        "DynamicQuantizeLinear" => {
            let sh = rshape(rng, 3, 0);
            Case::new(name, vec![Some(tfm(rng, &sh))]).outs(3)
        }
        "GeluMs" => {
            let sh = rshape(rng, 4, 0);
            Case::new(name, vec![Some(tf(rng, &sh))]).onnx("Gelu").dom("com.microsoft")
        }
        "QuickGelu" | "FastGelu" => {
            let sh = rshape(rng, 4, 0);
            Case::new(name, vec![Some(tf(rng, &sh))]).dom("com.microsoft")
        }
        "BiasGelu" => {
            let sh = rshape(rng, 4, 1);
            let b = vec![*sh.last().unwrap()];
            Case::new(name, vec![Some(tf(rng, &sh)), Some(tf(rng, &b))]).dom("com.microsoft")
        }
        "SequenceInsert" => {
            let n = rng.usize_below(4);
            let items: Vec<Value> = (0..n).map(|_| { let sh = rshape(rng, 2, 0); tf(rng, &sh) }).collect();
            let sh = rshape(rng, 2, 0);
            let pos = rng.chance(2, 3).then(|| iscalar(rng.range_i64(-(n as i64) - 1, n as i64 + 1) as i32));
            Case::new(name, vec![Some(seq_of(items)?), Some(tf(rng, &sh)), pos]).data(&[])
        }
        "SequenceErase" => {
            let n = 1 + rng.usize_below(4);
            let items: Vec<Value> = (0..n).map(|_| { let sh = rshape(rng, 2, 0); tf(rng, &sh) }).collect();
            let pos = rng.chance(2, 3).then(|| iscalar(rng.range_i64(-(n as i64) - 1, n as i64) as i32));
            Case::new(name, vec![Some(seq_of(items)?), pos]).data(&[])
        }
        "GridSample" => {
            let sh = vec![1, 1 + rng.usize_below(2), 2 + rng.usize_below(3), 2 + rng.usize_below(3)];
            let g = vec![1, 1 + rng.usize_below(3), 1 + rng.usize_below(3), 2];
            let grid: Value =
                Tensor::from_data(&g, (0..numel(&g)).map(|_| rng.f32_unit() * 2.2 - 1.1).collect::<Vec<f32>>()).into();
            Case::new(name, vec![Some(tfm(rng, &sh)), Some(grid)])
        }
        "ConstantOfShape" => {
            let sh = rshape(rng, 3, 0);
            Case::new(name, vec![Some(ivec(&sh.iter().map(|&x| x as i64).collect::<Vec<_>>()))]).data(&[])
        }
        "ConvInteger" => {
            let (ci, co, h, w) = (1 + rng.usize_below(3), 1 + rng.usize_below(3), 3 + rng.usize_below(4), 3 + rng.usize_below(4));
            let k = 1 + rng.usize_below(2);
            Case::new(name, vec![Some(tu8(rng, &[1, ci, h, w])), Some(ti8(rng, &[co, ci, k, k]))])
        }
        "Upsample" => {
            let sh = rshape_nz(rng, 4, 4);
            let sc: Vec<f32> = vec![1.0, 1.0, *rng.pick(&[1.0f32, 2.0, 3.0]), *rng.pick(&[1.0f32, 2.0])];
            Case::new(name, vec![Some(tfm(rng, &sh)), Some(Tensor::from_data(&[4], sc).into())])
                .attr("mode", s(*rng.pick(&["nearest", "linear"])))
                .data(&[0])
        }
        "Scatter" => {
            let sh = rshape_nz(rng, 3, 1);
            let ax = axis_of(rng, sh.len());
            let axu = if ax < 0 { (ax + sh.len() as i64) as usize } else { ax as usize };
            let mut ish = sh.clone();
            ish[axu] = 1;
            let n = sh[axu] as i64;
            let x = tany(rng, &sh);
            let u = like(rng, &x, &ish);
            Case::new(name, vec![Some(x), Some(tism(rng, &ish, 0, n - 1)), Some(u)]).attr("axis", Attr::Int(ax))
        }
        "SimplifiedLayerNormalization" => {
            let sh = rshape_nz(rng, 4, 1);
            let nsh = vec![*sh.last().unwrap()];
            Case::new(name, vec![Some(tfm(rng, &sh)), Some(tfm(rng, &nsh))]).attr("axis", Attr::Int(-1))
        }
        "SkipLayerNormalization" => {
            let sh = rshape_nz(rng, 3, 3);
            let nsh = vec![*sh.last().unwrap()];
            let beta = rng.chance(1, 2).then(|| tfm(rng, &nsh));
            Case::new(name, vec![Some(tfm(rng, &sh)), Some(tfm(rng, &sh)), Some(tfm(rng, &nsh)), beta])
                .dom("com.microsoft")
                .attr("epsilon", Attr::Float(1e-5))
        }
        "GRU" | "LSTM" => {
            let gates = if name == "GRU" { 3 } else { 4 };
            let (seq, batch, inp, hid) = (1 + rng.usize_below(3), 1 + rng.usize_below(3), 1 + rng.usize_below(4), 1 + rng.usize_below(3));
            let dir = *rng.pick(&["forward", "reverse", "bidirectional"]);
            let nd = if dir == "bidirectional" { 2 } else { 1 };
            let small = |rng: &mut Rng, sh: &[usize]| -> Value {
                Tensor::from_data(sh, (0..numel(sh)).map(|_| (rng.f32_unit() - 0.5) * 1.5).collect::<Vec<f32>>()).into()
            };
            let mut v = vec![
                Some(small(rng, &[seq, batch, inp])),
                Some(small(rng, &[nd, gates * hid, inp])),
                Some(small(rng, &[nd, gates * hid, hid])),
                rng.chance(1, 2).then(|| small(rng, &[nd, 2 * gates * hid])),
                None,
                rng.chance(1, 2).then(|| small(rng, &[nd, batch, hid])),
            ];
            if name == "LSTM" {
                v.push(rng.chance(1, 2).then(|| small(rng, &[nd, batch, hid])));
            }
            Case::new(name, v)
                .attr("hidden_size", Attr::Int(hid as i64))
                .attr("direction", s(dir))
                .outs(if name == "GRU" { 2 } else { 3 })
        }
        "Attention" => {
            let (b, h, sq, skv, d, dv) = (
                1 + rng.usize_below(2),
                1 + rng.usize_below(3),
                1 + rng.usize_below(4),
                1 + rng.usize_below(4),
                1 + rng.usize_below(4),
                1 + rng.usize_below(4),
            );
            let past = rng.chance(1, 2).then(|| rng.usize_below(3));
            let total = skv + past.unwrap_or(0);
            let mask = rng.chance(1, 3).then(|| tfi(rng, &[sq, total], -2, 0));
            let mut v = vec![Some(tfm(rng, &[b, h, sq, d])), Some(tfm(rng, &[b, h, skv, d])), Some(tfm(rng, &[b, h, skv, dv])), mask];
            let mut n_out = 1;
            if let Some(p) = past {
                v.push(Some(tfm(rng, &[b, h, p, d])));
                v.push(Some(tfm(rng, &[b, h, p, dv])));
                n_out = 3;
            }
            let mut c = Case::new(name, v).outs(n_out);
            c.onnx = "Attention";
            if rng.chance(1, 3) {
                c = c.attr("is_causal", Attr::Int(1));
            }
            c
        }
        "ConvPad" | "ConvIntegerPad" => {
            // every combination the conv dispatch distinguishes: pointwise / general / grouped / depthwise,
            // independent pads on all four sides, strides, dilations; integer-valued data (exact results)
            let int = name == "ConvIntegerPad";
            let kind = if int { rng.below(2) } else { rng.below(4) }; // 0 general, 1 pointwise, 2 grouped, 3 depthwise
            let groups = match kind {
                2 => 2,
                3 => 1 + rng.usize_below(3),
                _ => 1,
            };
            let (cig, cog) = (1 + rng.usize_below(2), 1 + rng.usize_below(2));
            let (ci, co) = if kind == 3 { (groups, groups) } else { (cig * groups, cog * groups) };
            let (kh, kw) = if kind == 1 { (1, 1) } else { (1 + rng.usize_below(3), 1 + rng.usize_below(3)) };
            let (h, w) = (2 + rng.usize_below(5), 2 + rng.usize_below(5));
            let n = 1 + rng.usize_below(2);
            let pads: Vec<i64> = (0..4).map(|_| rng.range_i64(0, 2)).collect();
            let strides = vec![1 + rng.below(2) as i64, 1 + rng.below(2) as i64];
            let dil = if rng.chance(1, 3) { vec![1 + rng.below(2) as i64, 1 + rng.below(2) as i64] } else { vec![1, 1] };
            let wsh = vec![co, ci / groups, kh, kw];
            let mut v = if int {
                vec![Some(tu8(rng, &[n, ci, h, w])), Some(ti8(rng, &wsh))]
            } else {
                vec![Some(tfi(rng, &[n, ci, h, w], -3, 3)), Some(tfi(rng, &wsh, -2, 2))]
            };
            if !int && rng.chance(1, 2) {
                v.push(Some(tfi(rng, &[co], -3, 3)));
            }
            let mut c = Case::new(name, v)
                .onnx(if int { "ConvInteger" } else { "Conv" })
                .attr("pads", Attr::Ints(pads))
                .attr("strides", Attr::Ints(strides))
                .attr("dilations", Attr::Ints(dil));
            if groups != 1 || kind == 3 {
                c = c.attr("group", Attr::Int(if kind == 3 { ci as i64 } else { groups as i64 }));
            }
            c
        }
        "ConvTransposePad" => {
            let (ci, co) = (1 + rng.usize_below(3), 1 + rng.usize_below(3));
            let (kh, kw) = (1 + rng.usize_below(3), 1 + rng.usize_below(3));
            let (h, w) = (2 + rng.usize_below(4), 2 + rng.usize_below(4));
            let strides = vec![1 + rng.below(2) as i64, 1 + rng.below(2) as i64];
            let pads: Vec<i64> = vec![
                rng.range_i64(0, (kh as i64 - 1).min(1)),
                rng.range_i64(0, (kw as i64 - 1).min(1)),
                rng.range_i64(0, (kh as i64 - 1).min(1)),
                rng.range_i64(0, (kw as i64 - 1).min(1)),
            ];
            let mut v = vec![Some(tfi(rng, &[1, ci, h, w], -3, 3)), Some(tfi(rng, &[ci, co, kh, kw], -2, 2))];
            if rng.chance(1, 2) {
                v.push(Some(tfi(rng, &[co], -3, 3)));
            }
            Case::new(name, v).onnx("ConvTranspose").attr("pads", Attr::Ints(pads)).attr("strides", Attr::Ints(strides))
        }
        "MaxPoolPad" | "AveragePoolPad" => {
            let sh = vec![1 + rng.usize_below(2), 1 + rng.usize_below(5), 2 + rng.usize_below(5), 2 + rng.usize_below(5)];
            let k = vec![1 + rng.below(3) as i64, 1 + rng.below(3) as i64];
            let pads: Vec<i64> = vec![
                rng.range_i64(0, (k[0] - 1).min(2)),
                rng.range_i64(0, (k[1] - 1).min(2)),
                rng.range_i64(0, (k[0] - 1).min(2)),
                rng.range_i64(0, (k[1] - 1).min(2)),
            ];
            let mut c = Case::new(name, vec![Some(tfi(rng, &sh, -4, 4))])
                .onnx(if name == "MaxPoolPad" { "MaxPool" } else { "AveragePool" })
                .attr("kernel_shape", Attr::Ints(k))
                .attr("pads", Attr::Ints(pads))
                .attr("strides", Attr::Ints(vec![1 + rng.below(2) as i64, 1 + rng.below(2) as i64]));
            if name == "AveragePoolPad" && rng.chance(1, 2) {
                c = c.attr("count_include_pad", Attr::Int(1));
            }
            c
        }
        "MatMulWide" => {
            let (m, k, n) = wide_mkn(rng);
            let (mut a, mut b) = (vec![m, k], vec![k, n]);
            match rng.below(4) {
                0 => {
                    a.insert(0, 2);
                    b.insert(0, 2);
                }
                1 => a.insert(0, 2),
                _ => {}
            }
            Case::new(name, vec![Some(tfi(rng, &a, -3, 3)), Some(tfi(rng, &b, -3, 3))]).onnx("MatMul")
        }
        "GemmWide" => {
            let (m, k, n) = wide_mkn(rng);
            let ta = rng.chance(1, 2);
            let tb = rng.chance(1, 2);
            let a = if ta { vec![k, m] } else { vec![m, k] };
            let b = if tb { vec![n, k] } else { vec![k, n] };
            let mut v = vec![Some(tfi(rng, &a, -3, 3)), Some(tfi(rng, &b, -3, 3))];
            if rng.chance(1, 2) {
                v.push(Some(tfi(rng, &[n], -3, 3)));
            }
            Case::new(name, v)
                .onnx("Gemm")
                .attr("transA", Attr::Int(ta as i64))
                .attr("transB", Attr::Int(tb as i64))
        }
        "MatMulIntegerWide" => {
            let (m, k, n) = wide_mkn(rng);
            Case::new(name, vec![Some(tu8(rng, &[m, k])), Some(ti8(rng, &[k, n]))]).onnx("MatMulInteger")
        }
        "EinsumWide" => {
            let (m, k, n) = wide_mkn(rng);
            let (eq, a, b): (&str, Vec<usize>, Vec<usize>) = match rng.below(3) {
                0 => ("ij,jk->ik", vec![m, k], vec![k, n]),
                1 => ("bij,bjk->bik", vec![2, m, k], vec![2, k, n]),
                _ => ("ij,kj->ik", vec![m, k], vec![n, k]),
            };
            Case::new(name, vec![Some(tfi(rng, &a, -3, 3)), Some(tfi(rng, &b, -3, 3))])
                .onnx("Einsum")
                .attr("equation", s(eq))
        }
        "ConvWide" => {
            // convolution as a gemm whose N dimension is the number of output positions
            let (ci, co) = (1 + rng.usize_below(3), *rng.pick(&[2usize, 3, 5]));
            let (h, w) = (8 + rng.usize_below(4), 9 + rng.usize_below(6));
            let kk = if rng.chance(1, 2) { 1 } else { 3 };
            let mut v = vec![Some(tfi(rng, &[1, ci, h, w], -3, 3)), Some(tfi(rng, &[co, ci, kk, kk], -2, 2))];
            if rng.chance(1, 2) {
                v.push(Some(tfi(rng, &[co], -3, 3)));
            }
            Case::new(name, v).onnx("Conv")
        }
        "FusedSilu" => {
            let sh = rshape(rng, 4, 0);
            Case::new(name, vec![Some(tf(rng, &sh))])
        }
        "FusedAddSoftmax" => {
            let (a, b) = bpair(rng);
            Case::new(name, vec![Some(tfm(rng, &a)), Some(tfm(rng, &b))])
        }
        _ => return None,
    };
    Some(c)
}

/// Operators that only exist as optimizer fusions: load a two-node model with graph optimisation
/// enabled and pick the fused operator out of the optimised graph.
fn load_fused(c: &Case) -> Result<Op, String> {
    let (nodes, ins, want): (Vec<Node>, Vec<&str>, &str) = match c.name {
        "FusedSilu" => (
            vec![Node::new("Sigmoid", "sig", &["x"], &["s"]), Node::new("Mul", "mul", &["x", "s"], &["y"])],
            vec!["x"],
            "Silu",
        ),
        "FusedAddSoftmax" => (
            vec![
                Node::new("Add", "add", &["a", "b"], &["s"]),
                Node::new("Softmax", "sm", &["s"], &["y"]).attr("axis", Attr::Int(-1)),
            ],
            vec!["a", "b"],
            "AddSoftmax",
        ),
        _ => return Err("not a fused entry".into()),
    };
    let g = Graph {
        nodes,
        inputs: ins.iter().map(|n| ValueInfo::new(n, dt::FLOAT, None)).collect(),
        outputs: vec![ValueInfo::new("y", dt::FLOAT, None)],
        ..Default::default()
    };
    let model = ModelOptions::with_all_ops().load(g.into_model_bytes(21)).map_err(|e| format!("load: {e}"))?;
    for (_, node) in model.verif_graph().iter() {
        if let Some(opn) = node.as_operator() {
            if opn.operator().name() == want {
                return Ok(opn.clone_operator());
            }
        }
    }
    Err(format!("optimizer did not produce {want}"))
}

// ---------------------------------------------------------------------------------------------
// Owned variants of a tensor with the same logical content.

#[derive(Copy, Clone, Debug, PartialEq)]
pub enum Var {
    Contig,
    VecCap,
    Spare,
    Permuted,
    Strided,
    /// Storage holds the last two axes swapped; the view swaps them back (column stride ≠ 1).
    Transposed,
    /// Every 2nd column of a twice as wide storage (last-axis stride 2).
    ColStep,
    /// Every 2nd row of a twice as tall storage (second-to-last-axis stride doubled).
    RowStep,
}
pub const VARS: [Var; 5] = [Var::Contig, Var::VecCap, Var::Spare, Var::Permuted, Var::Strided];

pub fn variant_t<T: Copy + Default>(t: &Tensor<T>, var: Var, rng: &mut Rng) -> Tensor<T> {
    let shape = t.shape().to_vec();
    match var {
        Var::Contig => t.to_tensor(),
        Var::VecCap => {
            let mut v: Vec<T> = Vec::with_capacity(t.len() * 2 + 16);
            v.extend(t.iter().copied());
            Tensor::from_data(&shape, v)
        }
        Var::Spare => {
            if shape.is_empty() {
                return t.to_tensor();
            }
            let ax = rng.usize_below(shape.len());
            let mut big = shape.clone();
            big[ax] += 1 + rng.usize_below(3);
            let mut out = Tensor::<T>::with_capacity(&big, ax);
            out.append(ax, &t.view()).expect("append");
            out
        }
        Var::Permuted => {
            let n = shape.len();
            let mut perm: Vec<usize> = (0..n).collect();
            rng.shuffle(&mut perm);
            let mut inv = vec![0usize; n];
            for (i, &p) in perm.iter().enumerate() {
                inv[p] = i;
            }
            let mut p = t.permuted(&perm).to_tensor();
            p.permute(&inv);
            p
        }
        Var::Transposed => {
            let n = shape.len();
            if n < 2 {
                return t.to_tensor();
            }
            let mut perm: Vec<usize> = (0..n).collect();
            perm.swap(n - 1, n - 2);
            let mut p = t.permuted(&perm).to_tensor();
            p.permute(&perm);
            p
        }
        Var::ColStep | Var::RowStep => {
            let n = shape.len();
            if n == 0 || (var == Var::RowStep && n < 2) {
                return t.to_tensor();
            }
            let ax = if var == Var::ColStep { n - 1 } else { n - 2 };
            // contiguous strides of the storage shape (axis `ax` doubled), logical stride on `ax` doubled
            let mut big = shape.clone();
            big[ax] *= 2;
            let mut strides = vec![0usize; n];
            let mut acc = 1usize;
            for d in (0..n).rev() {
                strides[d] = acc;
                acc *= big[d].max(1);
            }
            strides[ax] *= 2;
            let len = if shape.iter().any(|&s| s == 0) {
                0
            } else {
                shape.iter().zip(&strides).map(|(&s, &st)| (s - 1) * st).sum::<usize>() + 1
            };
            let mut data = vec![T::default(); len + 1];
            let src: Vec<T> = t.iter().copied().collect();
            let mut idx = vec![0usize; n];
            for x in src {
                let off: usize = idx.iter().zip(&strides).map(|(&i, &s)| i * s).sum();
                data[off] = x;
                for d in (0..n).rev() {
                    idx[d] += 1;
                    if idx[d] < shape[d] {
                        break;
                    }
                    idx[d] = 0;
                }
            }
            Tensor::from_data_with_strides(&shape, data, &strides).expect("stepped")
        }
        Var::Strided => {
            // contiguous strides scaled by 2 (gaps between all elements)
            let n = shape.len();
            let mut strides = vec![0usize; n];
            let mut acc = 2usize;
            for d in (0..n).rev() {
                strides[d] = acc;
                acc *= shape[d].max(1);
            }
            let len = if shape.iter().any(|&s| s == 0) {
                0
            } else {
                shape.iter().zip(&strides).map(|(&s, &st)| (s - 1) * st).sum::<usize>() + 1
            };
            let mut data = vec![T::default(); len + 3];
            let src: Vec<T> = t.iter().copied().collect();
            let mut idx = vec![0usize; n];
            for x in src {
                let off: usize = idx.iter().zip(&strides).map(|(&i, &s)| i * s).sum();
                data[off] = x;
                for d in (0..n).rev() {
                    idx[d] += 1;
                    if idx[d] < shape[d] {
                        break;
                    }
                    idx[d] = 0;
                }
            }
            Tensor::from_data_with_strides(&shape, data, &strides).expect("strided")
        }
    }
}

pub fn variant(v: &Value, var: Var, rng: &mut Rng) -> Value {
    match v {
        Value::FloatTensor(t) => variant_t(t, var, rng).into(),
        Value::Int32Tensor(t) => variant_t(t, var, rng).into(),
        Value::Int8Tensor(t) => variant_t(t, var, rng).into(),
        Value::UInt8Tensor(t) => variant_t(t, var, rng).into(),
        other => other.clone(),
    }
}

