//! C01 templates: pattern-shaped ONNX graphs for every fusion in `src/optimize/fusions.rs`,
//! guard-exercising wrappers (reused / graph-output / captured intermediates) and random graphs.
#![allow(dead_code)]
use crate::onnx_enc::{dt, Attr, Dim, Graph, Node, Tensor, ValueInfo};
use hcommon::Rng;

#[derive(Clone, Copy, Debug, PartialEq)]
pub enum VC {
    Normal,
    Pos,
    Mask,
    /// values from {+0.0, -0.0, 1, -1}
    SignedZeros,
}

#[derive(Clone, Debug)]
pub struct InSpec {
    pub name: String,
    pub dtype: i32,
    pub dims: Vec<usize>,
    pub class: VC,
}

#[derive(Clone, Debug)]
pub struct Tm {
    pub name: String,
    pub family: &'static str,
    pub g: Graph,
    pub ins: Vec<InSpec>,
    pub opset: i64,
    /// op outputs in creation order (used by the guard wrappers)
    pub vals: Vec<String>,
}

/// Declared dimension: fixed, or symbolic with the concrete size used at run time.
#[derive(Clone, Debug)]
pub enum D {
    F(usize),
    S(&'static str, usize),
}

pub fn fx(d: &[usize]) -> Vec<D> {
    d.iter().map(|&x| D::F(x)).collect()
}

thread_local! {
    /// When set, `B::sc` (the "scalar" pattern constants) produces a multi-element constant of this
    /// shape instead: uniform (every element = the pattern value) or non-uniform (control).
    static CONST_OVERRIDE: std::cell::RefCell<Option<(Vec<i64>, bool)>> = std::cell::RefCell::new(None);
}

thread_local! {
    /// When set, the k-th call of `B::sc` in a template uses rank `ranks[k]` (others keep theirs):
    /// isolates ONE pattern constant of higher rank (e.g. only the chain-internal `0.5` of Gelu).
    static SC_RANKS: std::cell::RefCell<Option<(usize, usize, usize)>> = std::cell::RefCell::new(None);
}

/// `Some((k, rank))`: the k-th `sc` constant of the next template gets `rank`.
pub fn set_sc_rank(o: Option<(usize, usize)>) {
    SC_RANKS.with(|c| *c.borrow_mut() = o.map(|(k, r)| (k, r, 0)));
}

pub fn set_const_override(o: Option<(Vec<i64>, bool)>) {
    CONST_OVERRIDE.with(|c| *c.borrow_mut() = o);
}

fn const_override() -> Option<(Vec<i64>, bool)> {
    CONST_OVERRIDE.with(|c| c.borrow().clone())
}

pub struct B {
    pub g: Graph,
    pub ins: Vec<InSpec>,
    pub vals: Vec<String>,
    n: usize,
}

impl B {
    pub fn new() -> B {
        B { g: Graph::default(), ins: vec![], vals: vec![], n: 0 }
    }
    fn fresh(&mut self, p: &str) -> String {
        self.n += 1;
        format!("{p}{}", self.n)
    }
    /// Graph input with declared shape `dims` (`declare=false`: dtype only, no shape).
    pub fn inp(&mut self, name: &str, dtype: i32, dims: &[D], declare: bool, class: VC) -> String {
        let shape = if declare {
            Some(
                dims.iter()
                    .map(|d| match d {
                        D::F(n) => Dim::Fixed(*n as i64),
                        D::S(s, _) => Dim::Sym(s.to_string()),
                    })
                    .collect(),
            )
        } else {
            None
        };
        self.g.inputs.push(ValueInfo::new(name, dtype, shape));
        self.ins.push(InSpec {
            name: name.into(),
            dtype,
            dims: dims.iter().map(|d| match d { D::F(n) => *n, D::S(_, n) => *n }).collect(),
            class,
        });
        name.to_string()
    }
    pub fn x(&mut self, name: &str, dims: &[usize]) -> String {
        self.inp(name, dt::FLOAT, &fx(dims), true, VC::Normal)
    }
    pub fn cf(&mut self, dims: &[i64], vals: &[f32]) -> String {
        let n = self.fresh("c");
        self.g.initializers.push(Tensor::f32s(&n, dims, vals));
        n
    }
    /// single-element f32 constant of rank `rank`
    pub fn sc(&mut self, rank: usize, v: f32) -> String {
        let hit = SC_RANKS.with(|c| {
            let mut b = c.borrow_mut();
            match b.as_mut() {
                Some((k, r, n)) => {
                    let h = if *n == *k { Some(*r) } else { None };
                    *n += 1;
                    h
                }
                None => None,
            }
        });
        if let Some(r) = hit {
            return self.cf(&vec![1i64; r], &[v]);
        }
        if let Some((dims, uniform)) = const_override() {
            let n: i64 = dims.iter().product();
            let vals: Vec<f32> = (0..n).map(|i| if uniform || i == 0 { v } else { v + 0.5 * i as f32 }).collect();
            return self.cf(&dims, &vals);
        }
        self.cf(&vec![1i64; rank], &[v])
    }
    pub fn ci32(&mut self, dims: &[i64], vals: &[i32]) -> String {
        let n = self.fresh("c");
        self.g.initializers.push(Tensor::i32s(&n, dims, vals));
        n
    }
    pub fn ci(&mut self, dims: &[i64], vals: &[i64]) -> String {
        let n = self.fresh("c");
        self.g.initializers.push(Tensor::i64s(&n, dims, vals));
        n
    }
    pub fn cu8(&mut self, dims: &[i64], vals: &[u8]) -> String {
        let n = self.fresh("c");
        self.g.initializers.push(Tensor::u8s(&n, dims, vals));
        n
    }
    pub fn ci8(&mut self, dims: &[i64], vals: &[i8]) -> String {
        let n = self.fresh("c");
        self.g.initializers.push(Tensor::i8s(&n, dims, vals));
        n
    }
    pub fn opn(&mut self, ty: &str, ins: &[&str], attrs: Vec<(&str, Attr)>, nout: usize) -> Vec<String> {
        let outs: Vec<String> = (0..nout).map(|_| self.fresh("v")).collect();
        let nm = self.fresh("n");
        let mut node = Node::new(ty, &nm, ins, &outs.iter().map(|s| s.as_str()).collect::<Vec<_>>());
        for (k, a) in attrs {
            node = node.attr(k, a);
        }
        self.g.nodes.push(node);
        self.vals.extend(outs.iter().cloned());
        outs
    }
    pub fn opa(&mut self, ty: &str, ins: &[&str], attrs: Vec<(&str, Attr)>) -> String {
        self.opn(ty, ins, attrs, 1).remove(0)
    }
    pub fn op(&mut self, ty: &str, ins: &[&str]) -> String {
        self.opa(ty, ins, vec![])
    }
    /// commutative helper: `swap` exchanges the operands
    pub fn bin(&mut self, ty: &str, a: &str, b: &str, swap: bool) -> String {
        if swap {
            self.op(ty, &[b, a])
        } else {
            self.op(ty, &[a, b])
        }
    }
    pub fn out(&mut self, name: &str, dtype: i32) {
        self.g.outputs.push(ValueInfo::new(name, dtype, None));
    }
    pub fn fin(self, name: String, family: &'static str) -> Tm {
        let name = match SC_RANKS.with(|c| *c.borrow()) {
            Some((k, r, _)) => format!("{name}/only-c{k}-rank{r}"),
            None => name,
        };
        let name = match const_override() {
            Some((dims, uniform)) => format!("{name}/multiconst{dims:?}{}", if uniform { "uniform" } else { "varied" }).replace(' ', ""),
            None => name,
        };
        Tm { name, family, g: self.g, ins: self.ins, opset: 21, vals: self.vals }
    }
}

// ------------------------------------------------------------------ guard wrappers

/// `kind`: 0 = intermediate `v` is also a graph output, 1 = consumed by an extra Relu whose result is a
/// graph output, 2 = captured by the then-branch of an `If`.
pub fn wrap_guard(t: &Tm, v: &str, kind: usize) -> Tm {
    let mut t2 = t.clone();
    match kind {
        0 => {
            t2.g.outputs.push(ValueInfo::new(v, dt::FLOAT, None));
            t2.name = format!("{}+out:{v}", t.name);
        }
        1 => {
            let o = format!("{v}_relu");
            t2.g.nodes.push(Node::new("Abs", &format!("{v}_abs_n"), &[v], &[&o]));
            t2.g.outputs.push(ValueInfo::new(&o, dt::FLOAT, None));
            t2.name = format!("{}+use:{v}", t.name);
        }
        _ => {
            let then_g = Graph {
                name: "then".into(),
                nodes: vec![Node::new("Neg", "then_neg", &[v], &["then_out"])],
                outputs: vec![ValueInfo::new("then_out", dt::FLOAT, None)],
                ..Default::default()
            };
            let else_g = Graph {
                name: "else".into(),
                nodes: vec![Node::new("Identity", "else_id", &["else_c"], &["else_out"])],
                initializers: vec![Tensor::f32s("else_c", &[1], &[7.0])],
                outputs: vec![ValueInfo::new("else_out", dt::FLOAT, None)],
                ..Default::default()
            };
            t2.g.inputs.push(ValueInfo::new("cond", dt::BOOL, Some(vec![])));
            t2.ins.push(InSpec { name: "cond".into(), dtype: dt::BOOL, dims: vec![], class: VC::Normal });
            t2.g.nodes.push(
                Node::new("If", "if_n", &["cond"], &["if_out"])
                    .attr("then_branch", Attr::Graph(then_g))
                    .attr("else_branch", Attr::Graph(else_g)),
            );
            t2.g.outputs.push(ValueInfo::new("if_out", dt::FLOAT, None));
            t2.name = format!("{}+cap:{v}", t.name);
        }
    }
    t2
}

// ------------------------------------------------------------------ fusion templates

const SQRT2: f32 = 1.414_213_5;

/// IdentityFusion: op 0..5 = Add0 Sub0 Mul1 Div1 Identity; `xs` input shape, `cr` constant rank.
pub fn t_identity(op: usize, xs: &[usize], cr: usize, swap: bool, declare: bool, xdt: i32, cval: Option<f32>, tail: bool) -> Tm {
    let mut b = B::new();
    let x = b.inp("x", xdt, &fx(xs), declare, VC::Normal);
    let (ty, idv) = [("Add", 0.0), ("Sub", 0.0), ("Mul", 1.0), ("Div", 1.0), ("Identity", 0.0)][op];
    let cv = cval.unwrap_or(idv);
    let y = if ty == "Identity" {
        b.op("Identity", &[&x])
    } else {
        let c = if xdt == dt::FLOAT { b.sc(cr, cv) } else { b.ci32(&vec![1i64; cr], &[cv as i32]) };
        b.bin(ty, &x, &c, swap)
    };
    let y = if tail { b.op("Neg", &[&y]) } else { y };
    b.out(&y, xdt);
    b.fin(
        format!("identity/{ty}/x{:?}/c{cr}/{}{}{}{}{}", xs, if swap { "swap" } else { "fwd" }, if declare { "" } else { "/noshape" }, if xdt == dt::FLOAT { "" } else { "/i32" }, if cval.is_some() { "/near" } else { "" }, if tail { "/tail" } else { "" }),
        "Identity",
    )
}

pub fn t_reciprocal(xs: &[usize], cr: usize, cval: f32, xdt: i32) -> Tm {
    let mut b = B::new();
    let x = b.inp("x", xdt, &fx(xs), true, VC::Pos);
    let c = if xdt == dt::FLOAT { b.sc(cr, cval) } else { b.ci32(&vec![1i64; cr], &[cval as i32]) };
    let y = b.op("Div", &[&c, &x]);
    b.out(&y, xdt);
    b.fin(format!("reciprocal/x{xs:?}/c{cr}/{cval}{}", if xdt == dt::FLOAT { "" } else { "/i32" }), "Reciprocal")
}

/// ReduceMean with `axes` as an input.
pub fn t_reducemean_axes(xs: &[usize], axes: &[i64], keepdims: i64, noop: i64, axes_const: bool) -> Tm {
    let mut b = B::new();
    let x = b.x("x", xs);
    let ax = if axes_const {
        b.ci(&[axes.len() as i64], axes)
    } else {
        let n = b.inp("axes", dt::INT64, &fx(&[axes.len()]), true, VC::Normal);
        // concrete run value must be the axes: use an initializer-free trick -> constant via class
        n
    };
    let y = b.opa("ReduceMean", &[&x, &ax], vec![("keepdims", Attr::Int(keepdims)), ("noop_with_empty_axes", Attr::Int(noop))]);
    b.out(&y, dt::FLOAT);
    b.fin(format!("reducemean/x{xs:?}/axes{axes:?}/k{keepdims}/noop{noop}/{}", if axes_const { "const" } else { "dyn" }), "ReduceMeanAxes")
}

pub fn t_silu(xs: &[usize], swap: bool, other: bool) -> Tm {
    let mut b = B::new();
    let x = b.x("x", xs);
    let s_in = if other { b.x("y", xs) } else { x.clone() };
    let s = b.op("Sigmoid", &[&s_in]);
    let y = b.bin("Mul", &x, &s, swap);
    b.out(&y, dt::FLOAT);
    b.fin(format!("silu/x{xs:?}/{}{}", if swap { "swap" } else { "fwd" }, if other { "/othersym" } else { "" }), "Silu")
}

pub fn t_swish(xs: &[usize], ar: usize, alpha: f32, swap1: bool, swap2: bool) -> Tm {
    let mut b = B::new();
    let x = b.x("x", xs);
    let a = b.sc(ar, alpha);
    let ax = b.bin("Mul", &a, &x, swap1);
    let s = b.op("Sigmoid", &[&ax]);
    let y = b.bin("Mul", &x, &s, swap2);
    b.out(&y, dt::FLOAT);
    b.fin(format!("swish/x{xs:?}/alpha{alpha}r{ar}/{}{}", swap1 as u8, swap2 as u8), "Swish")
}

/// Gelu: `form` 0: ((x*(erf+1))*0.5)  1: x*((erf+1)*0.5)  2: (x*0.5)*(erf+1)  ; `mulform`: x*(1/sqrt2) instead of x/sqrt2
pub fn t_gelu(xs: &[usize], form: usize, mulform: bool, cr: usize, swap: bool) -> Tm {
    let mut b = B::new();
    let x = b.x("x", xs);
    let xs_ = if mulform {
        let c = b.sc(cr, 1.0 / SQRT2);
        b.bin("Mul", &x, &c, swap)
    } else {
        let c = b.sc(cr, SQRT2);
        b.op("Div", &[&x, &c])
    };
    let e = b.op("Erf", &[&xs_]);
    let one = b.sc(cr, 1.0);
    let e1 = b.bin("Add", &e, &one, swap);
    let half = b.sc(cr, 0.5);
    let y = match form {
        0 => {
            let m = b.bin("Mul", &x, &e1, swap);
            b.bin("Mul", &m, &half, swap)
        }
        1 => {
            let m = b.bin("Mul", &e1, &half, swap);
            b.bin("Mul", &x, &m, swap)
        }
        _ => {
            let m = b.bin("Mul", &x, &half, swap);
            b.bin("Mul", &m, &e1, swap)
        }
    };
    b.out(&y, dt::FLOAT);
    b.fin(format!("gelu/x{xs:?}/form{form}/{}c{cr}/{}", if mulform { "mul" } else { "div" }, swap as u8), "Gelu")
}

pub fn t_approx_gelu(xs: &[usize], cr: usize, swap: bool) -> Tm {
    let mut b = B::new();
    let x = b.x("x", xs);
    let three = b.sc(cr, 3.0);
    let p = b.op("Pow", &[&x, &three]);
    let k = b.sc(cr, 0.044715);
    let pk = b.bin("Mul", &p, &k, swap);
    let inner = b.bin("Add", &x, &pk, swap);
    let s2pi = b.sc(cr, (2.0f32 / std::f32::consts::PI).sqrt());
    let sc = b.bin("Mul", &s2pi, &inner, swap);
    let th = b.op("Tanh", &[&sc]);
    let one = b.sc(cr, 1.0);
    let t1 = b.bin("Add", &one, &th, swap);
    let half = b.sc(cr, 0.5);
    let xh = b.bin("Mul", &x, &half, swap);
    let y = b.bin("Mul", &xh, &t1, swap);
    b.out(&y, dt::FLOAT);
    b.fin(format!("approxgelu/x{xs:?}/c{cr}/{}", swap as u8), "ApproxGelu")
}

fn reduce_mean(b: &mut B, x: &str, axis: i64, keepdims: i64, attr_form: bool) -> String {
    if attr_form {
        b.opa("ReduceMean", &[x], vec![("axes", Attr::Ints(vec![axis])), ("keepdims", Attr::Int(keepdims))])
    } else {
        let ax = b.ci(&[1], &[axis]);
        b.opa("ReduceMean", &[x, &ax], vec![("keepdims", Attr::Int(keepdims))])
    }
}

/// LayerNorm pattern. `axis` for both ReduceMeans, `scale_shape`, optional bias, eps rank.
pub fn t_layernorm(xs: &[usize], axis: i64, axis2: i64, keepdims: i64, attr_form: bool, scale_shape: &[i64], bias: bool, er: usize, declare: bool) -> Tm {
    let mut b = B::new();
    let x = b.inp("x", dt::FLOAT, &fx(xs), declare, VC::Normal);
    let m = reduce_mean(&mut b, &x, axis, keepdims, attr_form);
    let c = b.op("Sub", &[&x, &m]);
    let two = b.sc(0, 2.0);
    let p = b.op("Pow", &[&c, &two]);
    let v = reduce_mean(&mut b, &p, axis2, keepdims, attr_form);
    let eps = b.sc(er, 1e-5);
    let ve = b.op("Add", &[&eps, &v]);
    let sd = b.op("Sqrt", &[&ve]);
    let nrm = b.op("Div", &[&c, &sd]);
    let n: i64 = scale_shape.iter().product();
    let sv: Vec<f32> = (0..n).map(|i| 0.5 + 0.25 * i as f32).collect();
    let s = b.cf(scale_shape, &sv);
    let mut y = b.op("Mul", &[&nrm, &s]);
    if bias {
        let bv: Vec<f32> = (0..n).map(|i| 0.1 * i as f32 - 0.2).collect();
        let bb = b.cf(scale_shape, &bv);
        y = b.op("Add", &[&y, &bb]);
    }
    b.out(&y, dt::FLOAT);
    b.fin(
        format!("layernorm/x{xs:?}/ax{axis},{axis2}/k{keepdims}/{}/scale{scale_shape:?}/{}eps{er}{}", if attr_form { "attr" } else { "input" }, if bias { "bias/" } else { "" }, if declare { "" } else { "/noshape" }),
        "LayerNorm",
    )
}

pub fn t_rmsnorm(xs: &[usize], axis: i64, keepdims: i64, attr_form: bool, scale_shape: &[i64], er: usize) -> Tm {
    let mut b = B::new();
    let x = b.x("x", xs);
    let two = b.sc(0, 2.0);
    let p = b.op("Pow", &[&x, &two]);
    let v = reduce_mean(&mut b, &p, axis, keepdims, attr_form);
    let eps = b.sc(er, 1e-5);
    let ve = b.op("Add", &[&eps, &v]);
    let sd = b.op("Sqrt", &[&ve]);
    let r = b.op("Reciprocal", &[&sd]);
    let xn = b.op("Mul", &[&x, &r]);
    let n: i64 = scale_shape.iter().product();
    let sv: Vec<f32> = (0..n).map(|i| 0.5 + 0.25 * i as f32).collect();
    let s = b.cf(scale_shape, &sv);
    let y = b.op("Mul", &[&xn, &s]);
    b.out(&y, dt::FLOAT);
    b.fin(format!("rmsnorm/x{xs:?}/ax{axis}/k{keepdims}/{}/scale{scale_shape:?}/eps{er}", if attr_form { "attr" } else { "input" }), "RMSNorm")
}

pub fn t_matmul_add(a: &[usize], bsh: &[usize], bias: &[i64], swap: bool, bias_const: bool, xdt: i32) -> Tm {
    let mut b = B::new();
    let x = b.inp("a", xdt, &fx(a), true, VC::Normal);
    let w = b.inp("b", xdt, &fx(bsh), true, VC::Normal);
    let mm = b.op("MatMul", &[&x, &w]);
    let n: i64 = bias.iter().product();
    let bi = if !bias_const {
        b.inp("bias", xdt, &fx(&bias.iter().map(|&d| d as usize).collect::<Vec<_>>()), true, VC::Normal)
    } else if xdt == dt::FLOAT {
        b.cf(bias, &(0..n).map(|i| i as f32 - 1.0).collect::<Vec<_>>())
    } else {
        b.ci32(bias, &(0..n).map(|i| i as i32 - 1).collect::<Vec<_>>())
    };
    let y = b.bin("Add", &mm, &bi, swap);
    b.out(&y, xdt);
    b.fin(format!("matmuladd/a{a:?}/b{bsh:?}/bias{bias:?}/{}{}{}", swap as u8, if bias_const { "" } else { "/dynbias" }, if xdt == dt::FLOAT { "" } else { "/i32" }), "MatMulAdd")
}

/// MatMulScale: `ls`, `rs`, `os`: None = no scaling; Some((is_div, value, rank, swap)).
pub fn t_matmul_scale(a: &[usize], bsh: &[usize], ls: Option<(bool, f32, usize, bool)>, rs: Option<(bool, f32, usize, bool)>, os: Option<(bool, f32, usize, bool)>) -> Tm {
    let mut b = B::new();
    let x = b.x("a", a);
    let w = b.x("b", bsh);
    fn scale(b: &mut B, v: &str, s: Option<(bool, f32, usize, bool)>) -> String {
        match s {
            None => v.to_string(),
            Some((div, val, rank, swap)) => {
                let c = b.sc(rank, val);
                if div {
                    if swap { b.op("Div", &[&c, v]) } else { b.op("Div", &[v, &c]) }
                } else {
                    b.bin("Mul", v, &c, swap)
                }
            }
        }
    }
    let xl = scale(&mut b, &x, ls);
    let wr = scale(&mut b, &w, rs);
    let mm = b.op("MatMul", &[&xl, &wr]);
    let y = scale(&mut b, &mm, os);
    b.out(&y, dt::FLOAT);
    b.fin(format!("matmulscale/a{a:?}/b{bsh:?}/l{ls:?}/r{rs:?}/o{os:?}").replace(' ', ""), "MatMulScale")
}

pub fn t_matmul_int(scale_shape: &[i64], cast_to: i32, swap: bool, scale_const: bool) -> Tm {
    let mut b = B::new();
    let a = b.inp("a", dt::UINT8, &fx(&[2, 4]), true, VC::Normal);
    let w = b.ci8(&[4, 3], &[1, -2, 3, 4, 5, -6, 7, 8, -9, 10, 11, 12]);
    let az = b.cu8(&[], &[3]);
    let wz = b.ci8(&[], &[1]);
    let mm = b.op("MatMulInteger", &[&a, &w, &az, &wz]);
    let c = b.opa("Cast", &[&mm], vec![("to", Attr::Int(cast_to as i64))]);
    let n: i64 = scale_shape.iter().product();
    let sdt = if cast_to == dt::FLOAT { dt::FLOAT } else { dt::INT32 };
    let s = if !scale_const {
        b.inp("scale", sdt, &fx(&scale_shape.iter().map(|&d| d as usize).collect::<Vec<_>>()), true, VC::Pos)
    } else if sdt == dt::FLOAT {
        b.cf(scale_shape, &(0..n).map(|i| 0.5 + i as f32).collect::<Vec<_>>())
    } else {
        b.ci32(scale_shape, &(0..n).map(|i| 2 + i as i32).collect::<Vec<_>>())
    };
    let y = b.bin("Mul", &c, &s, swap);
    b.out(&y, sdt);
    b.fin(format!("matmulint/scale{scale_shape:?}/to{cast_to}/{}{}", swap as u8, if scale_const { "" } else { "/dyn" }), "MatMulIntegerToFloat")
}

pub fn t_conv_add(rank: usize, bias_shape: &[i64], swap: bool, conv_bias: bool, oc: usize) -> Tm {
    let mut b = B::new();
    let xs: Vec<usize> = if rank == 4 { vec![1, 2, 4, 4] } else { vec![1, 2, 5] };
    let x = b.x("x", &xs);
    let wshape: Vec<i64> = if rank == 4 { vec![oc as i64, 2, 2, 2] } else { vec![oc as i64, 2, 2] };
    let wn: i64 = wshape.iter().product();
    let w = b.cf(&wshape, &(0..wn).map(|i| 0.1 * (i % 7) as f32 - 0.3).collect::<Vec<_>>());
    let cv = if conv_bias {
        let cb = b.cf(&[oc as i64], &(0..oc).map(|i| i as f32).collect::<Vec<_>>());
        b.op("Conv", &[&x, &w, &cb])
    } else {
        b.op("Conv", &[&x, &w])
    };
    let n: i64 = bias_shape.iter().product();
    let bi = b.cf(bias_shape, &(0..n).map(|i| 1.0 + i as f32).collect::<Vec<_>>());
    let y = b.bin("Add", &cv, &bi, swap);
    b.out(&y, dt::FLOAT);
    b.fin(format!("convadd/r{rank}/oc{oc}/bias{bias_shape:?}/{}{}", swap as u8, if conv_bias { "/hasbias" } else { "" }), "ConvAdd")
}

pub fn t_conv_int(scale_shape: &[i64], swap: bool) -> Tm {
    let mut b = B::new();
    let x = b.inp("x", dt::UINT8, &fx(&[1, 2, 4, 4]), true, VC::Normal);
    let w = b.cu8(&[3, 2, 2, 2], &(0..24).map(|i| (i * 7 % 11) as u8).collect::<Vec<_>>());
    let xz = b.cu8(&[], &[2]);
    let wz = b.cu8(&[], &[5]);
    let cv = b.op("ConvInteger", &[&x, &w, &xz, &wz]);
    let c = b.opa("Cast", &[&cv], vec![("to", Attr::Int(dt::FLOAT as i64))]);
    let n: i64 = scale_shape.iter().product();
    let s = b.cf(scale_shape, &(0..n).map(|i| 0.5 + i as f32).collect::<Vec<_>>());
    let y = b.bin("Mul", &c, &s, swap);
    b.out(&y, dt::FLOAT);
    b.fin(format!("convint/scale{scale_shape:?}/{}", swap as u8), "ConvIntegerToFloat")
}

pub fn t_safe_softmax(xs: &[usize], zr: usize, axis1: i64, axis2: Option<i64>, zval: f32) -> Tm {
    let mut b = B::new();
    let x = b.inp("x", dt::FLOAT, &fx(xs), true, VC::Mask);
    let y1 = b.opa("Softmax", &[&x], vec![("axis", Attr::Int(axis1))]);
    let y2 = match axis2 {
        None => y1.clone(),
        Some(a) => b.opa("Softmax", &[&x], vec![("axis", Attr::Int(a))]),
    };
    let nan = b.op("IsNaN", &[&y1]);
    let z = b.sc(zr, zval);
    let y = b.op("Where", &[&nan, &z, &y2]);
    b.out(&y, dt::FLOAT);
    b.fin(format!("safesoftmax/x{xs:?}/z{zr}/{zval}/ax{axis1}/{axis2:?}"), "SafeSoftmax")
}

pub fn t_add_softmax(qs: &[usize], ms: &[usize], axis: i64, swap: bool, declare: bool) -> Tm {
    let mut b = B::new();
    let q = b.inp("qk", dt::FLOAT, &fx(qs), declare, VC::Normal);
    let m = b.inp("mask", dt::FLOAT, &fx(ms), declare, VC::Mask);
    let a = b.bin("Add", &q, &m, swap);
    let y = b.opa("Softmax", &[&a], vec![("axis", Attr::Int(axis))]);
    b.out(&y, dt::FLOAT);
    b.fin(format!("addsoftmax/q{qs:?}/m{ms:?}/ax{axis}/{}{}", swap as u8, if declare { "" } else { "/noshape" }), "AddSoftmax")
}

/// Unsqueeze -> Expand -> Reshape. `tile`: the new axis is inserted BEFORE the repeated axis (tiling)
/// instead of after it (interleaving).
pub fn t_repeat_interleave(xs: &[usize], axis: usize, repeats: usize, tile: bool, xdt: i32, sym_batch: bool) -> Tm {
    let mut b = B::new();
    let mut dims: Vec<D> = fx(xs);
    if sym_batch {
        dims[0] = D::S("batch", xs[0]);
    }
    let x = b.inp("x", xdt, &dims, true, VC::Normal);
    let ins_at = if tile { axis } else { axis + 1 };
    let ax = b.ci(&[1], &[ins_at as i64]);
    let u = b.op("Unsqueeze", &[&x, &ax]);
    let mut es: Vec<i64> = xs.iter().map(|&d| d as i64).collect();
    es.insert(ins_at, repeats as i64);
    let mut rs: Vec<i64> = xs.iter().map(|&d| d as i64).collect();
    rs[axis] *= repeats as i64;
    if sym_batch {
        // batch-agnostic shapes: 1 broadcasts in Expand, 0 copies the dim in Reshape
        es[0] = 1;
        rs[0] = 0;
    }
    let esc = b.ci(&[es.len() as i64], &es);
    let e = b.op("Expand", &[&u, &esc]);
    let rsc = b.ci(&[rs.len() as i64], &rs);
    let y = b.op("Reshape", &[&e, &rsc]);
    b.out(&y, xdt);
    b.fin(format!("repeatinterleave/x{xs:?}/ax{axis}/r{repeats}/{}{}{}", if tile { "tile" } else { "interleave" }, if xdt == dt::FLOAT { "" } else { "/i32" }, if sym_batch { "/sym" } else { "" }), "RepeatInterleave")
}

/// Grouped-query attention matmul: MatMul(Q, RepeatInterleave(K)) (`qk`: with transpose + scale).
pub fn t_gqa(qk: bool, rep_axis: usize, perm: &[i64]) -> Tm {
    t_gqa_dims(qk, rep_axis, perm, 4)
}

/// `d = 3` makes seq == d_model, so that permutations other than `[0,1,3,2]` still give a valid MatMul.
pub fn t_gqa_dims(qk: bool, rep_axis: usize, perm: &[i64], d: usize) -> Tm {
    let mut b = B::new();
    let (bsz, kvh, r, s) = (1usize, 2usize, 2usize, 3usize);
    let kshape = [bsz, kvh, s, d];
    let k = b.x("k", &kshape);
    let ax = b.ci(&[1], &[(rep_axis + 1) as i64]);
    let u = b.op("Unsqueeze", &[&k, &ax]);
    let mut es: Vec<i64> = kshape.iter().map(|&x| x as i64).collect();
    es.insert(rep_axis + 1, r as i64);
    let mut rs: Vec<i64> = kshape.iter().map(|&x| x as i64).collect();
    rs[rep_axis] *= r as i64;
    let esc = b.ci(&[5], &es);
    let e = b.op("Expand", &[&u, &esc]);
    let rsc = b.ci(&[4], &rs);
    let kr = b.op("Reshape", &[&e, &rsc]);
    let y = if qk {
        let qshape: Vec<usize> = vec![bsz, if rep_axis == 1 { kvh * r } else { kvh }, s, d];
        let q = b.x("q", &qshape);
        let kt = b.opa("Transpose", &[&kr], vec![("perm", Attr::Ints(perm.to_vec()))]);
        let sc = b.sc(0, 0.5);
        let qs = b.op("Mul", &[&q, &sc]);
        b.op("MatMul", &[&qs, &kt])
    } else {
        let qshape: Vec<usize> = vec![bsz, if rep_axis == 1 { kvh * r } else { kvh }, s, rs[2] as usize];
        let q = b.x("q", &qshape);
        b.op("MatMul", &[&q, &kr])
    };
    b.out(&y, dt::FLOAT);
    b.fin(format!("gqa/{}/ax{rep_axis}/perm{perm:?}{}", if qk { "qk" } else { "v" }, if d == 4 { String::new() } else { format!("/d{d}") }), "GQA")
}

/// Transpose feeding `consumer` (MatMul lhs/rhs/both, Concat, Slice, Split, Expand).
pub fn t_transpose(consumer: &str, which: usize, perm: Option<Vec<i64>>, reuse: bool) -> Tm {
    let mut b = B::new();
    let x = b.x("x", &[2, 3]);
    let tr = |b: &mut B, v: &str| match &perm {
        Some(p) => b.opa("Transpose", &[v], vec![("perm", Attr::Ints(p.clone()))]),
        None => b.op("Transpose", &[v]),
    };
    let xt = tr(&mut b, &x); // [3,2]
    let mut outs = vec![];
    match consumer {
        "MatMul" => {
            // which: 0 lhs transposed, 1 rhs transposed, 2 both
            let y = match which {
                0 => {
                    let w = b.x("w", &[2, 4]);
                    b.op("MatMul", &[&xt, &w])
                }
                1 => {
                    let w = b.x("w", &[4, 3]);
                    b.op("MatMul", &[&w, &xt])
                }
                _ => {
                    let w = b.x("w", &[3, 2]);
                    let wt = tr(&mut b, &w); // [2,3]
                    b.op("MatMul", &[&wt, &xt]) // [2,2]
                }
            };
            outs.push(y);
        }
        "Concat" => {
            let w = b.x("w", &[3, 2]);
            let y = b.opa("Concat", &[&xt, &w], vec![("axis", Attr::Int(which as i64))]);
            outs.push(y);
        }
        "Slice" => {
            let st = b.ci(&[1], &[1]);
            let en = b.ci(&[1], &[3]);
            let ax = b.ci(&[1], &[which as i64 * 0]);
            let y = b.op("Slice", &[&xt, &st, &en, &ax]);
            outs.push(y);
        }
        "Split" => {
            let ys = b.opn("Split", &[&xt], vec![("axis", Attr::Int(which as i64)), ("num_outputs", Attr::Int(2))], 2);
            outs.extend(ys);
        }
        "Expand" => {
            let sh = b.ci(&[3], &[2, 3, 2]);
            let y = b.op("Expand", &[&xt, &sh]);
            outs.push(y);
        }
        _ => {
            let y = b.op("Relu", &[&xt]);
            outs.push(y);
        }
    }
    if reuse {
        let r = b.op("Neg", &[&xt]);
        outs.push(r);
    }
    for o in &outs {
        b.out(o, dt::FLOAT);
    }
    b.fin(format!("transpose/{consumer}/{which}/perm{perm:?}{}", if reuse { "/reuse" } else { "" }), "Transpose")
}

/// Slice(Shape(x)[start attr], starts, ends)
pub fn t_shape_slice(dims: &[D], start: i64, end: i64, shape_start: Option<i64>, with_axes: bool, tail: bool) -> Tm {
    let mut b = B::new();
    let x = b.inp("x", dt::FLOAT, dims, true, VC::Normal);
    let sh = match shape_start {
        Some(s) => b.opa("Shape", &[&x], vec![("start", Attr::Int(s))]),
        None => b.op("Shape", &[&x]),
    };
    let st = b.ci(&[1], &[start]);
    let en = b.ci(&[1], &[end]);
    let y = if with_axes {
        let ax = b.ci(&[1], &[0]);
        b.op("Slice", &[&sh, &st, &en, &ax])
    } else {
        b.op("Slice", &[&sh, &st, &en])
    };
    let y = if tail { b.op("Neg", &[&y]) } else { y };
    b.out(&y, dt::INT64);
    b.fin(format!("shapeslice/{dims:?}/{start}:{end}/ss{shape_start:?}{}{}", if with_axes { "/axes" } else { "" }, if tail { "/tail" } else { "" }).replace(' ', ""), "ShapeSliceToConstant")
}

/// The doc example of ComputeShapeFusion: T = Sigmoid(X); S = Shape(T); Y = Mul(X, T).
pub fn t_compute_shape(dims: &[D], two_inputs: bool) -> Tm {
    let mut b = B::new();
    let x = b.inp("x", dt::FLOAT, dims, true, VC::Normal);
    let t = b.op("Sigmoid", &[&x]);
    let s = b.op("Shape", &[&t]);
    let y = b.op("Mul", &[&x, &t]);
    if two_inputs {
        let z = b.inp("z", dt::FLOAT, dims, true, VC::Normal);
        let zz = b.op("Add", &[&y, &z]);
        b.out(&zz, dt::FLOAT);
    } else {
        b.out(&y, dt::FLOAT);
    }
    b.out(&s, dt::INT64);
    b.fin(format!("computeshape/{dims:?}/{}", two_inputs as u8).replace(' ', ""), "ComputeShape")
}

pub fn t_cast(from: i32, to: i32, declare_dtype_only: bool) -> Tm {
    let mut b = B::new();
    let x = b.inp("x", from, &fx(&[2, 4]), !declare_dtype_only, VC::Normal);
    let c = b.opa("Cast", &[&x], vec![("to", Attr::Int(to as i64))]);
    let y = b.op("Neg", &[&c]);
    b.out(&y, to);
    b.fin(format!("cast/{from}to{to}{}", if declare_dtype_only { "/noshape" } else { "" }), "CastElimination")
}

/// Shape arithmetic: y = Reshape(x, Concat(Gather(Shape(x),0) * k, [-1])) etc.
pub fn t_shape_arith(variant: usize, sym: bool) -> Tm {
    let mut b = B::new();
    let dims = if sym { vec![D::S("n", 2), D::F(6)] } else { fx(&[2, 6]) };
    let x = b.inp("x", dt::FLOAT, &dims, true, VC::Normal);
    let sh = b.op("Shape", &[&x]);
    let i0 = b.ci(&[], &[0]);
    let d0 = b.opa("Gather", &[&sh, &i0], vec![("axis", Attr::Int(0))]);
    let name;
    let y = match variant {
        0 => {
            name = "reshape-2n";
            let two = b.ci(&[], &[2]);
            let d = b.op("Mul", &[&d0, &two]);
            let ax = b.ci(&[1], &[0]);
            let du = b.op("Unsqueeze", &[&d, &ax]);
            let m1 = b.ci(&[1], &[-1]);
            let tgt = b.opa("Concat", &[&du, &m1], vec![("axis", Attr::Int(0))]);
            b.op("Reshape", &[&x, &tgt])
        }
        1 => {
            name = "equal-where";
            // Where(Equal(-n, 0), a, b) on shape values
            let nd = b.op("Neg", &[&d0]);
            let z = b.ci(&[], &[0]);
            let eq = b.op("Equal", &[&nd, &z]);
            let a = b.ci(&[], &[10]);
            let bb = b.ci(&[], &[20]);
            let w = b.op("Where", &[&eq, &a, &bb]);
            let c = b.opa("Cast", &[&w], vec![("to", Attr::Int(dt::FLOAT as i64))]);
            b.op("Add", &[&x, &c])
        }
        2 => {
            name = "sub-equal";
            // Equal(n - 2, 0)
            let two = b.ci(&[], &[2]);
            let d = b.op("Sub", &[&d0, &two]);
            let z = b.ci(&[], &[0]);
            let eq = b.op("Equal", &[&d, &z]);
            let c = b.opa("Cast", &[&eq], vec![("to", Attr::Int(dt::FLOAT as i64))]);
            b.op("Mul", &[&x, &c])
        }
        3 => {
            name = "neg-scale";
            // Equal(n * -3, -6)
            let k = b.ci(&[], &[-3]);
            let d = b.op("Mul", &[&d0, &k]);
            let z = b.ci(&[], &[-6]);
            let eq = b.op("Equal", &[&d, &z]);
            let c = b.opa("Cast", &[&eq], vec![("to", Attr::Int(dt::FLOAT as i64))]);
            b.op("Mul", &[&x, &c])
        }
        _ => {
            name = "range-expand";
            let s = b.ci(&[], &[0]);
            let one = b.ci(&[], &[1]);
            let r = b.op("Range", &[&s, &d0, &one]);
            let c = b.opa("Cast", &[&r], vec![("to", Attr::Int(dt::FLOAT as i64))]);
            let ax = b.ci(&[1], &[1]);
            let cu = b.op("Unsqueeze", &[&c, &ax]);
            b.op("Add", &[&x, &cu])
        }
    };
    b.out(&y, dt::FLOAT);
    b.fin(format!("shapearith/{name}/{}", if sym { "sym" } else { "fixed" }), "ShapeArith")
}

/// Constant-only subgraph feeding an input-dependent op (constant propagation).
pub fn t_constprop(variant: usize) -> Tm {
    let mut b = B::new();
    let x = b.x("x", &[2, 3]);
    let y = match variant {
        0 => {
            let a = b.cf(&[3], &[1.0, 2.0, 3.0]);
            let c = b.sc(0, 2.0);
            let m = b.op("Mul", &[&a, &c]);
            let s = b.op("Sqrt", &[&m]);
            b.op("Add", &[&x, &s])
        }
        1 => {
            // x + (1 - 1): becomes x + 0 only after constant propagation
            let a = b.sc(0, 1.0);
            let c = b.sc(1, 1.0);
            let z = b.op("Sub", &[&a, &c]);
            b.op("Add", &[&x, &z])
        }
        _ => {
            // constant graph output
            let a = b.cf(&[2], &[1.0, 2.0]);
            let n = b.op("Neg", &[&a]);
            b.out(&n, dt::FLOAT);
            b.op("Relu", &[&x])
        }
    };
    b.out(&y, dt::FLOAT);
    b.fin(format!("constprop/{variant}"), "ConstProp")
}

/// Shape(Div(x, c)) with a single-element divisor of higher rank: the Div operator returns x's shape
/// although ONNX broadcasting (and rten's shape inference) give the divisor's rank.
pub fn t_div_rank() -> Tm {
    let mut b = B::new();
    let x = b.x("x", &[2, 3]);
    let c = b.sc(3, 2.0);
    let v = b.op("Div", &[&x, &c]);
    let sh = b.op("Shape", &[&v]);
    let i0 = b.ci(&[], &[0]);
    let g = b.opa("Gather", &[&sh, &i0], vec![("axis", Attr::Int(0))]);
    let cf = b.opa("Cast", &[&g], vec![("to", Attr::Int(dt::FLOAT as i64))]);
    let y = b.op("Add", &[&v, &cf]);
    b.out(&y, dt::FLOAT);
    b.fin("divrank/x[2,3]/c[1,1,1]".into(), "ShapeArith")
}

/// Signed zeros through IdentityFusion: `y = 1 / id(x)` with `id` one of `x + 0.0`, `x - (-0.0)`,
/// `0.0 + x`, `x * 1`, `x / 1`, `x + (-0.0)`, `x - 0.0` and inputs containing +0.0 and -0.0.
/// IEEE: `-0.0 + 0.0 = +0.0`, so removing `x + 0.0` turns `1/(+0.0) = +inf` into `1/(-0.0) = -inf`.
pub fn t_signed_zero(variant: usize) -> Tm {
    let mut b = B::new();
    let x = b.inp("x", dt::FLOAT, &fx(&[4]), true, VC::SignedZeros);
    let (name, idv) = match variant {
        0 => ("add+0", { let c = b.cf(&[], &[0.0]); b.op("Add", &[&x, &c]) }),
        1 => ("sub-0", { let c = b.cf(&[], &[-0.0]); b.op("Sub", &[&x, &c]) }),
        2 => ("0+x", { let c = b.cf(&[], &[0.0]); b.op("Add", &[&c, &x]) }),
        3 => ("mul1", { let c = b.cf(&[], &[1.0]); b.op("Mul", &[&x, &c]) }),
        4 => ("div1", { let c = b.cf(&[], &[1.0]); b.op("Div", &[&x, &c]) }),
        5 => ("add-0", { let c = b.cf(&[], &[-0.0]); b.op("Add", &[&x, &c]) }),
        _ => ("sub+0", { let c = b.cf(&[], &[0.0]); b.op("Sub", &[&x, &c]) }),
    };
    let one = b.cf(&[], &[1.0]);
    let y = b.op("Div", &[&one, &idv]);
    b.out(&y, dt::FLOAT);
    b.fin(format!("signedzero/{name}"), "Identity")
}

/// Both softmax fusions at once: `Where(IsNaN(P), 0, P)` with `P = Softmax(Add(qk, mask))`.
/// Pass 1: SafeSoftmax -> Softmax{flush}; pass 2: AddSoftmax must inherit the flag.
pub fn t_safe_add_softmax(qs: &[usize], ms: &[usize], axis: i64, swap: bool, declare: bool) -> Tm {
    let mut b = B::new();
    let q = b.inp("qk", dt::FLOAT, &fx(qs), declare, VC::Normal);
    let m = b.inp("mask", dt::FLOAT, &fx(ms), declare, VC::Mask);
    let a = b.bin("Add", &q, &m, swap);
    let p = b.opa("Softmax", &[&a], vec![("axis", Attr::Int(axis))]);
    let nan = b.op("IsNaN", &[&p]);
    let z = b.sc(0, 0.0);
    let y = b.op("Where", &[&nan, &z, &p]);
    b.out(&y, dt::FLOAT);
    b.fin(format!("chain/safe+addsoftmax/q{qs:?}/m{ms:?}/ax{axis}/{}{}", swap as u8, if declare { "" } else { "/noshape" }), "Chain")
}

/// Transpose -> MatMul -> scale (-> + bias): TransposeFusion / MatMulScale / MatMulAdd across passes.
pub fn t_transpose_matmul_scale(scale_in: bool, bias: bool) -> Tm {
    let mut b = B::new();
    let a = b.x("a", &[4, 2]);
    let w = b.x("b", &[4, 3]);
    let at = b.opa("Transpose", &[&a], vec![("perm", Attr::Ints(vec![1, 0]))]);
    let lhs = if scale_in {
        let c = b.sc(0, 0.5);
        b.op("Mul", &[&at, &c])
    } else {
        at
    };
    let mm = b.op("MatMul", &[&lhs, &w]);
    let c2 = b.sc(0, 0.25);
    let mut y = b.op("Mul", &[&mm, &c2]);
    if bias {
        let bi = b.cf(&[3], &[1.0, 2.0, 3.0]);
        y = b.op("Add", &[&y, &bi]);
    }
    b.out(&y, dt::FLOAT);
    b.fin(format!("chain/transpose+matmul+scale/{}{}", scale_in as u8, bias as u8), "Chain")
}

/// RMSNorm written with `1 / sqrt(..)` (Reciprocal fusion first, RMSNorm in the next pass) and Swish
/// with alpha = 1 written as `x * Sigmoid(1 * x)` (Identity elimination first, then Silu).
pub fn t_chain_misc(variant: usize) -> Tm {
    let mut b = B::new();
    let x = b.x("x", &[2, 4]);
    let y = match variant {
        0 => {
            let two = b.sc(0, 2.0);
            let p = b.op("Pow", &[&x, &two]);
            let v = reduce_mean(&mut b, &p, -1, 1, false);
            let eps = b.sc(0, 1e-5);
            let ve = b.op("Add", &[&v, &eps]);
            let sd = b.op("Sqrt", &[&ve]);
            let one = b.sc(0, 1.0);
            let r = b.op("Div", &[&one, &sd]);
            let xn = b.op("Mul", &[&x, &r]);
            let s = b.cf(&[4], &[0.5, 0.75, 1.0, 1.25]);
            b.op("Mul", &[&xn, &s])
        }
        1 => {
            let one = b.sc(0, 1.0);
            let ax = b.op("Mul", &[&one, &x]);
            let s = b.op("Sigmoid", &[&ax]);
            b.op("Mul", &[&x, &s])
        }
        _ => {
            // Gelu whose input goes through a no-op Cast and whose output is scaled by 1
            let c = b.opa("Cast", &[&x], vec![("to", Attr::Int(dt::FLOAT as i64))]);
            let g = {
                let s2 = b.sc(0, SQRT2);
                let d = b.op("Div", &[&c, &s2]);
                let e = b.op("Erf", &[&d]);
                let one = b.sc(0, 1.0);
                let e1 = b.op("Add", &[&e, &one]);
                let m = b.op("Mul", &[&c, &e1]);
                let half = b.sc(0, 0.5);
                b.op("Mul", &[&m, &half])
            };
            let one = b.sc(0, 1.0);
            b.op("Mul", &[&g, &one])
        }
    };
    b.out(&y, dt::FLOAT);
    b.fin(format!("chain/misc/{variant}"), "Chain")
}

/// Insert a no-op (`kind` 0: `* 1`, 1: `Cast(to=FLOAT)`, 2: `Identity`) on value `v`: all consumers of
/// `v` read the no-op's output. IdentityFusion / CastElimination then feed every pattern.
pub fn insert_noop(t: &Tm, v: &str, kind: usize) -> Tm {
    let mut t2 = t.clone();
    let nv = format!("{v}_noop");
    for n in t2.g.nodes.iter_mut() {
        for i in n.inputs.iter_mut() {
            if i == v {
                *i = nv.clone();
            }
        }
    }
    let node = match kind {
        0 => {
            t2.g.initializers.push(Tensor::f32s(&format!("{v}_one"), &[], &[1.0]));
            Node::new("Mul", &format!("{v}_noop_n"), &[v, &format!("{v}_one")], &[&nv])
        }
        1 => Node::new("Cast", &format!("{v}_noop_n"), &[v], &[&nv]).attr("to", Attr::Int(dt::FLOAT as i64)),
        _ => Node::new("Identity", &format!("{v}_noop_n"), &[v], &[&nv]),
    };
    // keep ONNX node order topological: put the no-op right after the producer of `v` (or first)
    let pos = t2.g.nodes.iter().position(|n| n.outputs.iter().any(|o| o == v)).map(|p| p + 1).unwrap_or(0);
    t2.g.nodes.insert(pos, node);
    t2.name = format!("{}+noop{kind}:{v}", t.name);
    t2.family = "Chain";
    t2
}

/// Sequential composition: the (single, f32) output of `a` becomes the input `x` of `b`.
pub fn compose(a: &Tm, b: &Tm) -> Tm {
    let ren = |s: &str| if s.is_empty() { String::new() } else { format!("A_{s}") };
    let mut g = Graph::default();
    for i in &a.g.inputs {
        let mut i2 = i.clone();
        i2.name = ren(&i.name);
        g.inputs.push(i2);
    }
    for t in &a.g.initializers {
        let mut t2 = t.clone();
        t2.name = ren(&t.name);
        g.initializers.push(t2);
    }
    for n in &a.g.nodes {
        let mut n2 = n.clone();
        n2.name = ren(&n.name);
        n2.inputs = n.inputs.iter().map(|s| ren(s)).collect();
        n2.outputs = n.outputs.iter().map(|s| ren(s)).collect();
        g.nodes.push(n2);
    }
    let mid = ren(&a.g.outputs[0].name);
    for i in &b.g.inputs {
        if i.name != "x" {
            g.inputs.push(i.clone());
        }
    }
    g.initializers.extend(b.g.initializers.iter().cloned());
    for n in &b.g.nodes {
        let mut n2 = n.clone();
        n2.inputs = n.inputs.iter().map(|s| if s == "x" { mid.clone() } else { s.clone() }).collect();
        g.nodes.push(n2);
    }
    g.outputs = b.g.outputs.clone();
    let mut ins: Vec<InSpec> = a.ins.iter().map(|s| InSpec { name: ren(&s.name), ..s.clone() }).collect();
    ins.extend(b.ins.iter().filter(|s| s.name != "x").cloned());
    Tm { name: format!("chain/compose/[{}]>[{}]", a.name, b.name), family: "Chain", g, ins, opset: 21, vals: vec![] }
}

/// Unary f32 `[2,4] -> [2,4]` templates with input `x`, one per fusion whose product is a tensor of
/// its input's shape (add a line here when a fusion is added to `fusions.rs`).
pub fn unary_reps() -> Vec<Tm> {
    let f = dt::FLOAT;
    let xs = &[2usize, 4][..];
    let mut addsm = {
        let mut b = B::new();
        let q = b.x("x", xs);
        let m = b.inp("mask", f, &fx(xs), true, VC::Mask);
        let a = b.op("Add", &[&q, &m]);
        let y = b.opa("Softmax", &[&a], vec![("axis", Attr::Int(-1))]);
        b.out(&y, f);
        b.fin("addsoftmax".into(), "Chain")
    };
    addsm.family = "Chain";
    vec![
        t_identity(0, xs, 0, false, true, f, None, false),
        t_identity(2, xs, 0, true, true, f, None, false),
        t_reciprocal(xs, 0, 1.0, f),
        t_silu(xs, false, false),
        t_swish(xs, 0, 1.702, false, false),
        t_gelu(xs, 0, false, 0, false),
        t_approx_gelu(xs, 0, false),
        t_layernorm(xs, -1, -1, 1, true, &[4], true, 0, true),
        t_layernorm(xs, -1, -1, 1, false, &[4], false, 0, true),
        t_rmsnorm(xs, -1, 1, true, &[4], 0),
        t_safe_softmax(xs, 0, -1, None, 0.0),
        addsm,
        t_cast(f, f, false),
    ]
}

/// Two graph outputs with the same (shape-inference) constant value.
pub fn t_dup_const_outputs(variant: usize) -> Tm {
    let mut b = B::new();
    let x = b.x("x", &[2, 3]);
    match variant {
        0 => {
            let c = b.ci32(&[3], &[0, 0, 0]);
            let y1 = b.op("Identity", &[&c]);
            let y2 = b.op("Identity", &[&y1]);
            b.out(&y1, dt::INT32);
            b.out(&y2, dt::INT32);
        }
        _ => {
            let s1 = b.op("Shape", &[&x]);
            let r = b.op("Relu", &[&x]);
            let s2 = b.op("Shape", &[&r]);
            b.out(&s1, dt::INT64);
            b.out(&s2, dt::INT64);
        }
    }
    b.fin(format!("dupconst/{variant}"), "ConstProp")
}

pub fn all_templates(rng: &mut Rng, thorough: bool) -> Vec<Tm> {
    let mut v: Vec<Tm> = vec![];
    v.push(t_dup_const_outputs(0));
    v.push(t_dup_const_outputs(1));
    v.push(t_div_rank());
    let f = dt::FLOAT;
    // Identity
    for op in 0..5 {
        for xs in [&[3usize][..], &[2, 3], &[]] {
            for cr in 0..4 {
                for swap in [false, true] {
                    if swap && (op == 1 || op == 3 || op == 4) {
                        continue;
                    }
                    if op == 4 && cr > 0 {
                        continue;
                    }
                    v.push(t_identity(op, xs, cr, swap, true, f, None, false));
                    if cr <= 1 && !swap {
                        v.push(t_identity(op, xs, cr, swap, false, f, None, true));
                        v.push(t_identity(op, xs, cr, swap, true, f, None, true));
                    }
                }
            }
        }
        v.push(t_identity(op, &[3], 0, false, true, dt::INT32, None, false));
        v.push(t_identity(op, &[3], 0, false, true, f, Some(if op < 2 { 1e-5 } else { 1.00001 }), false));
    }
    // Reciprocal
    for cr in 0..4 {
        for xs in [&[3usize][..], &[2, 3], &[]] {
            v.push(t_reciprocal(xs, cr, 1.0, f));
        }
    }
    v.push(t_reciprocal(&[3], 0, 1.00005, f));
    v.push(t_reciprocal(&[3], 0, 1.001, f));
    v.push(t_reciprocal(&[3], 0, 2.0, f));
    v.push(t_reciprocal(&[3], 0, 1.0, dt::INT32));
    // ReduceMean axes
    for (axes, k, noop) in [(&[-1i64][..], 1, 0), (&[1], 0, 0), (&[0, 1], 1, 0), (&[], 1, 1), (&[], 1, 0), (&[], 0, 1)] {
        v.push(t_reducemean_axes(&[2, 3], axes, k, noop, true));
    }
    // Silu / Swish
    for xs in [&[3usize][..], &[2, 3]] {
        for swap in [false, true] {
            v.push(t_silu(xs, swap, false));
        }
    }
    v.push(t_silu(&[3], false, true));
    for ar in 0..4 {
        for (s1, s2) in [(false, false), (true, false), (false, true), (true, true)] {
            v.push(t_swish(&[3], ar, 1.702, s1, s2));
            v.push(t_swish(&[2, 3], ar, 1.702, s1, s2));
        }
    }
    v.push(t_swish(&[], 1, 1.5, false, false));
    // Gelu
    for form in 0..3 {
        for mulform in [false, true] {
            for cr in 0..3 {
                for swap in [false, true] {
                    v.push(t_gelu(&[3], form, mulform, cr, swap));
                }
            }
            v.push(t_gelu(&[2, 3], form, mulform, 0, false));
        }
    }
    for cr in 0..3 {
        for swap in [false, true] {
            v.push(t_approx_gelu(&[3], cr, swap));
        }
    }
    // LayerNorm / RMSNorm
    for attr_form in [true, false] {
        for (xs, axis) in [(&[2usize, 4][..], -1i64), (&[2, 4], 1), (&[2, 4], 0), (&[2, 3, 4], 2), (&[2, 3, 4], 1), (&[4, 4], 0)] {
            for bias in [false, true] {
                let last = *xs.last().unwrap() as i64;
                v.push(t_layernorm(xs, axis, axis, 1, attr_form, &[last], bias, 0, true));
            }
        }
        let xs = &[2usize, 4][..];
        v.push(t_layernorm(xs, -1, -1, 1, attr_form, &[4], true, 0, false));
        v.push(t_layernorm(xs, 1, 1, 1, attr_form, &[4], true, 0, false));
        v.push(t_layernorm(xs, -1, -1, 1, attr_form, &[1, 4], true, 1, true));
        v.push(t_layernorm(xs, -1, -1, 1, attr_form, &[2, 4], true, 2, true));
        v.push(t_layernorm(xs, -1, -1, 1, attr_form, &[1], false, 0, true));
        v.push(t_layernorm(xs, -1, -1, 1, attr_form, &[], false, 0, true));
        v.push(t_layernorm(xs, -1, -1, 1, attr_form, &[2, 1], false, 0, true));
        v.push(t_layernorm(xs, -1, -1, 1, attr_form, &[3, 2, 4], false, 0, true));
        v.push(t_layernorm(&[4, 4], -1, -1, 0, attr_form, &[4], true, 0, true));
        v.push(t_layernorm(&[4, 4], -1, 0, 1, attr_form, &[4], true, 0, true));
        v.push(t_layernorm(&[4, 4], 0, -1, 1, attr_form, &[4], true, 0, true));
        for (xs, axis) in [(&[2usize, 4][..], -1i64), (&[2, 4], 1), (&[2, 4], 0), (&[2, 3, 4], 2), (&[2, 3, 4], 1)] {
            let last = *xs.last().unwrap() as i64;
            v.push(t_rmsnorm(xs, axis, 1, attr_form, &[last], 0));
        }
        v.push(t_rmsnorm(&[2, 4], -1, 1, attr_form, &[1, 4], 1));
        v.push(t_rmsnorm(&[2, 4], -1, 1, attr_form, &[2, 4], 2));
        v.push(t_rmsnorm(&[2, 4], -1, 1, attr_form, &[3, 2, 4], 0));
        v.push(t_rmsnorm(&[4, 4], -1, 0, attr_form, &[4], 0));
    }
    // MatMulAdd
    for swap in [false, true] {
        v.push(t_matmul_add(&[2, 4], &[4, 3], &[3], swap, true, f));
        v.push(t_matmul_add(&[2, 4], &[4, 3], &[1, 3], swap, true, f));
        v.push(t_matmul_add(&[2, 4], &[4, 3], &[2, 3], swap, true, f));
        v.push(t_matmul_add(&[2, 4], &[4, 3], &[1], swap, true, f));
        v.push(t_matmul_add(&[2, 4], &[4, 3], &[], swap, true, f));
        v.push(t_matmul_add(&[2, 4], &[4, 1], &[3], swap, true, f));
        v.push(t_matmul_add(&[5, 2, 4], &[4, 3], &[3], swap, true, f));
        v.push(t_matmul_add(&[4], &[4, 3], &[3], swap, true, f));
        v.push(t_matmul_add(&[2, 4], &[4], &[2], swap, true, f));
        v.push(t_matmul_add(&[4], &[4], &[3], swap, true, f));
        v.push(t_matmul_add(&[2, 4], &[4, 3], &[3], swap, false, f));
        v.push(t_matmul_add(&[2, 4], &[4, 3], &[3], swap, true, dt::INT32));
    }
    for (bsh, bias) in [(&[4usize, 1][..], &[3i64][..]), (&[4, 3], &[3])] {
        // RHS without a declared shape: the fusion cannot check the bias length
        let mut t = t_matmul_add(&[2, 4], bsh, bias, false, true, f);
        t.g.inputs[1].shape = None;
        t.name += "/rhs-noshape";
        v.push(t);
    }
    // MatMulScale
    let sc = |div: bool, val: f32, rank: usize, swap: bool| Some((div, val, rank, swap));
    for rank in 0..4 {
        v.push(t_matmul_scale(&[2, 4], &[4, 3], None, None, sc(false, 0.5, rank, false)));
        v.push(t_matmul_scale(&[2, 4], &[4, 3], None, None, sc(false, 0.5, rank, true)));
        v.push(t_matmul_scale(&[2, 4], &[4, 3], sc(false, 0.5, rank, false), None, None));
        v.push(t_matmul_scale(&[2, 4], &[4, 3], None, sc(true, 4.0, rank, false), None));
        v.push(t_matmul_scale(&[2, 4], &[4, 3], sc(false, 0.5, rank, true), sc(false, 0.25, rank, false), sc(true, 2.0, rank, false)));
    }
    v.push(t_matmul_scale(&[2, 4], &[4, 3], None, None, sc(true, 2.0, 0, true)));
    v.push(t_matmul_scale(&[2, 4], &[4, 3], None, None, sc(false, 1.0, 0, false)));
    v.push(t_matmul_scale(&[2, 4], &[4, 3], sc(false, 2.0, 0, false), sc(false, 0.5, 0, false), None));
    v.push(t_matmul_scale(&[4], &[4, 3], sc(false, 2.0, 1, false), None, None));
    v.push(t_matmul_scale(&[4], &[4], None, None, sc(false, 2.0, 1, false)));
    v.push(t_matmul_scale(&[2, 4], &[4, 3], None, None, None));
    // MatMulInteger / ConvInteger
    for swap in [false, true] {
        for ss in [&[][..], &[1], &[3], &[1, 3], &[2, 3], &[1, 1]] {
            v.push(t_matmul_int(ss, dt::FLOAT, swap, true));
        }
        v.push(t_matmul_int(&[3], dt::FLOAT, swap, false));
        v.push(t_matmul_int(&[], dt::INT32, swap, true));
        v.push(t_matmul_int(&[3], dt::INT32, swap, true));
        for ss in [&[][..], &[1], &[3], &[1, 3, 1, 1], &[1, 1]] {
            v.push(t_conv_int(ss, swap));
        }
    }
    // ConvAdd
    for swap in [false, true] {
        v.push(t_conv_add(4, &[1, 3, 1, 1], swap, false, 3));
        v.push(t_conv_add(4, &[1, 3, 1, 1], swap, true, 3));
        v.push(t_conv_add(4, &[3, 1, 1], swap, false, 3));
        v.push(t_conv_add(4, &[1, 1, 1, 1], swap, false, 3));
        v.push(t_conv_add(4, &[1, 1, 1, 1], swap, false, 1));
        v.push(t_conv_add(4, &[1, 3, 3, 3], swap, false, 3));
        v.push(t_conv_add(4, &[], swap, false, 3));
        v.push(t_conv_add(3, &[1, 3, 1], swap, false, 3));
    }
    // SafeSoftmax / AddSoftmax
    for zr in 0..4 {
        v.push(t_safe_softmax(&[3, 4], zr, -1, None, 0.0));
    }
    v.push(t_safe_softmax(&[3, 4], 0, 0, None, 0.0));
    v.push(t_safe_softmax(&[3, 4], 0, 0, Some(1), 0.0));
    v.push(t_safe_softmax(&[3, 4], 0, 1, Some(0), 0.0));
    v.push(t_safe_softmax(&[3, 4], 0, -1, Some(-1), 0.0));
    v.push(t_safe_softmax(&[3, 4], 0, -1, None, 0.5));
    for swap in [false, true] {
        for declare in [true, false] {
            v.push(t_add_softmax(&[3, 4], &[3, 4], -1, swap, declare));
            v.push(t_add_softmax(&[3, 4], &[3, 4], 1, swap, declare));
            v.push(t_add_softmax(&[3, 4], &[3, 4], 0, swap, declare));
            v.push(t_add_softmax(&[2, 3, 4], &[3, 4], -1, swap, declare));
            v.push(t_add_softmax(&[3, 4], &[2, 3, 4], -1, swap, declare));
            v.push(t_add_softmax(&[1, 4], &[3, 4], -1, swap, declare));
            v.push(t_add_softmax(&[3, 4], &[1, 4], -1, swap, declare));
            v.push(t_add_softmax(&[3, 4], &[4], -1, swap, declare));
            v.push(t_add_softmax(&[3, 1], &[3, 4], -1, swap, declare));
            v.push(t_add_softmax(&[3, 4], &[], 1, swap, declare));
        }
    }
    // RepeatInterleave / GQA
    for tile in [false, true] {
        for xdt in [f, dt::INT32] {
            v.push(t_repeat_interleave(&[2, 3], 0, 2, tile, xdt, false));
            v.push(t_repeat_interleave(&[2, 3], 1, 3, tile, xdt, false));
            v.push(t_repeat_interleave(&[1, 2, 3, 4], 1, 2, tile, xdt, false));
            v.push(t_repeat_interleave(&[2, 2, 3, 4], 1, 3, tile, xdt, true));
        }
        v.push(t_repeat_interleave(&[2, 3], 0, 1, tile, f, false));
    }
    v.push(t_gqa(false, 1, &[]));
    v.push(t_gqa(true, 1, &[0, 1, 3, 2]));
    v.push(t_gqa(true, 1, &[0, 1, 2, 3]));
    // seq == d_model: the Transpose is not the `[0,1,3,2]` the GQA fusion expects but the MatMul is still valid
    v.push(t_gqa_dims(true, 1, &[0, 1, 2, 3], 3));
    v.push(t_gqa_dims(true, 1, &[0, 1, 3, 2], 3));
    v.push(t_gqa_dims(true, 1, &[1, 0, 2, 3], 3));
    v.push(t_gqa_dims(false, 1, &[], 3));
    // Transpose
    for reuse in [false, true] {
        for perm in [None, Some(vec![1i64, 0])] {
            for which in 0..3 {
                v.push(t_transpose("MatMul", which, perm.clone(), reuse));
            }
            v.push(t_transpose("Concat", 0, perm.clone(), reuse));
            v.push(t_transpose("Concat", 1, perm.clone(), reuse));
            v.push(t_transpose("Slice", 0, perm.clone(), reuse));
            v.push(t_transpose("Split", 1, perm.clone(), reuse));
            v.push(t_transpose("Expand", 0, perm.clone(), reuse));
            v.push(t_transpose("Relu", 0, perm.clone(), reuse));
        }
    }
    // ShapeSliceToConstant / ComputeShape / Cast / shape arithmetic / const-prop
    let fixed3 = fx(&[2, 3, 4]);
    let sym3 = vec![D::S("batch", 2), D::F(3), D::S("seq", 4)];
    for dims in [&fixed3, &sym3] {
        for (s, e) in [(0i64, 2i64), (1, 2), (1, 3), (-1, 100), (-2, -1), (0, 1), (2, 1), (-100, 1)] {
            v.push(t_shape_slice(dims, s, e, None, false, true));
        }
        v.push(t_shape_slice(dims, 0, 2, None, false, false));
        v.push(t_shape_slice(dims, 0, 1, Some(1), false, true));
        v.push(t_shape_slice(dims, 0, 1, Some(-1), false, true));
        v.push(t_shape_slice(dims, 1, 2, None, true, true));
        v.push(t_compute_shape(dims, false));
        v.push(t_compute_shape(dims, true));
    }
    v.push(t_compute_shape(&[D::S("batch", 2), D::S("batch", 2)], false));
    for (from, to) in [(f, f), (dt::INT32, dt::INT32), (f, dt::INT32), (dt::INT32, f), (dt::INT64, dt::INT32), (dt::INT32, dt::INT64)] {
        v.push(t_cast(from, to, false));
        v.push(t_cast(from, to, true));
    }
    for variant in 0..5 {
        for sym in [false, true] {
            v.push(t_shape_arith(variant, sym));
        }
    }
    for variant in 0..3 {
        v.push(t_constprop(variant));
    }
    // multi-element pattern constants: uniform (all elements = the pattern value) and varied (control),
    // rank 1 and 2, (a) shaped like the other operand's trailing dims, (b) broadcasting it to a bigger shape
    for uniform in [true, false] {
        // (x shape, constant shape)
        let combos: [(&[usize], &[i64]); 8] = [
            (&[2, 3], &[3]),
            (&[2, 3], &[2, 3]),
            (&[2, 3], &[1, 3]),
            (&[2, 1], &[3]),
            (&[3], &[2, 3]),
            (&[], &[3]),
            (&[1, 1], &[2, 3]),
            (&[2, 1], &[2, 3]),
        ];
        for (xs, cs) in combos {
            set_const_override(Some((cs.to_vec(), uniform)));
            for op in 0..4 {
                v.push(t_identity(op, xs, 0, false, true, f, None, false));
                if op == 0 || op == 2 {
                    v.push(t_identity(op, xs, 0, true, true, f, None, true));
                }
            }
            v.push(t_reciprocal(xs, 0, 1.0, f));
            v.push(t_gelu(xs, 0, false, 0, false));
            v.push(t_gelu(xs, 1, true, 0, true));
            v.push(t_approx_gelu(xs, 0, false));
            v.push(t_swish(xs, 0, 1.702, false, false));
            if xs.len() == 2 {
                v.push(t_safe_softmax(xs, 0, -1, None, 0.0));
            }
        }
        for (cs, xs) in [(&[4i64][..], &[2usize, 4][..]), (&[2, 4], &[2, 4]), (&[3, 2, 4], &[2, 4]), (&[2, 4], &[1, 4])] {
            set_const_override(Some((cs.to_vec(), uniform)));
            v.push(t_layernorm(xs, -1, -1, 1, true, &[4], true, 0, true));
            v.push(t_rmsnorm(xs, -1, 1, true, &[4], 0));
        }
        for cs in [&[3i64][..], &[2, 3], &[1, 3], &[4, 2, 3]] {
            set_const_override(Some((cs.to_vec(), uniform)));
            v.push(t_matmul_scale(&[2, 4], &[4, 3], None, None, sc(false, 0.5, 0, false)));
            v.push(t_matmul_scale(&[2, 4], &[4, 3], None, None, sc(true, 2.0, 0, false)));
        }
        for cs in [&[4i64][..], &[2, 4]] {
            set_const_override(Some((cs.to_vec(), uniform)));
            v.push(t_matmul_scale(&[2, 4], &[4, 3], sc(false, 0.5, 0, false), None, None));
        }
    }
    set_const_override(None);
    // exactly ONE pattern constant of higher rank (chain-internal constants of Gelu / ApproxGelu / RMSNorm ...)
    for r in [1usize, 2, 3] {
        for k in 0..3 {
            for form in 0..3 {
                for mulform in [false, true] {
                    for swap in [false, true] {
                        set_sc_rank(Some((k, r)));
                        v.push(t_gelu(&[3], form, mulform, 0, swap));
                    }
                }
            }
        }
        for k in 0..5 {
            for swap in [false, true] {
                set_sc_rank(Some((k, r)));
                v.push(t_approx_gelu(&[3], 0, swap));
            }
        }
        for k in 0..2 {
            // k = 0: the Pow exponent 2.0, k = 1: epsilon
            set_sc_rank(Some((k, r)));
            v.push(t_layernorm(&[2, 4], -1, -1, 1, true, &[4], true, 0, true));
            set_sc_rank(Some((k, r)));
            v.push(t_layernorm(&[2, 4], -1, -1, 1, false, &[4], false, 0, true));
            set_sc_rank(Some((k, r)));
            v.push(t_rmsnorm(&[2, 4], -1, 1, true, &[4], 0));
        }
        for k in 0..3 {
            set_sc_rank(Some((k, r)));
            v.push(t_matmul_scale(&[2, 4], &[4, 3], sc(false, 0.5, 0, true), sc(false, 0.25, 0, false), sc(true, 2.0, 0, false)));
        }
    }
    set_sc_rank(None);
    // epsilon of rank 3 with a valid scale
    v.push(t_layernorm(&[2, 4], -1, -1, 1, true, &[4], true, 3, true));
    v.push(t_rmsnorm(&[2, 4], -1, 1, true, &[4], 3));
    for variant in 0..7 {
        v.push(t_signed_zero(variant));
    }
    // ---- chains of fusions across passes
    for swap in [false, true] {
        for declare in [true, false] {
            v.push(t_safe_add_softmax(&[3, 4], &[3, 4], -1, swap, declare));
            v.push(t_safe_add_softmax(&[3, 4], &[3, 4], 1, swap, declare));
            v.push(t_safe_add_softmax(&[3, 4], &[3, 4], 0, swap, declare));
            v.push(t_safe_add_softmax(&[2, 3, 4], &[3, 4], -1, swap, declare));
            v.push(t_safe_add_softmax(&[3, 4], &[4], -1, swap, declare));
        }
    }
    for scale_in in [false, true] {
        for bias in [false, true] {
            v.push(t_transpose_matmul_scale(scale_in, bias));
        }
    }
    for variant in 0..3 {
        v.push(t_chain_misc(variant));
    }
    let un = unary_reps();
    for a in &un {
        for bb in &un {
            v.push(compose(a, bb));
        }
    }
    // no-op (x*1 / Cast to f32 / Identity) on every f32 value of the representatives
    {
        let noop_reps: Vec<Tm> = {
            let mut r = unary_reps();
            r.push(t_safe_add_softmax(&[3, 4], &[3, 4], -1, false, true));
            r.push(t_matmul_add(&[2, 4], &[4, 3], &[3], false, true, f));
            r.push(t_matmul_scale(&[2, 4], &[4, 3], sc(false, 0.5, 0, true), None, sc(true, 2.0, 0, false)));
            r.push(t_transpose("MatMul", 0, None, false));
            r
        };
        for r in &noop_reps {
            let outs: Vec<String> = r.g.outputs.iter().map(|o| o.name.clone()).collect();
            let mut values: Vec<String> = r.ins.iter().filter(|i| i.dtype == f).map(|i| i.name.clone()).collect();
            for val in &r.vals {
                let prod = r.g.nodes.iter().find(|n| n.outputs.contains(val)).map(|n| n.op_type.clone()).unwrap_or_default();
                if !outs.contains(val) && prod != "IsNaN" {
                    values.push(val.clone());
                }
            }
            for val in &values {
                for kind in 0..3 {
                    v.push(insert_noop(r, val, kind));
                }
            }
        }
    }
    // guard wrappers: every f32 intermediate of a representative of each family
    let reps: Vec<Tm> = vec![
        t_identity(0, &[3], 0, false, true, f, None, true),
        t_identity(2, &[3], 0, false, true, f, None, false),
        t_reciprocal(&[3], 0, 1.0, f),
        t_silu(&[3], false, false),
        t_swish(&[3], 0, 1.702, false, false),
        t_gelu(&[3], 0, false, 0, false),
        t_approx_gelu(&[3], 0, false),
        t_layernorm(&[2, 4], -1, -1, 1, true, &[4], true, 0, true),
        t_layernorm(&[2, 4], -1, -1, 1, false, &[4], true, 0, true),
        t_rmsnorm(&[2, 4], -1, 1, true, &[4], 0),
        t_matmul_add(&[2, 4], &[4, 3], &[3], false, true, f),
        t_matmul_scale(&[2, 4], &[4, 3], sc(false, 0.5, 0, true), sc(false, 0.25, 0, false), sc(true, 2.0, 0, false)),
        t_matmul_int(&[3], dt::FLOAT, false, true),
        t_conv_add(4, &[1, 3, 1, 1], false, false, 3),
        t_conv_int(&[], false),
        t_safe_softmax(&[3, 4], 0, -1, None, 0.0),
        t_add_softmax(&[3, 4], &[3, 4], -1, false, true),
        t_repeat_interleave(&[1, 2, 3, 4], 1, 2, false, f, false),
        t_gqa(false, 1, &[]),
        t_gqa(true, 1, &[0, 1, 3, 2]),
        t_transpose("MatMul", 0, None, false),
        t_cast(f, f, false),
        t_reducemean_axes(&[2, 3], &[-1], 1, 0, true),
    ];
    for r in &reps {
        let outs: Vec<String> = r.g.outputs.iter().map(|o| o.name.clone()).collect();
        for val in &r.vals {
            if outs.contains(val) {
                continue;
            }
            // only f32-typed intermediates are wrapped (Abs/Neg/graph output as f32)
            if r.family == "MatMulIntegerToFloat" || r.family == "ConvIntegerToFloat" {
                let n = r.g.nodes.iter().find(|n| n.outputs.contains(val)).unwrap();
                if n.op_type != "Cast" {
                    continue;
                }
            }
            for kind in 0..3 {
                v.push(wrap_guard(r, val, kind));
            }
        }
        // the declared output captured as well (must stay fusable)
        for o in &outs {
            v.push(wrap_guard(r, o, 2));
            v.push(wrap_guard(r, o, 1));
        }
    }
    let _ = (rng, thorough);
    v
}

// ------------------------------------------------------------------ random graphs

fn bshape(a: &[usize], b: &[usize]) -> Option<Vec<usize>> {
    let n = a.len().max(b.len());
    let mut out = vec![0; n];
    for i in 0..n {
        let x = if i + a.len() >= n { a[i + a.len() - n] } else { 1 };
        let y = if i + b.len() >= n { b[i + b.len() - n] } else { 1 };
        out[i] = if x == y || y == 1 { x } else if x == 1 { y } else { return None };
    }
    Some(out)
}

/// Random small f32 graph over elementwise / matmul / reduce / softmax / transpose ops with frequent
/// "interesting" constants (0, 1, 0.5, 2, 1/sqrt2 ...) of random rank.
pub fn random_graph(rng: &mut Rng, k: usize) -> Tm {
    let mut b = B::new();
    let shapes: [&[usize]; 6] = [&[3], &[2, 3], &[1, 3], &[2, 1], &[], &[3, 3]];
    let mut pool: Vec<(String, Vec<usize>)> = vec![];
    let nin = 1 + rng.usize_below(2);
    for i in 0..nin {
        let s = rng.pick(&shapes).to_vec();
        let sym = rng.chance(1, 4) && !s.is_empty();
        let mut dims = fx(&s);
        if sym {
            dims[0] = D::S(["n0", "n1", "n2", "n3"][s[0].min(3)], s[0]);
        }
        let declare = !rng.chance(1, 5);
        let n = b.inp(&format!("x{i}"), dt::FLOAT, &dims, declare, VC::Normal);
        pool.push((n, s));
    }
    let nops = 2 + rng.usize_below(7);
    let mut desc = vec![];
    for _ in 0..nops {
        let (a, ash) = rng.pick(&pool).clone();
        let r = rng.below(20);
        let (v, sh, d): (String, Vec<usize>, &str) = match r {
            0..=7 => {
                // binary with constant or pool value
                let ty = *rng.pick(&["Add", "Sub", "Mul", "Div", "Add", "Mul"]);
                let (o, osh) = if rng.chance(2, 3) {
                    let cr = rng.usize_below(4);
                    let mut val = *rng.pick(&[0.0f32, 1.0, 0.5, 2.0, 1.0 / SQRT2, SQRT2, 1.702, 3.0, -1.0, 1e-5]);
                    if ty == "Div" && val == 0.0 {
                        // x / 0 is +-inf/NaN everywhere; scaling by 1/0 is outside what the property is about
                        val = 1.0;
                    }
                    (b.sc(cr, val), vec![1; cr])
                } else {
                    rng.pick(&pool).clone()
                };
                let swap = rng.chance(1, 2);
                let (l, lsh, rr, rsh) = if swap { (o, osh, a, ash) } else { (a, ash, o, osh) };
                if ty == "Div" && rsh.iter().product::<usize>() == 1 && rsh.len() > lsh.len() {
                    // the float Div *operator* drops the rank of a single-element divisor (operator defect
                    // outside the optimizer, see template `divrank`): excluded from the random graphs
                    continue;
                }
                match bshape(&lsh, &rsh) {
                    Some(s) => (b.op(ty, &[&l, &rr]), s, ty),
                    None => continue,
                }
            }
            8..=12 => {
                let ty = *rng.pick(&["Sigmoid", "Erf", "Tanh", "Relu", "Neg", "Identity", "Abs", "Reciprocal", "Sqrt", "Softmax"]);
                if ty == "Softmax" && ash.is_empty() {
                    continue;
                }
                (b.op(ty, &[&a]), ash, ty)
            }
            13 => {
                if ash.len() != 2 {
                    continue;
                }
                (b.op("Transpose", &[&a]), vec![ash[1], ash[0]], "Transpose")
            }
            14..=15 => {
                // MatMul with a pool value of compatible shape or a constant
                if ash.len() != 2 {
                    continue;
                }
                let kdim = ash[1];
                let cand: Vec<(String, Vec<usize>)> = pool.iter().filter(|(_, s)| s.len() == 2 && s[0] == kdim).cloned().collect();
                let (w, wsh) = if !cand.is_empty() && rng.chance(1, 2) {
                    rng.pick(&cand).clone()
                } else {
                    let n = kdim * 2;
                    (b.cf(&[kdim as i64, 2], &(0..n).map(|i| 0.5 * i as f32 - 1.0).collect::<Vec<_>>()), vec![kdim, 2])
                };
                (b.op("MatMul", &[&a, &w]), vec![ash[0], wsh[1]], "MatMul")
            }
            16 => {
                if ash.is_empty() {
                    continue;
                }
                let axis = rng.range_i64(-(ash.len() as i64), ash.len() as i64 - 1);
                let kd = rng.below(2) as i64;
                let attr = rng.chance(1, 2);
                let v = reduce_mean(&mut b, &a, axis, kd, attr);
                let ax = if axis < 0 { (axis + ash.len() as i64) as usize } else { axis as usize };
                let mut s = ash.clone();
                if kd == 1 {
                    s[ax] = 1;
                } else {
                    s.remove(ax);
                }
                (v, s, "ReduceMean")
            }
            17 => {
                let two = b.sc(rng.usize_below(2), *rng.pick(&[2.0f32, 3.0]));
                (b.op("Pow", &[&a, &two]), ash, "Pow")
            }
            18 => {
                let c = b.opa("Cast", &[&a], vec![("to", Attr::Int(dt::FLOAT as i64))]);
                (c, ash, "Cast")
            }
            _ => {
                // x + Cast(Gather(Shape(x), 0))
                if ash.is_empty() {
                    continue;
                }
                let sh = b.op("Shape", &[&a]);
                let i0 = b.ci(&[], &[0]);
                let g = b.opa("Gather", &[&sh, &i0], vec![("axis", Attr::Int(0))]);
                let c = b.opa("Cast", &[&g], vec![("to", Attr::Int(dt::FLOAT as i64))]);
                (b.op("Add", &[&a, &c]), ash, "ShapeAdd")
            }
        };
        desc.push(d);
        pool.push((v, sh));
    }
    // outputs: the last value plus (sometimes) another one
    let nv = b.vals.len();
    if nv == 0 {
        let y = b.op("Identity", &[&pool[0].0.clone()]);
        b.out(&y, dt::FLOAT);
    } else {
        let last = b.vals[nv - 1].clone();
        b.out(&last, dt::FLOAT);
        if nv > 2 && rng.chance(1, 3) {
            let other = b.vals[rng.usize_below(nv - 1)].clone();
            // only f32 values can be declared; skip shape/int intermediates
            let prod = b.g.nodes.iter().find(|n| n.outputs.contains(&other)).map(|n| n.op_type.clone()).unwrap_or_default();
            if other != last && !["Shape", "Gather"].contains(&prod.as_str()) {
                b.out(&other, dt::FLOAT);
            }
        }
    }
    b.fin(format!("random/{k}"), "Random")
}
