//! Smoke test / usage example for the shared ONNX encoder: builds `y = (a + b) * c`
//! (c an initializer), loads it through the public `Model::load`, runs it and prints y.
#[path = "../onnx_enc.rs"]
mod onnx_enc;
use onnx_enc::{dt, Graph, Node, Tensor, ValueInfo};
use rten::{Model, ModelOptions, Value};
use rten_tensor::prelude::*;
use rten_tensor::Tensor as RTensor;

fn main() {
    let g = Graph {
        nodes: vec![
            Node::new("Add", "add", &["a", "b"], &["s"]),
            Node::new("Mul", "mul", &["s", "c"], &["y"]),
        ],
        initializers: vec![Tensor::i32s("c", &[1], &[3])],
        inputs: vec![ValueInfo::fixed("a", dt::INT32, &[2, 2]), ValueInfo::fixed("b", dt::INT32, &[2])],
        outputs: vec![ValueInfo::new("y", dt::INT32, None)],
        ..Default::default()
    };
    let bytes = g.into_model_bytes(21);
    let model = ModelOptions::with_all_ops().load(bytes.clone()).expect("load");
    let _ = Model::load(bytes).expect("default load");
    let a = RTensor::<i32>::from_data(&[2, 2], vec![1, 2, 3, 4]);
    let b = RTensor::<i32>::from_data(&[2], vec![10, 20]);
    let out = model
        .run(
            vec![
                (model.node_id("a").unwrap(), a.view().into()),
                (model.node_id("b").unwrap(), b.view().into()),
            ],
            &[model.node_id("y").unwrap()],
            None,
        )
        .expect("run");
    let y: RTensor<i32> = match out.into_iter().next().unwrap() {
        Value::Int32Tensor(t) => t,
        other => panic!("unexpected output {:?}", other.dtype()),
    };
    println!("shape={:?} data={:?}", y.shape(), y.to_vec());
    assert_eq!(y.to_vec(), vec![33, 66, 39, 72]);
}
