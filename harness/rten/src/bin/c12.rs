//! C12: declared operator output types match produced types.
//!
//! Request lines (answers in parentheses):
//!  * `rules <Key> nout=<n> attrs=<k=v,..|->`  (`none` | `r0;r1;..`: the rule objects the real
//!    operator returns from `output_types`; the model instantiates the table generated from the source)
//!  * `lab <Key> nout=<n> attrs=<..> decl=<t,..|->`  (labels the real graph-level `infer_shapes` gives to
//!    the outputs of a single-op graph whose inputs are declared with `decl`; `?` = no label)
//!  * `graph decl=<id:t,..> ops=<Key>/<attrs>/<in ids>/<out ids>;..`  (all labels of a multi-op graph)
//!  * `castelim pre=<Key|-> decl=<t|?> to=<t>`  (`elim=<0|1>`: did the optimizer remove the Cast)
//!
//! Oracle (PROPFAIL): whenever the operator / graph executes successfully, every output whose rule
//! evaluates on the *run-time* input types, and every label computed by the real `infer_shapes`, must equal
//! the run-time type of that output; an eliminated Cast must leave output type and values unchanged.
#[path = "../onnx_enc.rs"]
mod onnx_enc;
#[path = "../op_cases.rs"]
mod op_cases;
use hcommon::{Args, Out, Rng};
use onnx_enc::{Graph, Node, ValueInfo};
use op_cases::*;
use rten::verif as rv;
use rten::{ModelOptions, Value, ValueType};
use std::collections::{BTreeMap, HashSet};

fn main() {
    let args = hcommon::parse_args();
    hcommon::quiet_panics();
    run(&args)
}

fn types_text(ts: &[Option<ValueType>]) -> String {
    hcommon::join(ts.iter().map(|t| t.map(vt_name).unwrap_or_else(|| "?".into())), ";")
}

struct Ctx {
    out: Out,
    seen_rules: HashSet<String>,
    executed_ok: BTreeMap<String, u64>,
    never_ok: BTreeMap<String, String>,
}

/// Run one concrete case: emit `rules` (deduplicated) and `lab` lines, apply the oracle.
fn one_case(cx: &mut Ctx, case: &Case, tag: &str) {
    let res = hcommon::catch(|| {
        let l = load_case(case)?;
        let outs = run_case(&l, case);
        Ok::<_, String>((l, outs))
    });
    let (l, outs) = match res {
        Ok(Ok(x)) => x,
        Ok(Err(e)) => {
            cx.out.bucket("load_error");
            cx.never_ok.entry(case.key.clone()).or_insert(e);
            return;
        }
        Err(p) => {
            cx.out.bucket("load_panic");
            cx.never_ok.entry(case.key.clone()).or_insert(format!("panic {p}"));
            return;
        }
    };
    let rules_req = format!("rules {} nout={} attrs={}", case.key, case.n_out, case.sig_text());
    if cx.seen_rules.insert(rules_req.clone()) {
        let ans = match &l.rules {
            None => "none".to_string(),
            Some(rs) => hcommon::join(rs.iter().map(rule_text), ";"),
        };
        // T3 on the live objects: every input index a rule mentions is below max_inputs.
        let mut fail = None;
        if let (Some(rs), Some(mx)) = (&l.rules, l.max_inputs) {
            for r in rs {
                let idx = match r {
                    rv::OutputType::CopyFromInput(i)
                    | rv::OutputType::ElementTypeOfInputSequence(i)
                    | rv::OutputType::SequenceWithElementTypeOfInput(i) => Some(*i as usize),
                    _ => None,
                };
                if let Some(i) = idx {
                    if i >= mx {
                        fail = Some(format!("rule refers to input {i} but max_inputs = {mx}"));
                    }
                }
            }
        }
        cx.out.bucket("rules_lines");
        cx.out.case(&rules_req, &ans, fail.as_deref(), true);
    }
    // labels computed by the real infer_shapes
    let decl = hcommon::join(
        case.inputs.iter().map(|i| match i {
            Some(i) if i.seq.is_some() => "?".to_string(),
            Some(i) => i.dt.name().to_string(),
            None => "_".to_string(),
        }),
        ",",
    );
    let req = format!(
        "lab {} nout={} attrs={} decl={} mask={} id={}",
        case.key,
        case.n_out,
        case.sig_text(),
        if decl.is_empty() { "-" } else { &decl },
        case.mask_text(),
        tag
    );
    let ans = hcommon::join(
        (0..case.n_out).map(|j| {
            if !case.used(j) {
                "-".to_string()
            } else {
                l.labels.get(j).copied().flatten().map(vt_name).unwrap_or_else(|| "?".into())
            }
        }),
        ";",
    );
    let ans = format!("{ans} strict={}", if l.strict_type_failure { "typefail" } else { "pass" });
    if l.strict_type_failure {
        cx.out.bucket("strict_type_failure");
    }
    if !case.skip_outs.is_empty() {
        cx.out.bucket("unconnected_output_pattern");
    }
    let mut fail: Option<String> = None;
    match &outs {
        Ok(vals) => {
            *cx.executed_ok.entry(case.key.clone()).or_insert(0) += 1;
            cx.never_ok.remove(&case.key);
            cx.out.bucket("run_ok");
            let in_types: Vec<Option<ValueType>> = case.inputs.iter().map(|i| i.as_ref().map(|i| i.value().dtype())).collect();
            // `vals` holds the connected outputs in slot order: map them back to their slots
            let used_slots: Vec<usize> = (0..case.n_out).filter(|&j| case.used(j)).collect();
            let actual: Vec<ValueType> = vals.iter().map(|v| v.dtype()).collect();
            for (j, a) in used_slots.iter().copied().zip(actual.iter()) {
                if let Some(rs) = &l.rules {
                    if let Some(r) = rs.get(j) {
                        match eval_rule(r, &in_types) {
                            Some(t) if t != *a => {
                                fail = Some(format!(
                                    "output {j}: declared rule {} on inputs [{}] predicts {} but the operator produced {}",
                                    rule_text(r),
                                    case.in_types(),
                                    vt_name(t),
                                    vt_name(*a)
                                ));
                            }
                            Some(_) => cx.out.bucket("rule_checked"),
                            None => cx.out.bucket("rule_undefined_on_inputs"),
                        }
                    } else {
                        cx.out.bucket("output_without_rule");
                    }
                }
                if let Some(Some(lab)) = l.labels.get(j) {
                    if lab != a && fail.is_none() {
                        fail = Some(format!(
                            "output {j}: infer_shapes label {} but run-time type {} (inputs [{}])",
                            vt_name(*lab),
                            vt_name(*a),
                            case.in_types()
                        ));
                    }
                }
            }
            if actual.iter().zip(in_types.iter().flatten()).any(|(a, i)| a != i) {
                cx.out.bucket("type_changing_run");
            }
        }
        Err(e) => {
            cx.out.bucket("run_err");
            let short: String = e.chars().take(60).collect();
            cx.never_ok.entry(case.key.clone()).or_insert(short);
        }
    }
    cx.out.bucket(&format!("op:{}", case.key));
    let nontrivial = outs.is_ok();
    cx.out.case(&req, &ans, fail.as_deref(), nontrivial);
}

/// All dtype re-typings of a case's tensor inputs (complete cross product for <= 3 inputs,
/// otherwise joint re-typing of the data inputs plus every single-slot re-typing).
fn dtype_variants(case: &Case) -> Vec<Case> {
    let slots: Vec<usize> = case.inputs.iter().enumerate().filter(|(_, i)| i.is_some()).map(|(k, _)| k).collect();
    let mut out = vec![];
    let retype = |assign: &[(usize, Dt)]| {
        let mut c = case.clone();
        for (k, dt) in assign {
            c.inputs[*k].as_mut().unwrap().dt = *dt;
        }
        c
    };
    if slots.len() <= 3 {
        let n = 4usize.pow(slots.len() as u32);
        for code in 0..n {
            let mut c = code;
            let assign: Vec<(usize, Dt)> = slots
                .iter()
                .map(|&k| {
                    let d = ALL_DT[c % 4];
                    c /= 4;
                    (k, d)
                })
                .collect();
            out.push(retype(&assign));
        }
    } else {
        let data_slots: Vec<usize> = slots.iter().copied().filter(|&k| !case.inputs[k].as_ref().unwrap().shape_like).collect();
        for dt in ALL_DT {
            out.push(retype(&data_slots.iter().map(|&k| (k, dt)).collect::<Vec<_>>()));
            for &k in &slots {
                out.push(retype(&[(k, dt)]));
            }
        }
    }
    out
}

// ---------------------------------------------------------------------------
// Multi-operator graphs
// ---------------------------------------------------------------------------

#[derive(Clone)]
struct Val {
    dt: Dt,
    seq: bool,
    ew: bool, // a [2,3] tensor usable by elementwise ops
}

struct GOp {
    key: &'static str,
    sig: Vec<(String, String)>,
    node: Node,
    ins: Vec<usize>,
    outs: Vec<usize>,
}

fn graph_case(cx: &mut Ctx, rng: &mut Rng, tag: &str) {
    // graph inputs: v0,v1 data tensors [2,3]; v2 = f32 scalar (scale); v3 = i32 scalar (index / k)
    let mut vals: Vec<Val> = vec![];
    let d0 = *rng.pick(&ALL_DT);
    let d1 = *rng.pick(&ALL_DT);
    vals.push(Val { dt: d0, seq: false, ew: true });
    vals.push(Val { dt: d1, seq: false, ew: true });
    vals.push(Val { dt: Dt::F32, seq: false, ew: false });
    vals.push(Val { dt: Dt::I32, seq: false, ew: false });
    let n_inputs = vals.len();
    let undeclared_input = if rng.chance(1, 5) { Some(rng.usize_below(2)) } else { None };
    let mut ops: Vec<GOp> = vec![];
    let n_ops = 2 + rng.usize_below(5);
    let name = |i: usize| format!("v{i}");
    for _ in 0..n_ops {
        let ew: Vec<usize> = (0..vals.len()).filter(|&i| vals[i].ew && !vals[i].seq).collect();
        let x = *rng.pick(&ew);
        let dx = vals[x].dt;
        let same: Vec<usize> = ew.iter().copied().filter(|&i| vals[i].dt == dx).collect();
        let y = *rng.pick(&same);
        let o = vals.len();
        let mut push1 = |vals: &mut Vec<Val>, v: Val| {
            vals.push(v);
        };
        let choice = rng.below(16);
        let tv = |dt: Dt| Val { dt, seq: false, ew: true };
        match choice {
            0 => {
                ops.push(GOp { key: "Identity", sig: vec![], node: Node::new("Identity", "", &[&name(x)], &[&name(o)]), ins: vec![x], outs: vec![o] });
                push1(&mut vals, tv(dx));
            }
            1 if matches!(dx, Dt::F32 | Dt::I32) => {
                let k = *rng.pick(&["Abs", "Neg"]);
                ops.push(GOp { key: k, sig: vec![], node: Node::new(k, "", &[&name(x)], &[&name(o)]), ins: vec![x], outs: vec![o] });
                push1(&mut vals, tv(dx));
            }
            2 if dx == Dt::F32 => {
                let k = *rng.pick(&["Relu", "Sigmoid", "IsNaN"]);
                ops.push(GOp { key: k, sig: vec![], node: Node::new(k, "", &[&name(x)], &[&name(o)]), ins: vec![x], outs: vec![o] });
                push1(&mut vals, tv(if k == "IsNaN" { Dt::I32 } else { Dt::F32 }));
            }
            3 | 4 | 5 => {
                let to = *rng.pick(&ALL_DT);
                let node = Node::new("Cast", "", &[&name(x)], &[&name(o)]).attr("to", onnx_enc::Attr::Int(to.onnx() as i64));
                ops.push(GOp { key: "Cast", sig: vec![("to".into(), to.name().into())], node, ins: vec![x], outs: vec![o] });
                push1(&mut vals, tv(to));
            }
            6 if matches!(dx, Dt::F32 | Dt::I32) => {
                let k = *rng.pick(&["Equal", "Less", "Greater"]);
                ops.push(GOp { key: k, sig: vec![], node: Node::new(k, "", &[&name(x), &name(y)], &[&name(o)]), ins: vec![x, y], outs: vec![o] });
                push1(&mut vals, tv(Dt::I32));
            }
            7 if matches!(dx, Dt::F32 | Dt::I32) => {
                let k = *rng.pick(&["Add", "Mul", "Sub"]);
                ops.push(GOp { key: k, sig: vec![], node: Node::new(k, "", &[&name(x), &name(y)], &[&name(o)]), ins: vec![x, y], outs: vec![o] });
                push1(&mut vals, tv(dx));
            }
            8 => {
                // Where(cond, x, y): cond must be int32
                let conds: Vec<usize> = ew.iter().copied().filter(|&i| vals[i].dt == Dt::I32).collect();
                if let Some(&c) = conds.first() {
                    ops.push(GOp {
                        key: "Where",
                        sig: vec![],
                        node: Node::new("Where", "", &[&name(c), &name(x), &name(y)], &[&name(o)]),
                        ins: vec![c, x, y],
                        outs: vec![o],
                    });
                    push1(&mut vals, tv(dx));
                }
            }
            9 => {
                let like = *rng.pick(&ew);
                ops.push(GOp {
                    key: "CastLike",
                    sig: vec![],
                    node: Node::new("CastLike", "", &[&name(x), &name(like)], &[&name(o)]),
                    ins: vec![x, like],
                    outs: vec![o],
                });
                let d = vals[like].dt;
                push1(&mut vals, tv(d));
            }
            10 if dx == Dt::F32 => {
                ops.push(GOp {
                    key: "DynamicQuantizeLinear",
                    sig: vec![],
                    node: Node::new("DynamicQuantizeLinear", "", &[&name(x)], &[&name(o), &name(o + 1), &name(o + 2)]),
                    ins: vec![x],
                    outs: vec![o, o + 1, o + 2],
                });
                push1(&mut vals, tv(Dt::U8));
                push1(&mut vals, Val { dt: Dt::F32, seq: false, ew: false });
                push1(&mut vals, Val { dt: Dt::U8, seq: false, ew: false });
            }
            11 if matches!(dx, Dt::U8 | Dt::I8 | Dt::I32) => {
                ops.push(GOp {
                    key: "DequantizeLinear",
                    sig: vec![],
                    node: Node::new("DequantizeLinear", "", &[&name(x), &name(2)], &[&name(o)]),
                    ins: vec![x, 2],
                    outs: vec![o],
                });
                push1(&mut vals, tv(Dt::F32));
            }
            12 => {
                // SequenceConstruct then SequenceAt
                ops.push(GOp {
                    key: "SequenceConstruct",
                    sig: vec![],
                    node: Node::new("SequenceConstruct", "", &[&name(x), &name(y)], &[&name(o)]),
                    ins: vec![x, y],
                    outs: vec![o],
                });
                push1(&mut vals, Val { dt: dx, seq: true, ew: false });
                ops.push(GOp {
                    key: "SequenceAt",
                    sig: vec![],
                    node: Node::new("SequenceAt", "", &[&name(o), &name(3)], &[&name(o + 1)]),
                    ins: vec![o, 3],
                    outs: vec![o + 1],
                });
                push1(&mut vals, tv(dx));
            }
            13 => {
                let k = *rng.pick(&["Shape", "Size", "NonZero"]);
                ops.push(GOp { key: k, sig: vec![], node: Node::new(k, "", &[&name(x)], &[&name(o)]), ins: vec![x], outs: vec![o] });
                push1(&mut vals, Val { dt: Dt::I32, seq: false, ew: false });
            }
            14 => {
                let node = Node::new("Split", "", &[&name(x)], &[&name(o), &name(o + 1)])
                    .attr("axis", onnx_enc::Attr::Int(0))
                    .attr("num_outputs", onnx_enc::Attr::Int(2));
                ops.push(GOp { key: "Split", sig: vec![], node, ins: vec![x], outs: vec![o, o + 1] });
                push1(&mut vals, Val { dt: dx, seq: false, ew: false });
                push1(&mut vals, Val { dt: dx, seq: false, ew: false });
            }
            15 if matches!(dx, Dt::F32 | Dt::I32) => {
                let node = Node::new("ArgMax", "", &[&name(x)], &[&name(o)]).attr("axis", onnx_enc::Attr::Int(1));
                ops.push(GOp { key: "ArgMax", sig: vec![], node, ins: vec![x], outs: vec![o] });
                push1(&mut vals, Val { dt: Dt::I32, seq: false, ew: false });
            }
            _ => {}
        }
    }
    if ops.is_empty() {
        return;
    }
    // declared value_infos for a few intermediate values (correct types; tensors only)
    let mut declared: BTreeMap<usize, Dt> = BTreeMap::new();
    for i in 0..n_inputs {
        if Some(i) != undeclared_input {
            declared.insert(i, vals[i].dt);
        }
    }
    // (every non-input value is a graph output, and the loader takes the metadata of a graph
    // output from the output entry, so the declaration goes there)
    let value_infos = vec![];
    for i in n_inputs..vals.len() {
        if !vals[i].seq && rng.chance(1, 6) {
            declared.insert(i, vals[i].dt);
        }
    }
    let shapes: [&[i64]; 4] = [&[2, 3], &[2, 3], &[], &[]];
    let g = Graph {
        nodes: ops.iter().map(|o| o.node.clone()).collect(),
        inputs: (0..n_inputs)
            .map(|i| {
                if Some(i) == undeclared_input {
                    ValueInfo::new(&name(i), 0, None)
                } else {
                    ValueInfo::fixed(&name(i), vals[i].dt.onnx(), shapes[i])
                }
            })
            .collect(),
        outputs: (n_inputs..vals.len())
            .map(|i| ValueInfo::new(&name(i), declared.get(&i).map(|d| d.onnx()).unwrap_or(0), None))
            .collect(),
        value_infos,
        ..Default::default()
    };
    let req = format!(
        "graph decl={} ops={} id={}",
        hcommon::join(declared.iter().map(|(i, d)| format!("{i}:{}", d.name())), ","),
        hcommon::join(
            ops.iter().map(|o| {
                format!(
                    "{}/{}/{}/{}",
                    o.key,
                    if o.sig.is_empty() { "-".to_string() } else { hcommon::join(o.sig.iter().map(|(k, v)| format!("{k}={v}")), ",") },
                    hcommon::join(o.ins.iter(), ","),
                    hcommon::join(o.outs.iter(), ",")
                )
            }),
            ";"
        ),
        tag
    );
    let bytes = encode_model(&g);
    let res = hcommon::catch(|| {
        let mut opts = ModelOptions::with_all_ops();
        opts.enable_optimization(false);
        let model = opts.load(bytes).map_err(|e| format!("load: {e}"))?;
        let infer = rv::infer_shapes(model.verif_graph(), rv::InferShapeOptions::default()).map_err(|e| format!("{e}"))?;
        let mut labels: BTreeMap<usize, ValueType> = BTreeMap::new();
        for i in 0..vals.len() {
            if let Some(id) = model.find_node(&name(i)) {
                if let Some(t) = infer.types.get(&id) {
                    labels.insert(i, *t);
                }
            }
        }
        // run
        let mut ins: Vec<(rten::NodeId, rten::ValueOrView)> = vec![];
        for i in 0..n_inputs {
            let v: Value = match i {
                2 => fsc(0.5).unwrap().value(),
                3 => isc(1).unwrap().value(),
                _ => {
                    let mut r2 = Rng::new(i as u64 + 7);
                    data(&mut r2, vals[i].dt, &[2, 3]).unwrap().value()
                }
            };
            ins.push((model.node_id(&name(i)).map_err(|e| format!("{e}"))?, v.into()));
        }
        let out_ids: Vec<_> = (n_inputs..vals.len()).map(|i| model.node_id(&name(i)).unwrap()).collect();
        let outs = model.run(ins, &out_ids, None).map_err(|e| format!("{e}"));
        Ok::<_, String>((labels, outs))
    });
    match res {
        Ok(Ok((labels, outs))) => {
            let ans = hcommon::join(labels.iter().map(|(i, t)| format!("{i}:{}", vt_name(*t))), ",");
            let mut fail = None;
            match &outs {
                Ok(vs) => {
                    cx.out.bucket("graph_run_ok");
                    for (k, v) in vs.iter().enumerate() {
                        let i = n_inputs + k;
                        if let Some(l) = labels.get(&i) {
                            if *l != v.dtype() {
                                fail = Some(format!("value v{i}: label {} but run-time type {}", vt_name(*l), vt_name(v.dtype())));
                            }
                        }
                    }
                }
                Err(_) => cx.out.bucket("graph_run_err"),
            }
            cx.out.bucket(&format!("graph_ops{}", ops.len()));
            cx.out.case(&req, if ans.is_empty() { "-" } else { &ans }, fail.as_deref(), outs.is_ok());
        }
        Ok(Err(e)) => {
            cx.out.bucket("graph_load_err");
            cx.out.note(&format!("graph load error: {e}"));
        }
        Err(p) => {
            cx.out.bucket("graph_panic");
            cx.out.case(&req, &format!("panic {p}"), None, false);
        }
    }
}

// ---------------------------------------------------------------------------
// CastElimination
// ---------------------------------------------------------------------------

fn castelim_case(cx: &mut Ctx, pre: Option<&'static str>, decl: Option<Dt>, actual: Dt, to: Dt) {
    let mut nodes = vec![];
    let src = if let Some(p) = pre {
        nodes.push(Node::new(p, "pre", if matches!(p, "Equal" | "Add") { &["x", "x"] } else { &["x"] }, &["m"]));
        "m"
    } else {
        "x"
    };
    nodes.push(Node::new("Cast", "cast", &[src], &["y"]).attr("to", onnx_enc::Attr::Int(to.onnx() as i64)));
    // a consumer so that `y` is not merely a renamed graph input
    nodes.push(Node::new("Identity", "post", &["y"], &["z"]));
    let g = Graph {
        nodes,
        inputs: vec![match decl {
            Some(d) => ValueInfo::fixed("x", d.onnx(), &[2, 3]),
            None => ValueInfo::new("x", 0, None),
        }],
        outputs: vec![ValueInfo::new("z", 0, None)],
        ..Default::default()
    };
    let req = format!(
        "castelim pre={} decl={} to={} actual={}",
        pre.unwrap_or("-"),
        decl.map(|d| d.name()).unwrap_or("?"),
        to.name(),
        actual.name()
    );
    let mut r = Rng::new(99);
    let x = data(&mut r, actual, &[2, 3]).unwrap().value();
    castelim_run(cx, &req, &g, vec![("x".to_string(), x)]);
}

/// `QuantizeLinear(x, scale, zero_point) -> Cast(to)`: the label of the quantized value comes from
/// QuantizeLinear's declared rule.
fn quant_cast_case(cx: &mut Ctx, zp: Dt, to: Dt) {
    let nodes = vec![
        Node::new("QuantizeLinear", "pre", &["x", "s", "zp"], &["m"]),
        Node::new("Cast", "cast", &["m"], &["y"]).attr("to", onnx_enc::Attr::Int(to.onnx() as i64)),
        Node::new("Identity", "post", &["y"], &["z"]),
    ];
    let g = Graph {
        nodes,
        inputs: vec![
            ValueInfo::fixed("x", Dt::F32.onnx(), &[2, 3]),
            ValueInfo::fixed("s", Dt::F32.onnx(), &[]),
            ValueInfo::fixed("zp", zp.onnx(), &[]),
        ],
        outputs: vec![ValueInfo::new("z", 0, None)],
        ..Default::default()
    };
    let req = format!("castelim pre=QuantizeLinear decl=float to={} actual=float zp={}", to.name(), zp.name());
    let mut r = Rng::new(99);
    let feed = vec![
        ("x".to_string(), f(&mut r, &[2, 3]).unwrap().value()),
        ("s".to_string(), fsc(0.25).unwrap().value()),
        ("zp".to_string(), data(&mut r, zp, &[]).unwrap().value()),
    ];
    castelim_run(cx, &req, &g, feed);
}

/// `Cast(to)` behind output `slot` of a multi-output operator whose other outputs are unconnected.
fn multi_cast_case(cx: &mut Ctx, op: &'static str, n_out: usize, slot: usize, actual: Dt, to: Dt) {
    let outs: Vec<&str> = (0..n_out).map(|j| if j == slot { "m" } else { "" }).collect();
    let (ins, extra): (Vec<&str>, Option<ValueInfo>) = match op {
        "TopK" => (vec!["x", "k"], Some(ValueInfo::fixed("k", 7, &[1]))),
        _ => (vec!["x"], None),
    };
    let mut pre = Node::new(op, "pre", &ins, &outs);
    if op == "Split" {
        pre = pre.attr("num_outputs", onnx_enc::Attr::Int(n_out as i64)).attr("axis", onnx_enc::Attr::Int(0));
    }
    let nodes = vec![
        pre,
        Node::new("Cast", "cast", &["m"], &["y"]).attr("to", onnx_enc::Attr::Int(to.onnx() as i64)),
        Node::new("Identity", "post", &["y"], &["z"]),
    ];
    let mut inputs = vec![ValueInfo::fixed("x", actual.onnx(), &[2, 3])];
    inputs.extend(extra);
    let g = Graph { nodes, inputs, outputs: vec![ValueInfo::new("z", 0, None)], ..Default::default() };
    let req = format!("castelim pre={op} decl={} to={} actual={} nout={n_out} slot={slot}", actual.name(), to.name(), actual.name());
    let mut r = Rng::new(99);
    let mut feed = vec![("x".to_string(), data(&mut r, actual, &[2, 3]).unwrap().value())];
    if op == "TopK" {
        feed.push(("k".to_string(), iv(&[1]).unwrap().value()));
    }
    castelim_run(cx, &req, &g, feed);
}

/// A *lying* intermediate `value_info` in front of a Cast: `x -> Identity -> m -> Cast(to) -> Identity`,
/// where `value_info(m)` declares `lie`. `x_declared = true`: the inferred label (CopyFromInput)
/// overwrites the lie and everything must stay correct (full oracle). `x_declared = false`: no label
/// can be inferred, the optimizer trusts the declaration: `StaticSound` is violated by construction,
/// the case documents what then happens (no PROPFAIL; the model must predict the same decision).
fn lying_value_info_case(cx: &mut Ctx, x_declared: bool, actual: Dt, lie: Dt, to: Dt) {
    let nodes = vec![
        Node::new("Identity", "pre", &["x"], &["m"]),
        Node::new("Cast", "cast", &["m"], &["y"]).attr("to", onnx_enc::Attr::Int(to.onnx() as i64)),
        Node::new("Identity", "post", &["y"], &["z"]),
    ];
    let g = Graph {
        nodes,
        inputs: vec![if x_declared { ValueInfo::fixed("x", actual.onnx(), &[2, 3]) } else { ValueInfo::new("x", 0, None) }],
        outputs: vec![ValueInfo::new("z", 0, None)],
        value_infos: vec![ValueInfo::new("m", lie.onnx(), None)],
        ..Default::default()
    };
    let req = format!(
        "castelim pre=Identity decl={} to={} actual={} lie={}",
        if x_declared { actual.name() } else { "?" },
        to.name(),
        actual.name(),
        lie.name()
    );
    let mut r = Rng::new(99);
    let feed = vec![("x".to_string(), data(&mut r, actual, &[2, 3]).unwrap().value())];
    let sound = x_declared || lie == actual;
    castelim_run_opt(cx, &req, &g, feed, sound);
}

fn castelim_run(cx: &mut Ctx, req: &str, g: &Graph, feed: Vec<(String, Value)>) {
    castelim_run_opt(cx, req, g, feed, true)
}

/// `static_sound = false`: the declared metadata lies about the execution; the optimized /
/// unoptimized comparison is recorded in a bucket instead of being a property failure.
fn castelim_run_opt(cx: &mut Ctx, req: &str, g: &Graph, feed: Vec<(String, Value)>, static_sound: bool) {
    let bytes = encode_model(g);
    let res = hcommon::catch(|| {
        let load = |optimize: bool| {
            let mut o = ModelOptions::with_all_ops();
            o.enable_optimization(optimize);
            o.load(bytes.clone()).map_err(|e| format!("load: {e}"))
        };
        let opt = load(true)?;
        let plain = load(false)?;
        let n_cast = opt
            .verif_graph()
            .iter()
            .filter(|(_, n)| matches!(n, rv::Node::Operator(op) if op.operator().name() == "Cast"))
            .count();
        let run = |m: &rten::Model| {
            let ins: Vec<(rten::NodeId, rten::ValueOrView)> =
                feed.iter().map(|(n, v)| (m.node_id(n).unwrap(), v.clone().into())).collect();
            m.run(ins, &[m.node_id("z").unwrap()], None).map_err(|e| format!("{e}"))
        };
        Ok::<_, String>((n_cast, run(&opt), run(&plain)))
    });
    match res {
        Ok(Ok((n_cast, a, b))) => {
            let ans = format!("elim={}", (n_cast == 0) as u8);
            let mut fail = None;
            match (&a, &b) {
                (Ok(a), Ok(b)) => {
                    let same = a.len() == b.len()
                        && a.iter().zip(b).all(|(p, q)| p.dtype() == q.dtype() && format!("{p:?}") == format!("{q:?}"));
                    if !same && !static_sound {
                        cx.out.bucket("lying_value_info_changed_output");
                    } else if !same {
                        fail = Some(format!(
                            "optimized graph output differs from unoptimized: {} vs {}",
                            a.first().map(|v| vt_name(v.dtype())).unwrap_or_default(),
                            b.first().map(|v| vt_name(v.dtype())).unwrap_or_default()
                        ));
                    }
                    cx.out.bucket("castelim_both_ran");
                }
                (Err(_), Err(_)) => cx.out.bucket("castelim_both_failed"),
                _ => {
                    fail = Some("optimized and unoptimized graphs disagree on success".to_string());
                }
            }
            cx.out.bucket(if n_cast == 0 { "castelim_removed" } else { "castelim_kept" });
            cx.out.case(req, &ans, fail.as_deref(), true);
        }
        Ok(Err(e)) => cx.out.note(&format!("castelim load error {e}")),
        Err(p) => cx.out.case(req, &format!("panic {p}"), None, false),
    }
}

fn run(args: &Args) {
    let mut cx = Ctx { out: Out::new(&args.out), seen_rules: HashSet::new(), executed_ok: BTreeMap::new(), never_ok: BTreeMap::new() };
    let mut rng = Rng::new(args.seed);
    let reps = if args.thorough { 12 } else { 2 };
    for rep in 0..reps {
        let cases = gen_cases(&mut rng);
        for (ci, case) in cases.iter().enumerate() {
            one_case(&mut cx, case, &format!("{rep}.{ci}.b"));
            for (vi, var) in dtype_variants(case).iter().enumerate() {
                one_case(&mut cx, var, &format!("{rep}.{ci}.{vi}"));
            }
            // every "which outputs are connected" pattern of a multi-output operator
            if case.n_out >= 2 && case.n_out <= 3 {
                for m in 1..(1u32 << case.n_out) - 1 {
                    let mut c = case.clone();
                    c.skip_outs = (0..case.n_out).filter(|j| m & (1 << j) == 0).collect();
                    one_case(&mut cx, &c, &format!("{rep}.{ci}.m{m}"));
                    // and with every dtype of the first input
                    for dt in ALL_DT {
                        let mut c2 = c.clone();
                        if let Some(Some(i0)) = c2.inputs.first_mut().map(|i| i.as_mut()) {
                            if i0.seq.is_none() {
                                i0.dt = dt;
                                one_case(&mut cx, &c2, &format!("{rep}.{ci}.m{m}.{}", dt.name()));
                            }
                        }
                    }
                }
            }
        }
    }
    let n_graphs = if args.thorough { 20_000 } else { 2_000 };
    for gi in 0..n_graphs {
        graph_case(&mut cx, &mut rng, &format!("g{gi}"));
    }
    // CastElimination: complete over (declared?, dtype, target) with and without a producing operator
    for pre in [None, Some("Identity"), Some("Abs"), Some("Equal"), Some("Add"), Some("NonZero"), Some("IsNaN")] {
        for actual in ALL_DT {
            for declared in [true, false] {
                for to in ALL_DT {
                    castelim_case(&mut cx, pre, if declared { Some(actual) } else { None }, actual, to);
                }
            }
        }
    }
    for zp in [Dt::U8, Dt::I8] {
        for to in ALL_DT {
            quant_cast_case(&mut cx, zp, to);
        }
    }
    for x_declared in [true, false] {
        for actual in ALL_DT {
            for lie in ALL_DT {
                for to in ALL_DT {
                    lying_value_info_case(&mut cx, x_declared, actual, lie, to);
                }
            }
        }
    }
    for (op, n_out) in [("TopK", 2usize), ("DynamicQuantizeLinear", 3), ("Dropout", 2), ("Split", 2)] {
        for slot in 0..n_out {
            for actual in [Dt::F32, Dt::I32] {
                for to in ALL_DT {
                    multi_cast_case(&mut cx, op, n_out, slot, actual, to);
                }
            }
        }
    }
    let ok_ops: Vec<String> = cx.executed_ok.keys().cloned().collect();
    cx.out.note(&format!("operators executed successfully at least once ({}): {}", ok_ops.len(), ok_ops.join(" ")));
    let never: Vec<String> = cx
        .never_ok
        .iter()
        .filter(|(k, _)| !cx.executed_ok.contains_key(*k))
        .map(|(k, e)| format!("{k} [{e}]"))
        .collect();
    cx.out.note(&format!("operators never executed successfully ({}): {}", never.len(), never.join("; ")));
    cx.out.finish(
        "single-operator ONNX models for every registry operator with a recipe x complete dtype cross product of the tensor inputs (<=3 inputs) \
         or joint + single-slot re-typing (>3 inputs) x attribute variants (Cast/EyeLike/ConstantOfShape/QuantizeLinear/SequenceEmpty targets); \
         random multi-operator graphs (2-7 ops, tensors and sequences, some undeclared inputs and declared intermediates); \
         complete CastElimination matrix; non-trivial = the operator / graph executed successfully; distinct by request text",
    );
}
