//! C10: shape inference never contradicts execution.
//!
//! For every operator that offers `as_infer_shapes` a concrete case (shapes, values, attributes) is
//! generated first, then *abstracted*: dimensions and shape-carrying integer values are replaced at
//! random by symbols / small symbolic expressions whose value under the assignment sigma is the
//! concrete number.  The real `InferShapes` object of the real operator (fetched from a single-op
//! model loaded from bytes) is applied to the symbolic inputs, the real operator is executed on
//! the concrete inputs, and every claim of the inference is checked against the execution:
//! rank, every dimension (fixed, or symbolic evaluated under sigma), every element of a
//! scalar/vector value.  Any disagreement is a PROPFAIL.
//!
//! Request: `inf <Key> <attr=val,..|-> | <tensor> | <tensor> ..`  with tensors `S(e)` scalar,
//! `V(e,..)` vector, `H(e,..)` shape only, `U` unknown, `_` missing; expressions `3`, `$x`
//! (non-negative symbol), `%x` (unrestricted), `n(e)`, `a(e,e)`, `s(e,e)`, `m(e,e)`, `d(e,e)`,
//! `c(e,e)` (ceil-div), `x(e,e)` max, `i(e,e)` min, `b(e,e)` broadcast.
//! Answer: `ok <tensor>;..` or `err:<class>`; the Lean model answers `skip` for rules it does not model.
#[path = "../onnx_enc.rs"]
mod onnx_enc;
#[path = "../op_cases.rs"]
mod op_cases;
use hcommon::{Args, Out, Rng};
use onnx_enc::Attr;
use op_cases::*;
use rten::Value;
use rten_shape_inference::{InferShapesContext, SymExpr, SymTensor, Symbol, SymbolGen, SymbolMap};
use rten_tensor::prelude::*;
use std::collections::BTreeMap;

fn main() {
    let args = hcommon::parse_args();
    hcommon::quiet_panics();
    run(&args)
}

fn expr_text(e: &SymExpr) -> String {
    let bin = |t: &str, a: &SymExpr, b: &SymExpr| format!("{t}({},{})", expr_text(a), expr_text(b));
    match e {
        SymExpr::Value(v) => format!("{v}"),
        SymExpr::Var(s) => format!("{}{}", if s.positive { "$" } else { "%" }, s.name),
        SymExpr::Neg(a) => format!("n({})", expr_text(a)),
        SymExpr::Add(a, b) => bin("a", a, b),
        SymExpr::Sub(a, b) => bin("s", a, b),
        SymExpr::Mul(a, b) => bin("m", a, b),
        SymExpr::Div(a, b) => bin("d", a, b),
        SymExpr::DivCeil(a, b) => bin("c", a, b),
        SymExpr::Max(a, b) => bin("x", a, b),
        SymExpr::Min(a, b) => bin("i", a, b),
        SymExpr::Broadcast(a, b) => bin("b", a, b),
    }
}

fn tensor_text(t: &SymTensor) -> String {
    if let Some(s) = t.as_scalar() {
        format!("S({})", expr_text(s))
    } else if let Some(v) = t.as_vector() {
        format!("V({})", hcommon::join(v.iter().map(expr_text), ","))
    } else if let Some(sh) = t.shape() {
        format!("H({})", hcommon::join(sh.map(|e| expr_text(&e)), ","))
    } else {
        "U".to_string()
    }
}

/// Symbol table of one case: name -> (value, positive).
#[derive(Default)]
struct Sigma {
    syms: Vec<(String, i32, bool)>,
}

impl Sigma {
    fn fresh(&mut self, v: i32, positive: bool) -> SymExpr {
        let name = format!("s{}", self.syms.len());
        self.syms.push((name.clone(), v, positive));
        SymExpr::Var(Symbol { name, positive, synthetic: false }.into())
    }
    /// A symbol with value `v`: reuse an existing one with the same value and sign class sometimes.
    fn sym(&mut self, rng: &mut Rng, v: i32, positive: bool) -> SymExpr {
        let same: Vec<usize> = (0..self.syms.len()).filter(|&i| self.syms[i].1 == v && self.syms[i].2 == positive).collect();
        if !same.is_empty() && rng.chance(1, 2) {
            let (n, _, p) = &self.syms[*rng.pick(&same)];
            return SymExpr::Var(Symbol { name: n.clone(), positive: *p, synthetic: false }.into());
        }
        self.fresh(v, positive)
    }
    fn dim(&mut self, rng: &mut Rng, d: usize, sym_prob: u64) -> SymExpr {
        if rng.below(100) < sym_prob {
            self.sym(rng, d as i32, true)
        } else {
            SymExpr::Value(d as i32)
        }
    }
    /// An expression whose value is `v`.
    fn value_expr(&mut self, rng: &mut Rng, v: i32, sym_prob: u64) -> SymExpr {
        if rng.below(100) >= sym_prob {
            return SymExpr::Value(v);
        }
        match rng.below(9) {
            7 | 8 => self.minmax_expr(rng, v, 2),
            0 | 1 if v >= 0 => self.sym(rng, v, true),
            2 => self.sym(rng, v, false),
            3 if v <= 0 => -self.sym(rng, -v, true),
            4 => {
                let c = rng.range_i64(-2, 2) as i32;
                let pos = v - c >= 0 && rng.chance(1, 2);
                self.sym(rng, v - c, pos) + SymExpr::Value(c)
            }
            5 if v <= 0 => self.sym(rng, -v, true) * SymExpr::Value(-1),
            6 if v >= 0 => {
                let k = 1 + rng.range_i64(0, 2) as i32;
                self.sym(rng, v * k, true) / SymExpr::Value(k)
            }
            _ => SymExpr::Value(v),
        }
    }
    /// An expression containing `min` / `max` nodes whose value is `v`: `min(sym, const)`,
    /// `max(sym, const)`, nested min/max, sums and products of those, with the symbol instantiated
    /// at the boundary (the constant itself, +-1 around it, 0). These arise from Slice / Clip / Pad
    /// arithmetic on shapes; folds based on `range()` must stay sound on them.
    fn minmax_expr(&mut self, rng: &mut Rng, v: i32, depth: u32) -> SymExpr {
        let mut sym_for = |sg: &mut Sigma, rng: &mut Rng, val: i32| {
            let positive = val >= 0 && rng.chance(3, 4);
            sg.sym(rng, val, positive)
        };
        match rng.below(if depth == 0 { 4 } else { 8 }) {
            0 => {
                // min(s, c) with s = v <= c
                let c = v + *rng.pick(&[0, 1, 2, 100]);
                let s = sym_for(self, rng, v);
                if rng.chance(1, 2) { s.min(&SymExpr::Value(c)) } else { SymExpr::Value(c).min(&s) }
            }
            1 => {
                // min(s, c) with c = v <= s
                let sv = v + *rng.pick(&[0, 1, 3]);
                let s = sym_for(self, rng, sv);
                s.min(&SymExpr::Value(v))
            }
            2 => {
                // max(s, c) with s = v >= c
                let c = v - *rng.pick(&[0, 1, 2, 100]);
                let s = sym_for(self, rng, v);
                if rng.chance(1, 2) { s.max(&SymExpr::Value(c)) } else { SymExpr::Value(c).max(&s) }
            }
            3 => {
                // max(s, c) with c = v >= s
                let sv = if v >= 0 && rng.chance(1, 3) { 0 } else { v - *rng.pick(&[0, 1, 3]) };
                let s = sym_for(self, rng, sv);
                s.max(&SymExpr::Value(v))
            }
            4 => {
                // nested: min(max-form, c2) / max(min-form, c2)
                let inner = self.minmax_expr(rng, v, depth - 1);
                if rng.chance(1, 2) {
                    inner.min(&SymExpr::Value(v + *rng.pick(&[0, 1, 5])))
                } else {
                    inner.max(&SymExpr::Value(v - *rng.pick(&[0, 1, 5])))
                }
            }
            5 => {
                let k = rng.range_i64(-2, 2) as i32;
                self.minmax_expr(rng, v - k, depth - 1) + SymExpr::Value(k)
            }
            6 => {
                let k = *rng.pick(&[1i32, 2, -1]);
                if v % k == 0 {
                    self.minmax_expr(rng, v / k, depth - 1) * SymExpr::Value(k)
                } else {
                    self.minmax_expr(rng, v, depth - 1)
                }
            }
            _ => {
                // min of two symbols / max of two symbols
                let other = v + *rng.pick(&[0, 1, 2]);
                let a = sym_for(self, rng, v);
                let b = sym_for(self, rng, other);
                if rng.chance(1, 2) { a.min(&b) } else { b.min(&a) }
            }
        }
    }
    fn map(&self) -> Vec<(&str, i32)> {
        self.syms.iter().map(|(n, v, _)| (n.as_str(), *v)).collect()
    }
    fn text(&self) -> String {
        hcommon::join(self.syms.iter().map(|(n, v, _)| format!("{n}={v}")), ",")
    }
}

/// `focus`: `Some(true)` = every element becomes a min/max expression, `Some(false)` = every
/// element stays a constant (used to confront range-based folds with boundary constants).
fn abstract_input(rng: &mut Rng, sg: &mut Sigma, inp: &Inp, sym_prob: u64, focus: Option<bool>) -> SymTensor {
    if inp.seq.is_some() {
        return SymTensor::unknown("sequence");
    }
    if let Some(minmax) = focus {
        if inp.shape.len() <= 1 && inp.vals.iter().all(|v| v.fract() == 0.0) {
            let vals: Vec<SymExpr> = inp
                .vals
                .iter()
                .map(|&v| if minmax { sg.minmax_expr(rng, v as i32, 2) } else { SymExpr::Value(v as i32) })
                .collect();
            return if inp.shape.is_empty() { SymTensor::from_scalar(vals.into_iter().next().unwrap()) } else { SymTensor::from_vec(vals) };
        }
    }
    if rng.chance(1, 25) {
        return SymTensor::unknown("harness");
    }
    let int_valued = inp.dt != Dt::F32 || inp.vals.iter().all(|v| v.fract() == 0.0);
    if inp.shape.len() <= 1 && int_valued && (inp.shape_like || rng.chance(1, 2)) && !(inp.shape_like && rng.chance(1, 8)) {
        let vals: Vec<SymExpr> = inp.vals.iter().map(|&v| sg.value_expr(rng, v as i32, sym_prob)).collect();
        if inp.shape.is_empty() {
            return SymTensor::from_scalar(vals.into_iter().next().unwrap());
        }
        return SymTensor::from_vec(vals);
    }
    SymTensor::from_shape(inp.shape.iter().map(|&d| sg.dim(rng, d, sym_prob)).collect())
}

fn attrs_text(case: &Case) -> String {
    let parts: Vec<String> = case
        .attrs
        .iter()
        .filter_map(|(n, a)| match a {
            Attr::Int(v) => Some(format!("{n}={v}")),
            Attr::Ints(v) => Some(format!("{n}={}", hcommon::join(v.iter(), ":"))),
            Attr::Str(v) if !v.contains([' ', ',', '|', '#']) => Some(format!("{n}={v}")),
            Attr::Tensor(t) => match (&t.data, t.dtype) {
                (onnx_enc::TensorData::Raw(b), 7) if b.len() == 8 => Some(format!("{n}={}", i64::from_le_bytes(b[..8].try_into().unwrap()))),
                (onnx_enc::TensorData::Raw(b), 6) if b.len() == 4 => Some(format!("{n}={}", i32::from_le_bytes(b[..4].try_into().unwrap()))),
                _ => None,
            },
            _ => None,
        })
        .collect();
    if parts.is_empty() {
        "-".into()
    } else {
        parts.join(",")
    }
}

/// Concrete view of a produced output: shape and (for integer-valued tensors) the elements.
fn concrete(v: &Value) -> (Vec<usize>, Option<Vec<i64>>) {
    match v {
        Value::Int32Tensor(t) => (t.shape().to_vec(), Some(t.iter().map(|&x| x as i64).collect())),
        Value::Int8Tensor(t) => (t.shape().to_vec(), Some(t.iter().map(|&x| x as i64).collect())),
        Value::UInt8Tensor(t) => (t.shape().to_vec(), Some(t.iter().map(|&x| x as i64).collect())),
        Value::FloatTensor(t) => {
            let vals: Option<Vec<i64>> = t.iter().map(|&x| if x.fract() == 0.0 && x.abs() < 1e9 { Some(x as i64) } else { None }).collect();
            (t.shape().to_vec(), vals)
        }
        _ => (vec![], None),
    }
}

/// The oracle: does the inferred tensor contradict the produced one under sigma?
fn contradiction(inferred: &SymTensor, sg: &Sigma, out: &Value) -> Option<String> {
    if matches!(out, Value::Sequence(_)) {
        return None;
    }
    let m = sg.map();
    let smap = SymbolMap::new(&m);
    let (shape, vals) = concrete(out);
    if let Some(nd) = inferred.ndim() {
        if nd != shape.len() {
            return Some(format!("inferred rank {nd} but executed output has shape {shape:?}"));
        }
    }
    if let Some(dims) = inferred.shape() {
        for (i, d) in dims.enumerate() {
            match d.eval(&smap) {
                Ok(v) => {
                    if v as i64 != shape[i] as i64 {
                        return Some(format!("dim {i}: inferred {} = {v} but executed size {} (shape {shape:?})", expr_text(&d), shape[i]));
                    }
                }
                Err(_) => {} // generated (unknown) symbol or division by zero: no claim
            }
        }
    }
    if let Some(ivals) = inferred.values() {
        if let Some(vals) = &vals {
            if ivals.len() != vals.len() {
                return Some(format!("inferred {} elements but executed output has {}", ivals.len(), vals.len()));
            }
            for (i, e) in ivals.iter().enumerate() {
                if let Ok(v) = e.eval(&smap) {
                    if v as i64 != vals[i] {
                        return Some(format!("element {i}: inferred {} = {v} but executed value {} (output {vals:?})", expr_text(e), vals[i]));
                    }
                }
            }
        }
    }
    None
}

/// Operators whose reference execution semantics exists in `Model/ShapeExec.lean`.
const EXEC_KEYS: &[&str] = &[
    "Add", "Sub", "Mul", "Div", "Equal", "Where", "Shape", "Size", "Gather", "Concat", "Unsqueeze", "Squeeze", "Transpose",
    "Expand", "ConstantOfShape", "Neg", "Identity",
];

struct Ctx {
    out: Out,
    with_infer: BTreeMap<String, u64>,
    without_infer: BTreeMap<String, u64>,
    checked: BTreeMap<String, u64>,
}

fn one_case(cx: &mut Ctx, rng: &mut Rng, case: &Case, sym_prob: u64) {
    one_case_focus(cx, rng, case, sym_prob, None)
}

/// `focus = Some(k)`: input `k` carries min/max expressions, the other inputs constants.
fn one_case_focus(cx: &mut Ctx, rng: &mut Rng, case: &Case, sym_prob: u64, focus: Option<usize>) {
    let loaded = hcommon::catch(|| load_case(case));
    let l = match loaded {
        Ok(Ok(l)) => l,
        _ => {
            cx.out.bucket("load_error");
            return;
        }
    };
    if !l.has_infer_shapes {
        *cx.without_infer.entry(case.key.clone()).or_insert(0) += 1;
        return;
    }
    *cx.with_infer.entry(case.key.clone()).or_insert(0) += 1;
    let mut sg = Sigma::default();
    let sym_inputs: Vec<Option<SymTensor>> =
        case.inputs
            .iter()
            .enumerate()
            .map(|(k, i)| i.as_ref().map(|i| abstract_input(rng, &mut sg, i, sym_prob, focus.map(|f| f == k))))
            .collect();
    if focus.is_some() {
        cx.out.bucket("minmax_focus");
    }
    let req = format!(
        "inf {} {} | {} # sigma={}",
        case.key,
        attrs_text(case),
        hcommon::join(sym_inputs.iter().map(|t| t.as_ref().map(tensor_text).unwrap_or_else(|| "_".into())), " | "),
        sg.text()
    );
    // real inference on the real operator object
    let inferred = hcommon::catch(|| {
        let graph = l.model.verif_graph();
        let mut res = None;
        for (_, n) in graph.iter() {
            if let rten::verif::Node::Operator(op) = n {
                let infer = op.operator().as_infer_shapes().unwrap();
                let mut sym_gen = SymbolGen::new();
                res = Some(infer.infer_shapes(InferShapesContext::new(&sym_inputs), &mut sym_gen));
            }
        }
        res.unwrap()
    });
    let executed = hcommon::catch(|| run_case(&l, case));
    let (ans, fail) = match (&inferred, &executed) {
        (Err(p), _) => {
            cx.out.bucket("infer_panic");
            (format!("panic {p}"), if matches!(executed, Ok(Ok(_))) { Some(format!("shape inference panicked on inputs whose execution succeeds: {p}")) } else { None })
        }
        (Ok(Err(e)), ex) => {
            cx.out.bucket(if matches!(ex, Ok(Ok(_))) { "infer_err_run_ok" } else { "infer_err_run_err" });
            (format!("err:{e:?}"), None)
        }
        (Ok(Ok(ts)), ex) => {
            let ans = format!("ok {}", hcommon::join(ts.iter().map(tensor_text), ";"));
            let mut fail = None;
            match ex {
                Ok(Ok(outs)) => {
                    cx.out.bucket("both_ok");
                    *cx.checked.entry(case.key.clone()).or_insert(0) += 1;
                    // Every output is checked (no early exit). The known placeholder-rank
                    // mismatch of SkipLayerNormalization outputs 1 and 2 is reported only when it
                    // is the ONLY failure of the case, so that it can never hide another one.
                    let mut known_only: Vec<String> = vec![];
                    let mut others: Vec<String> = vec![];
                    for (j, t) in ts.iter().enumerate() {
                        if let Some(o) = outs.get(j) {
                            if let Some(msg) = contradiction(t, &sg, o) {
                                let placeholder = matches!(case.key.as_str(), "SkipLayerNormalization" | "SkipSimplifiedLayerNormalization")
                                    && (j == 1 || j == 2)
                                    && msg == "inferred rank 1 but executed output has shape []";
                                if placeholder {
                                    known_only.push(format!("output {j}: {msg}"));
                                } else {
                                    others.push(format!("output {j}: {msg}"));
                                }
                            }
                        }
                    }
                    if !others.is_empty() {
                        fail = Some(others.join(" ;; "));
                    } else if !known_only.is_empty() {
                        fail = Some(known_only.join(" ;; "));
                    }
                    if ts.iter().any(|t| t.values().is_some()) {
                        cx.out.bucket("inferred_values");
                    }
                }
                _ => cx.out.bucket("infer_ok_run_err"),
            }
            (ans, fail)
        }
    };
    cx.out.bucket(&format!("op:{}", case.key));
    let nontrivial = matches!((&inferred, &executed), (Ok(Ok(_)), Ok(Ok(_)))) && !sg.syms.is_empty();
    cx.out.case(&req, &ans, fail.as_deref(), nontrivial);
    // `exec` line: the real kernel's output on the concrete inputs, diffed with the Lean reference
    // semantics that the T1 theorems are stated against.
    if let Ok(Ok(outs)) = &executed {
        if EXEC_KEYS.contains(&case.key.as_str()) && case.n_out == 1 {
            let conc_in = |i: &Inp| -> (String, bool) {
                let valued = i.seq.is_none() && i.dt != Dt::F32 && i.shape.len() <= 1;
                if valued {
                    let vals = hcommon::join(i.vals.iter().map(|v| format!("{}", *v as i64)), ",");
                    (if i.shape.is_empty() { format!("S({vals})") } else { format!("V({vals})") }, true)
                } else {
                    (format!("H({})", hcommon::join(i.shape.iter(), ",")), false)
                }
            };
            let ins: Vec<(String, bool)> =
                case.inputs.iter().map(|i| i.as_ref().map(conc_in).unwrap_or(("_".to_string(), true))).collect();
            let all_valued = ins.iter().all(|(_, v)| *v);
            let always = matches!(case.key.as_str(), "Shape" | "Size" | "ConstantOfShape");
            let never = matches!(case.key.as_str(), "Expand" | "Transpose");
            let (shape, vals) = concrete(&outs[0]);
            let int_out = !matches!(outs[0], Value::FloatTensor(_));
            let out_text = match (&vals, shape.len()) {
                (Some(v), r) if r <= 1 && int_out && !never && (always || all_valued) => {
                    let t = hcommon::join(v.iter(), ",");
                    if r == 0 { format!("S({t})") } else { format!("V({t})") }
                }
                _ => format!("H({})", hcommon::join(shape.iter(), ",")),
            };
            let ereq = format!("exec {} {} | {}", case.key, attrs_text(case), hcommon::join(ins.iter().map(|(t, _)| t.clone()), " | "));
            cx.out.bucket("exec_lines");
            cx.out.case(&ereq, &format!("ok {out_text}"), None, true);
        }
    }
}

/// Whole-graph inference (audit M3): a shape-computation subgraph on an input `x : [b, 4]` with a
/// symbolic batch dimension goes through the real graph driver `infer_shapes` (per-node
/// `sym_tensor_from_input`, `replace_complex_expressions`, `simplify`, constant extraction) and is
/// then executed for a concrete `b`. Every inferred constant, rank, fixed dimension and plain-symbol
/// dimension must match the executed value. The Lean model does not cover the graph driver
/// (`simplify` is C11's subject): the line is answered `skip`, the oracle is what counts.
fn graph_case(cx: &mut Ctx, rng: &mut Rng) {
    use onnx_enc::{Dim, Graph, Node, Tensor as OT, ValueInfo};
    let b = *rng.pick(&[1usize, 1, 2, 3, 5, 0]);
    let k = *rng.pick(&[0i64, 1, 2, 3, 4, 5]);
    let c1 = rng.range_i64(-3, 3);
    let mut nodes = vec![
        Node::new("Shape", "n_s", &["x"], &["s"]),
        Node::new("Gather", "n_g", &["s", "i0"], &["g"]).attr("axis", Attr::Int(0)),
        Node::new("Gather", "n_h", &["s", "i1"], &["h"]).attr("axis", Attr::Int(0)),
        Node::new("Mul", "n_m", &["g", "h"], &["m"]),
        Node::new("Add", "n_a", &["g", "c1"], &["a"]),
        Node::new("Unsqueeze", "n_u", &["m", "ax0"], &["u"]),
        Node::new("Concat", "n_c", &["u", "s"], &["c"]).attr("axis", Attr::Int(0)),
        Node::new("Equal", "n_e", &["g", "k"], &["e"]),
        Node::new("Where", "n_w", &["e", "a", "m"], &["w"]),
        Node::new("Sub", "n_d", &["m", "g"], &["d"]),
        Node::new("Neg", "n_n", &["d"], &["nd"]),
        Node::new("Size", "n_z", &["x"], &["z"]),
    ];
    let mut outs = vec!["s", "g", "h", "m", "a", "u", "c", "e", "w", "d", "nd", "z"];
    if rng.chance(1, 2) {
        nodes.push(Node::new("Unsqueeze", "n_hu", &["h", "ax0"], &["hu"]));
        nodes.push(Node::new("Unsqueeze", "n_gu", &["g", "ax0"], &["gu"]));
        nodes.push(Node::new("Concat", "n_r", &["hu", "gu"], &["r"]).attr("axis", Attr::Int(0)));
        nodes.push(Node::new("Reshape", "n_y", &["x", "r"], &["y"]));
        outs.extend(["r", "y"]);
    }
    if rng.chance(1, 2) {
        nodes.push(Node::new("Range", "n_rg", &["zero", "g", "one"], &["rg"]));
        nodes.push(Node::new("ConstantOfShape", "n_cs", &["u"], &["cs"]));
        nodes.push(Node::new("Transpose", "n_t", &["x"], &["t"]));
        outs.extend(["rg", "cs", "t"]);
    }
    let g = Graph {
        nodes,
        initializers: vec![
            OT::i64s("i0", &[], &[0]),
            OT::i64s("i1", &[], &[1]),
            OT::i64s("c1", &[], &[c1]),
            OT::i64s("k", &[], &[k]),
            OT::i64s("ax0", &[1], &[0]),
            OT::i64s("zero", &[], &[0]),
            OT::i64s("one", &[], &[1]),
        ],
        inputs: vec![ValueInfo::new("x", 1, Some(vec![Dim::Sym("b".into()), Dim::Fixed(4)]))],
        outputs: outs.iter().map(|n| ValueInfo::new(n, 0, None)).collect(),
        ..Default::default()
    };
    let bytes = encode_model(&g);
    let req = format!("#graph b={b} k={k} c1={c1} outs={}", outs.join(","));
    let res = hcommon::catch(|| {
        let mut opts = rten::ModelOptions::with_all_ops();
        opts.enable_optimization(false);
        let model = opts.load(bytes).map_err(|e| format!("load: {e}"))?;
        let infer = rten::verif::infer_shapes(model.verif_graph(), rten::verif::InferShapeOptions::default()).map_err(|e| format!("infer: {e}"))?;
        let x = rten_tensor::Tensor::<f32>::zeros(&[b, 4]);
        let ids: Vec<_> = outs.iter().map(|n| model.node_id(n).unwrap()).collect();
        let run = model.run(vec![(model.node_id("x").unwrap(), x.view().into())], &ids, None).map_err(|e| format!("{e}"));
        let mut dump = vec![];
        let mut fail: Option<String> = None;
        let mut claims = 0u64;
        for (i, name) in outs.iter().enumerate() {
            let Some(sh) = infer.shapes.get(&ids[i]) else {
                dump.push(format!("{name}=?"));
                continue;
            };
            let executed = run.as_ref().ok().map(|v| concrete(&v[i]));
            match sh {
                rten::verif::Shape::Constant { index } => {
                    let c = &infer.constants[*index];
                    dump.push(format!("{name}=const{:?}", c));
                    if let Some((shape, Some(vals))) = &executed {
                        claims += 1;
                        let ok = c.ndim() == shape.len() && c.values().iter().map(|&v| v as i64).collect::<Vec<_>>() == *vals;
                        if !ok && fail.is_none() {
                            fail = Some(format!("value {name}: inferred constant {:?} but executed {:?} (shape {:?})", c, vals, shape));
                        }
                    }
                }
                rten::verif::Shape::Shape(dims) => {
                    dump.push(format!("{name}=shape[{}]", hcommon::join(dims.iter().map(|d| format!("{d:?}")), ",")));
                    if let Some((shape, _)) = &executed {
                        claims += 1;
                        if dims.len() != shape.len() && fail.is_none() {
                            fail = Some(format!("value {name}: inferred rank {} but executed shape {:?}", dims.len(), shape));
                        }
                        for (d, &sz) in dims.iter().zip(shape.iter()) {
                            let claimed = match d {
                                rten::Dimension::Fixed(n) => Some(*n),
                                rten::Dimension::Symbolic(s) if s == "b" => Some(b),
                                _ => None,
                            };
                            if let Some(n) = claimed {
                                if n != sz && fail.is_none() {
                                    fail = Some(format!("value {name}: inferred dim {d:?} but executed shape {:?}", shape));
                                }
                            }
                        }
                    }
                }
            }
        }
        Ok::<_, String>((dump.join(" "), fail, claims, run.is_ok()))
    });
    match res {
        Ok(Ok((dump, fail, claims, ran))) => {
            cx.out.bucket(if ran { "graph_ran" } else { "graph_run_err" });
            for _ in 0..claims {
                cx.out.bucket("graph_claims_checked");
            }
            cx.out.case(&req, &dump.replace(['\n', '\t'], " "), fail.as_deref(), ran);
        }
        Ok(Err(e)) => {
            cx.out.bucket("graph_load_or_infer_error");
            cx.out.note(&format!("graph case error: {e}"));
        }
        Err(p) => cx.out.case(&req, &format!("panic {p}"), Some("graph-level inference or execution panicked"), false),
    }
}

/// One pooling / convolution configuration along the H axis (the W axis is fixed to a trivial
/// 1-wide window), as a single-op case.
fn pool_case(rng: &mut Rng, op: &str, in_size: usize, k: usize, s: usize, ps: usize, pe: usize, d: usize, ceil: bool) -> Case {
    let w = 2usize;
    let attrs = |c: Case| {
        let mut c = c
            .ais("kernel_shape", &[k as i64, 1])
            .ais("strides", &[s as i64, 1])
            .ais("pads", &[ps as i64, 0, pe as i64, 0]);
        if d != 1 {
            c = c.ais("dilations", &[d as i64, 1]);
        }
        if ceil {
            c = c.ai("ceil_mode", 1);
        }
        c
    };
    match op {
        "Conv" => attrs(Case::new("Conv", vec![f(rng, &[1, 1, in_size, w]), f(rng, &[2, 1, k, 1])])),
        _ => attrs(Case::new(op, vec![f(rng, &[1, 1, in_size, w])])),
    }
}

/// `poolsize` line: the inferred and the executed output size along the swept axis for one
/// configuration, diffed with `poolInferSize` / `poolExecSize` of the Lean model.
fn pool_line(cx: &mut Ctx, case: &Case, op: &str, p: (usize, usize, usize, usize, usize, usize, bool)) {
    let (in_size, k, st, ps, pe, d, ceil) = p;
    let req = format!("poolsize op={op} in={in_size} k={k} s={st} d={d} ps={ps} pe={pe} ceil={}", ceil as u8);
    let res = hcommon::catch(|| {
        let l = load_case(case)?;
        let sym_inputs: Vec<Option<SymTensor>> =
            case.inputs.iter().map(|i| i.as_ref().map(|i| SymTensor::from_fixed_shape(&i.shape))).collect();
        let mut inferred = None;
        for (_, n) in l.model.verif_graph().iter() {
            if let rten::verif::Node::Operator(o) = n {
                let mut sg = SymbolGen::new();
                inferred = Some(o.operator().as_infer_shapes().unwrap().infer_shapes(InferShapesContext::new(&sym_inputs), &mut sg));
            }
        }
        let inf = match inferred {
            Some(Ok(ts)) => ts[0]
                .shape()
                .and_then(|mut sh| sh.nth(2))
                .and_then(|e| e.eval(&SymbolMap::new(&[])).ok())
                .map(|v| v.to_string())
                .unwrap_or_else(|| "?".into()),
            _ => "err".to_string(),
        };
        let exec = match run_case(&l, case) {
            Ok(outs) => concrete(&outs[0]).0.get(2).map(|d| d.to_string()).unwrap_or_else(|| "?".into()),
            Err(_) => "err".to_string(),
        };
        Ok::<_, String>(format!("infer={inf} exec={exec}"))
    });
    match res {
        Ok(Ok(ans)) => {
            cx.out.bucket("poolsize_lines");
            cx.out.case(&req, &ans, None, true);
        }
        _ => cx.out.bucket("poolsize_error"),
    }
}

/// Random convolution / pooling cases over the whole attribute space: 1-D and 2-D, explicit
/// asymmetric pads or `auto_pad`, strides, dilations (Conv), ceil_mode (pools), ConvTranspose
/// with output_padding.
fn conv_pool_cases(rng: &mut Rng) -> Vec<Case> {
    let mut v = vec![];
    for op in ["MaxPool", "AveragePool", "Conv", "ConvTranspose"] {
        let two_d = rng.chance(2, 3);
        let nd = if two_d { 2 } else { 1 };
        let pick = |rng: &mut Rng, lo: i64, hi: i64| -> Vec<i64> { (0..nd).map(|_| rng.range_i64(lo, hi)).collect() };
        let ins: Vec<usize> = (0..nd).map(|_| 1 + rng.usize_below(12)).collect();
        let ks = pick(rng, 1, 4);
        let ss = pick(rng, 1, 3);
        let ds = pick(rng, 1, 2);
        let pads: Vec<i64> = (0..2 * nd).map(|_| rng.range_i64(0, 2)).collect();
        let (cin, cout) = (2usize, 1 + rng.usize_below(2));
        let mut xs = vec![1 + rng.usize_below(2), cin];
        xs.extend(ins.iter().copied());
        let mut c = match op {
            "Conv" => {
                let mut ws = vec![cout, cin];
                ws.extend(ks.iter().map(|&k| k as usize));
                Case::new("Conv", vec![f(rng, &xs), f(rng, &ws), if rng.chance(1, 2) { f(rng, &[cout]) } else { None }])
            }
            "ConvTranspose" => {
                let mut ws = vec![cin, cout];
                ws.extend(ks.iter().map(|&k| k as usize));
                Case::new("ConvTranspose", vec![f(rng, &xs), f(rng, &ws)])
            }
            op => Case::new(op, vec![f(rng, &xs)]),
        };
        c = c.ais("kernel_shape", &ks).ais("strides", &ss);
        match rng.below(5) {
            0 => c = c.astr("auto_pad", "SAME_UPPER"),
            1 => c = c.astr("auto_pad", "SAME_LOWER"),
            2 => c = c.astr("auto_pad", "VALID"),
            _ => c = c.ais("pads", &pads),
        }
        if matches!(op, "Conv" | "ConvTranspose") && rng.chance(1, 2) {
            c = c.ais("dilations", &ds);
        }
        if matches!(op, "MaxPool" | "AveragePool") && rng.chance(1, 2) {
            c = c.ai("ceil_mode", 1);
        }
        if op == "ConvTranspose" && rng.chance(1, 3) {
            let op_: Vec<i64> = ss.iter().map(|&s| rng.range_i64(0, s - 1)).collect();
            c = c.ais("output_padding", &op_);
        }
        v.push(c);
    }
    v
}

fn small_ints(rng: &mut Rng, n: usize) -> Vec<i64> {
    (0..n).map(|_| *rng.pick(&[-3i64, -2, -1, 0, 0, 1, 1, 2, 3, 4])).collect()
}

/// Value-level cases for the shape-carrying subset: small integer scalars / vectors
/// (lengths 0..3, length-1 cycling, negative and zero values).
fn value_cases(rng: &mut Rng) -> Vec<Case> {
    let mut v = vec![];
    let operand = |rng: &mut Rng, len: Option<usize>| -> Option<Inp> {
        match len {
            None => isc(*rng.pick(&[-2i64, -1, 0, 1, 2, 3])),
            Some(n) => iv(&small_ints(rng, n)),
        }
    };
    let lens = |rng: &mut Rng| -> (Option<usize>, Option<usize>) {
        match rng.below(6) {
            0 => (None, None),
            1 => (None, Some(rng.usize_below(4))),
            2 => (Some(rng.usize_below(4)), None),
            3 => (Some(1), Some(rng.usize_below(4))),
            4 => (Some(rng.usize_below(4)), Some(1)),
            _ => {
                let n = rng.usize_below(4);
                (Some(n), Some(n))
            }
        }
    };
    for op in ["Add", "Sub", "Mul", "Div", "Equal", "Equal", "Equal"] {
        let (la, lb) = lens(rng);
        let a = operand(rng, la);
        let mut b = operand(rng, lb);
        if op == "Div" {
            b.as_mut().unwrap().vals.iter_mut().for_each(|x| {
                if *x == 0.0 {
                    *x = 2.0
                }
            });
        }
        if op == "Equal" && rng.chance(1, 2) {
            // make some elements equal
            let av = a.as_ref().unwrap().vals.clone();
            if let Some(b) = b.as_mut() {
                for (i, x) in b.vals.iter_mut().enumerate() {
                    if rng.chance(1, 2) && !av.is_empty() {
                        *x = av[i % av.len()];
                    }
                }
            }
        }
        v.push(Case::new(op, vec![a, b]));
    }
    for _ in 0..3 {
        let pick = |rng: &mut Rng| match rng.below(3) {
            0 => None,
            1 => Some(1usize),
            _ => Some(2usize),
        };
        let (lc, lx, ly) = (pick(rng), pick(rng), pick(rng));
        let cond = match lc {
            None => isc(*rng.pick(&[0i64, 1, 1, 2, -1])),
            Some(n) => iv(&(0..n).map(|_| *rng.pick(&[0i64, 1, 1, 2, -1])).collect::<Vec<_>>()),
        };
        v.push(Case::new("Where", vec![cond, operand(rng, lx), operand(rng, ly)]));
    }
    // Shape / Size / Gather / Concat / Slice / Squeeze / Unsqueeze chains on vectors
    let r = rng.usize_below(4);
    let sh = rshape(rng, r, 4);
    let mut c = Case::new("Shape", vec![f(rng, &sh)]);
    if rng.chance(2, 3) {
        c = c.ai("start", rng.range_i64(-4, 4));
    }
    if rng.chance(2, 3) {
        c = c.ai("end", rng.range_i64(-4, 4));
    }
    v.push(c);
    v.push(Case::new("Size", vec![f(rng, &sh)]));
    let n = 1 + rng.usize_below(4);
    let vec_in = small_ints(rng, n);
    let idx = rng.range_i64(-(n as i64) - 1, n as i64);
    v.push(Case::new("Gather", vec![iv(&vec_in), isc(idx)]).ai("axis", 0));
    v.push(Case::new("Gather", vec![iv(&vec_in), iv(&[idx, 0])]).ai("axis", 0));
    let m = rng.usize_below(3);
    v.push(Case::new("Concat", vec![iv(&vec_in), iv(&small_ints(rng, m)), iv(&small_ints(rng, 1))]).ai("axis", 0));
    v.push(Case::new("Unsqueeze", vec![isc(rng.range_i64(-2, 3)), iv(&[0])]));
    v.push(Case::new("Squeeze", vec![iv(&small_ints(rng, 1)), if rng.chance(1, 2) { iv(&[0]) } else { None }]));
    let step = *rng.pick(&[1i64, 1, 2, -1, -2, 3]);
    v.push(Case::new(
        "Slice",
        vec![iv(&vec_in), iv(&[rng.range_i64(-6, 6)]), iv(&[rng.range_i64(-6, 6)]), iv(&[0]), if rng.chance(2, 3) { iv(&[step]) } else { None }],
    ));
    v.push(Case::new("Reshape", vec![iv(&vec_in), iv(&[*rng.pick(&[-1i64, n as i64])])]));
    v.push(Case::new("Reshape", vec![isc(3), iv(&[])]));
    v.push(Case::new("Expand", vec![f(rng, &[1, 3]), iv(&[2, 1, *rng.pick(&[1i64, 3])])]));
    v.push(Case::new("Range", vec![isc(rng.range_i64(-3, 3)), isc(rng.range_i64(-3, 6)), isc(*rng.pick(&[1i64, 2, -1, -2]))]));
    v.push(Case::new("ConstantOfShape", vec![iv(&[rng.range_i64(0, 3)])]).a("value", Attr::Tensor(onnx_enc::Tensor::i64s("v", &[1], &[rng.range_i64(-2, 5)]))));
    // shape-level Unsqueeze / Squeeze / Transpose with one or two (possibly negative) axes
    {
        let r = 1 + rng.usize_below(3);
        let sh = rshape(rng, r, 3);
        let out_rank = (r + 2) as i64;
        let a1 = rng.range_i64(-out_rank, out_rank - 1);
        let a2 = rng.range_i64(-out_rank, out_rank - 1);
        v.push(Case::new("Unsqueeze", vec![f(rng, &sh), iv(&[a1, a2])]));
        v.push(Case::new("Unsqueeze", vec![f(rng, &sh), iv(&[rng.range_i64(-(r as i64) - 1, r as i64)])]));
        let mut sq = sh.clone();
        let ax = rng.usize_below(r);
        sq[ax] = 1;
        let neg = ax as i64 - r as i64;
        v.push(Case::new("Squeeze", vec![f(rng, &sq), iv(&[if rng.chance(1, 2) { ax as i64 } else { neg }])]));
        v.push(Case::new("Squeeze", vec![iv(&small_ints(rng, 1)), iv(&[*rng.pick(&[0i64, -1])])]));
        let mut p: Vec<i64> = (0..r as i64).collect();
        rng.shuffle(&mut p);
        v.push(Case::new("Transpose", vec![f(rng, &sh)]).ais("perm", &p));
        v.push(Case::new("Transpose", vec![f(rng, &sh)]));
    }
    v.push(Case::new("Cast", vec![iv(&vec_in)]).ai("to", 7));
    v.push(Case::new("Neg", vec![iv(&vec_in)]));
    v.push(Case::new("Identity", vec![iv(&vec_in)]));
    v
}

fn run(args: &Args) {
    let mut cx = Ctx { out: Out::new(&args.out), with_infer: BTreeMap::new(), without_infer: BTreeMap::new(), checked: BTreeMap::new() };
    let mut rng = Rng::new(args.seed);
    let reps = if args.thorough { 300 } else { 30 };
    for rep in 0..reps {
        let cases = gen_cases(&mut rng);
        for case in &cases {
            // fully fixed, mixed, mostly symbolic
            let p = [0u64, 40, 85][rep % 3];
            one_case(&mut cx, &mut rng, case, p);
        }
    }
    let vreps = if args.thorough { 8000 } else { 800 };
    for rep in 0..vreps {
        for case in &value_cases(&mut rng) {
            let p = [30u64, 60, 90][rep % 3];
            one_case(&mut cx, &mut rng, case, p);
        }
    }
    // min/max-valued operands against boundary constants: Equal / Where / arithmetic
    let freps = if args.thorough { 20_000 } else { 2_000 };
    for rep in 0..freps {
        let n = 1 + rng.usize_below(3);
        let a: Vec<i64> = (0..n).map(|_| *rng.pick(&[0i64, 1, 2, 3, 4, 5, 6, -1, -2])).collect();
        // the other operand: the same values, or +-1 around them, or 0
        let b: Vec<i64> = a.iter().map(|&v| v + *rng.pick(&[0i64, 0, 0, 1, -1]) * if rng.chance(1, 8) { 0 } else { 1 }).collect();
        let b: Vec<i64> = b.iter().map(|&v| if rng.chance(1, 10) { 0 } else { v }).collect();
        let op = *rng.pick(&["Equal", "Equal", "Equal", "Add", "Sub", "Mul", "Div", "Where"]);
        let focus = rep % 2;
        let case = match op {
            "Where" => {
                let cond: Vec<i64> = (0..n).map(|_| *rng.pick(&[0i64, 1, 2])).collect();
                // x / y carry the min/max expressions (inputs 1 or 2)
                let c = Case::new("Where", vec![iv(&cond), iv(&a), iv(&b)]);
                one_case_focus(&mut cx, &mut rng, &c, 50, Some(1 + focus));
                continue;
            }
            "Div" => {
                let b: Vec<i64> = b.iter().map(|&v| if v == 0 { 2 } else { v }).collect();
                Case::new("Div", vec![iv(&a), iv(&b)])
            }
            op => {
                if rng.chance(1, 4) {
                    Case::new(op, vec![isc(a[0]), isc(b[0])])
                } else {
                    Case::new(op, vec![iv(&a), iv(&b)])
                }
            }
        };
        one_case_focus(&mut cx, &mut rng, &case, 50, Some(focus));
    }
    // Bounded exhaustive sweep of the conv / pool output-size arithmetic along one axis:
    // in in 0..=12 (an empty axis included), kernel <= 4, stride <= 3, start / end pads <= 2, ceil_mode 0/1 (pools),
    // dilation <= 2 (Conv); fixed and symbolic input dims alternate.
    let mut n_sweep = 0usize;
    for in_size in 0..=12usize {
        for k in 1..=4usize {
            for st in 1..=3usize {
                for ps in 0..=2usize {
                    for pe in 0..=2usize {
                        for ceil in [false, true] {
                            for op in ["MaxPool", "AveragePool"] {
                                let c = pool_case(&mut rng, op, in_size, k, st, ps, pe, 1, ceil);
                                n_sweep += 1;
                                one_case(&mut cx, &mut rng, &c, if n_sweep % 2 == 0 { 0 } else { 90 });
                                pool_line(&mut cx, &c, op, (in_size, k, st, ps, pe, 1, ceil));
                            }
                        }
                        if args.thorough || (in_size + k + st + ps + pe) % 3 == 0 {
                            for d in 1..=2usize {
                                let c = pool_case(&mut rng, "Conv", in_size, k, st, ps, pe, d, false);
                                n_sweep += 1;
                                one_case(&mut cx, &mut rng, &c, if n_sweep % 2 == 0 { 0 } else { 90 });
                                pool_line(&mut cx, &c, "Conv", (in_size, k, st, ps, pe, d, false));
                            }
                        }
                    }
                }
            }
        }
    }
    let cpreps = if args.thorough { 20_000 } else { 2_000 };
    for rep in 0..cpreps {
        for case in &conv_pool_cases(&mut rng) {
            one_case(&mut cx, &mut rng, case, [0u64, 50, 90][rep % 3]);
        }
    }
    let greps = if args.thorough { 3000 } else { 300 };
    for _ in 0..greps {
        graph_case(&mut cx, &mut rng);
    }
    let names = |m: &BTreeMap<String, u64>| m.keys().cloned().collect::<Vec<_>>().join(" ");
    cx.out.note(&format!("operators with as_infer_shapes exercised ({}): {}", cx.with_infer.len(), names(&cx.with_infer)));
    cx.out.note(&format!("operators checked against a successful execution ({}): {}", cx.checked.len(), names(&cx.checked)));
    let unchecked: Vec<String> = cx.with_infer.keys().filter(|k| !cx.checked.contains_key(*k)).cloned().collect();
    cx.out.note(&format!("operators with as_infer_shapes never checked against an execution ({}): {}", unchecked.len(), unchecked.join(" ")));
    cx.out.note(&format!("operators without as_infer_shapes ({}): {}", cx.without_infer.len(), names(&cx.without_infer)));
    cx.out.finish(
        "concrete single-operator cases (random shapes/attributes; value-level cases on small integer scalars and vectors incl. negative, zero, \
         length 0/1 operands) abstracted to symbolic inputs (fixed / mixed / mostly symbolic; dims as non-negative symbols, values as symbols, \
         negated, offset, scaled and divided symbols, min/max of a symbol and a constant, nested min/max and sums / products of those instantiated at the constant, +-1 around it and 0; dedicated Equal / Where / arithmetic cases confronting such operands with boundary constants; occasional unknown inputs); non-trivial = inference and execution both succeeded and at \
         least one symbol was used; distinct by request text",
    );
}
