//! C38: the ONNX protobuf decoder terminates and never panics.
//!
//! Request line: `pb <mode> <hex|->`, mode ∈ {buf, file, sniff, load}:
//!   buf   → `ModelProto::parse_buf(bytes)`
//!   file  → `ModelProto::parse_file(File)` on a temp file holding the bytes
//!   sniff → `is_onnx_model(ValueReader::from_buf(bytes))` (what `FileType::from_buffer` calls)
//!   load  → `rten::Model::load(bytes)` (file-type sniffing + decode + graph conversion); written as a
//!           `#` comment request: not compared with the Lean model, oracle only.
//! Answer: `ok m=.. s=.. b=.. n=.. x=.. st=..` (digest of the decoded tree, work counter) |
//! `err:<ErrorKind> st=..` | `sniff=<0|1> st=..` | `load=<ok|err>` | `panic <msg>` | `hang` | `abort`.
//! `st` is `rten_onnx::verif::DECODE_STEPS` (cfg(rten_verif) hook: +1 per primitive LimitReader read,
//! +len per string/bytes buffer filled), reset before each case.
//!
//! Every case is executed in a *worker child process* (this same binary, `--worker`), driven over
//! pipes with a watchdog (2 s of CPU time per case): a hang kills and respawns the worker (answer `hang`), a crash of the
//! worker (allocation failure abort, stack overflow) is answer `abort`.
//!
//! Property oracle, evaluated on the implementation's own outcome (independent of the Lean model):
//!  * the outcome must be a message or an error (no panic / hang / abort);
//!  * the work counter must satisfy `st ≤ 2·|input| + 1` (the linear bound proved for the model);
//!  * if an independent top-level wire-format scan, or the structured generator itself, knows that a
//!    length prefix exceeds the bytes remaining in its enclosing message, the outcome must be an error.
use hcommon::{Args, Out, Rng};
use rten_onnx::onnx::{self, ModelProto};
use rten_onnx::protobuf::{ErrorKind, ProtobufError, ValueReader};
use std::io::{BufRead, BufReader, Write};
use std::process::{Child, ChildStdin, Command, Stdio};
use std::sync::mpsc::{channel, Receiver, RecvTimeoutError};
use std::time::{Duration, Instant};

// ---------------------------------------------------------------- worker side

fn hex_decode(s: &str) -> Vec<u8> {
    if s == "-" {
        return vec![];
    }
    let b = s.as_bytes();
    (0..b.len() / 2)
        .map(|i| {
            let h = |c: u8| match c {
                b'0'..=b'9' => c - b'0',
                b'a'..=b'f' => c - b'a' + 10,
                _ => c - b'A' + 10,
            };
            h(b[2 * i]) * 16 + h(b[2 * i + 1])
        })
        .collect()
}

fn hex_encode(b: &[u8]) -> String {
    if b.is_empty() {
        return "-".into();
    }
    let mut s = String::with_capacity(b.len() * 2);
    for x in b {
        s.push_str(&format!("{x:02x}"));
    }
    s
}

#[derive(Default)]
struct Digest {
    m: u64,
    s: u64,
    b: u64,
    n: u64,
    x: u64,
}

impl Digest {
    fn num(&mut self, bits: u64) {
        self.n += 1;
        self.x = self.x.wrapping_add(bits);
    }
    fn i32(&mut self, v: i32) {
        self.num(v as i64 as u64)
    }
    fn i64(&mut self, v: i64) {
        self.num(v as u64)
    }
    fn f32(&mut self, v: f32) {
        self.num(v.to_bits() as u64)
    }
    fn f64(&mut self, v: f64) {
        self.num(v.to_bits())
    }
    fn blob(&mut self, len: usize) {
        self.s += 1;
        self.b += len as u64;
    }
    fn ostr(&mut self, s: &Option<String>) {
        if let Some(s) = s {
            self.blob(s.len())
        }
    }
    fn attr(&mut self, a: &onnx::AttributeProto) {
        self.m += 1;
        self.ostr(&a.name);
        if let Some(f) = a.f {
            self.f32(f)
        }
        self.ostr(&a.s);
        if let Some(i) = a.i {
            self.i64(i)
        }
        if let Some(g) = &a.g {
            self.graph(g)
        }
        if let Some(t) = &a.t {
            self.tensor(t)
        }
        for f in &a.floats {
            self.f32(*f)
        }
        for i in &a.ints {
            self.i64(*i)
        }
        for s in &a.strings {
            self.blob(s.len())
        }
        if let Some(t) = a.r#type {
            self.i32(t.0)
        }
    }
    fn node(&mut self, n: &onnx::NodeProto) {
        self.m += 1;
        self.ostr(&n.domain);
        self.ostr(&n.name);
        self.ostr(&n.op_type);
        for s in n.input.iter().chain(&n.output) {
            self.blob(s.len())
        }
        for a in &n.attribute {
            self.attr(a)
        }
    }
    fn tensor(&mut self, t: &onnx::TensorProto) {
        self.m += 1;
        for d in &t.dims {
            self.i64(*d)
        }
        if let Some(d) = t.data_type {
            self.i32(d.0)
        }
        for v in &t.float_data {
            self.f32(*v)
        }
        for v in &t.int32_data {
            self.i32(*v)
        }
        for v in &t.int64_data {
            self.i64(*v)
        }
        for v in &t.double_data {
            self.f64(*v)
        }
        if let Some(r) = &t.raw_data {
            self.blob(r.borrow().len())
        }
        self.ostr(&t.name);
        for e in &t.external_data {
            self.ssentry(e)
        }
        if let Some(d) = t.data_location {
            self.i32(d.0)
        }
    }
    fn ssentry(&mut self, e: &onnx::StringStringEntryProto) {
        self.m += 1;
        self.ostr(&e.key);
        self.ostr(&e.value);
    }
    fn type_proto(&mut self, t: &onnx::TypeProto) {
        self.m += 1;
        if let Some(tt) = &t.tensor_type {
            self.m += 1;
            if let Some(e) = tt.elem_type {
                self.i32(e.0)
            }
            if let Some(sh) = &tt.shape {
                self.m += 1;
                for d in &sh.dim {
                    self.m += 1;
                    if let Some(v) = d.dim_value {
                        self.i64(v)
                    }
                    self.ostr(&d.dim_param);
                }
            }
        }
        if let Some(seq) = &t.sequence {
            self.m += 1;
            if let Some(e) = &seq.elem_type {
                self.type_proto(e)
            }
        }
    }
    fn value_info(&mut self, v: &onnx::ValueInfoProto) {
        self.m += 1;
        self.ostr(&v.name);
        if let Some(t) = &v.r#type {
            self.type_proto(t)
        }
    }
    fn graph(&mut self, g: &onnx::GraphProto) {
        self.m += 1;
        for n in &g.node {
            self.node(n)
        }
        for t in &g.initializer {
            self.tensor(t)
        }
        for v in g.input.iter().chain(&g.output).chain(&g.value_info) {
            self.value_info(v)
        }
    }
    fn model(&mut self, m: &ModelProto) {
        self.m += 1;
        if let Some(v) = m.ir_version {
            self.i64(v)
        }
        if let Some(g) = &m.graph {
            self.graph(g)
        }
        for o in &m.opset_import {
            self.m += 1;
            self.ostr(&o.domain);
            if let Some(v) = o.version {
                self.i64(v)
            }
        }
        for e in &m.metadata_props {
            self.ssentry(e)
        }
        self.ostr(&m.producer_name);
        self.ostr(&m.producer_version);
    }
}

fn kind_name(e: &ProtobufError) -> &'static str {
    match e.kind() {
        ErrorKind::IoError(_) => "IoError",
        ErrorKind::InvalidVarint => "InvalidVarint",
        ErrorKind::Eof => "Eof",
        ErrorKind::FieldTypeMismatch => "FieldTypeMismatch",
        ErrorKind::FieldLengthMismatch => "FieldLengthMismatch",
        ErrorKind::InvalidWireType => "InvalidWireType",
        ErrorKind::FieldAlreadyConsumed => "FieldAlreadyConsumed",
        ErrorKind::InvalidUtf8 => "InvalidUtf8",
        ErrorKind::FieldNotConsumed => "FieldNotConsumed",
        // `NestingTooDeep` is matched by its message so that the harness also builds against trees
        // that predate the variant.
        k => {
            if k.to_string() == "messages are nested too deeply" {
                "NestingTooDeep"
            } else {
                "Other"
            }
        }
    }
}

fn steps() -> u64 {
    rten_onnx::verif::DECODE_STEPS.load(std::sync::atomic::Ordering::Relaxed)
}

fn answer_model(r: Result<ModelProto, ProtobufError>) -> String {
    let st = steps();
    match r {
        Ok(m) => {
            let mut d = Digest::default();
            d.model(&m);
            // Dropping a very deep tree recurses too; do it here, inside the guarded region.
            drop(m);
            format!("ok m={} s={} b={} n={} x={} st={}", d.m, d.s, d.b, d.n, d.x, st)
        }
        Err(e) => format!("err:{} st={}", kind_name(&e), st),
    }
}

fn run_one(mode: &str, bytes: &[u8], tmp: &str) -> String {
    rten_onnx::verif::DECODE_STEPS.store(0, std::sync::atomic::Ordering::Relaxed);
    let r = hcommon::catch(|| match mode {
        "buf" => answer_model(ModelProto::parse_buf(bytes)),
        "file" => {
            std::fs::write(tmp, bytes).unwrap();
            let f = std::fs::File::open(tmp).unwrap();
            answer_model(ModelProto::parse_file(f))
        }
        "sniff" => {
            let r = onnx::is_onnx_model(ValueReader::from_buf(bytes)) as u8;
            format!("sniff={} st={}", r, steps())
        }
        "load" => match rten::Model::load(bytes.to_vec()) {
            Ok(m) => {
                drop(m);
                "load=ok".to_string()
            }
            Err(e) => {
                // error text only feeds the evidence histogram (load lines are not compared with the model)
                let t: String = e.to_string().chars().map(|c| if c.is_ascii_alphabetic() { c } else { '_' }).take(48).collect();
                format!("load=err {t}")
            }
        },
        _ => "bad-mode".to_string(),
    });
    match r {
        Ok(a) => a,
        Err(m) => format!("panic {m}"),
    }
}

fn worker(tmp: &str) {
    hcommon::quiet_panics();
    let stdin = std::io::stdin();
    let stdout = std::io::stdout();
    let mut line = String::new();
    loop {
        line.clear();
        if stdin.lock().read_line(&mut line).unwrap_or(0) == 0 {
            return;
        }
        let l = line.trim_end();
        let (mode, hex) = l.split_once(' ').unwrap_or((l, "-"));
        let bytes = hex_decode(hex);
        let a = run_one(mode, &bytes, tmp);
        let mut o = stdout.lock();
        writeln!(o, "{a}").unwrap();
        o.flush().unwrap();
    }
}

// ---------------------------------------------------------------- parent side: worker pool of one

struct Worker {
    child: Child,
    stdin: ChildStdin,
    rx: Receiver<String>,
}

struct Runner {
    w: Option<Worker>,
    tmp: String,
    hangs: u32,
    aborts: u32,
}

impl Runner {
    fn spawn(&self) -> Worker {
        let exe = std::env::current_exe().unwrap();
        let mut child = Command::new(exe)
            .arg("--worker")
            .arg(&self.tmp)
            .stdin(Stdio::piped())
            .stdout(Stdio::piped())
            .stderr(Stdio::null())
            .spawn()
            .expect("spawn worker");
        let stdin = child.stdin.take().unwrap();
        let stdout = child.stdout.take().unwrap();
        let (tx, rx) = channel();
        std::thread::spawn(move || {
            let mut r = BufReader::new(stdout);
            let mut line = String::new();
            loop {
                line.clear();
                match r.read_line(&mut line) {
                    Ok(0) | Err(_) => return,
                    Ok(_) => {
                        if tx.send(line.trim_end().to_string()).is_err() {
                            return;
                        }
                    }
                }
            }
        });
        Worker { child, stdin, rx }
    }

    fn kill(&mut self) {
        if let Some(mut w) = self.w.take() {
            let _ = w.child.kill();
            let _ = w.child.wait();
        }
    }

    /// Run one case in the worker; returns (answer, wall seconds).
    ///
    /// Watchdog: a case is a `hang` when the worker has burnt ≥ 2 s of CPU time on it (counted from 250 ms on) (the inputs are
    /// ≤ ~2 MB and decode in milliseconds), or has not answered after 120 s of wall time. Measuring CPU
    /// time rather than wall time keeps the verdict stable on a heavily loaded machine.
    fn run(&mut self, mode: &str, hex: &str) -> (String, f64) {
        if self.w.is_none() {
            self.w = Some(self.spawn());
        }
        // After many hangs (broken tree) shorten the watchdog so the run still finishes.
        let cpu_limit = if self.hangs > 30 { 0.4 } else { 2.0 };
        let w = self.w.as_mut().unwrap();
        let pid = w.child.id();
        let t0 = Instant::now();
        let sent = writeln!(w.stdin, "{mode} {hex}").and_then(|_| w.stdin.flush());
        let mut ans = if sent.is_err() { Err(RecvTimeoutError::Disconnected) } else { Err(RecvTimeoutError::Timeout) };
        // CPU baseline, taken at the first 250 ms timeout (fast cases never touch /proc).
        let mut base: Option<f64> = None;
        if sent.is_ok() {
            loop {
                match w.rx.recv_timeout(Duration::from_millis(250)) {
                    Ok(a) => {
                        ans = Ok(a);
                        break;
                    }
                    Err(RecvTimeoutError::Disconnected) => {
                        ans = Err(RecvTimeoutError::Disconnected);
                        break;
                    }
                    Err(RecvTimeoutError::Timeout) => {
                        let now = cpu_secs(pid);
                        let b = *base.get_or_insert(now);
                        if now - b >= cpu_limit || t0.elapsed().as_secs_f64() > 120.0 {
                            break;
                        }
                    }
                }
            }
        }
        let used = t0.elapsed().as_secs_f64();
        match ans {
            Ok(a) => (a, used),
            Err(RecvTimeoutError::Timeout) => {
                self.hangs += 1;
                self.kill();
                ("hang".into(), used)
            }
            Err(RecvTimeoutError::Disconnected) => {
                self.aborts += 1;
                self.kill();
                ("abort".into(), used)
            }
        }
    }
}

/// CPU time (user + system) consumed so far by process `pid`, in seconds (Linux /proc).
fn cpu_secs(pid: u32) -> f64 {
    let Ok(s) = std::fs::read_to_string(format!("/proc/{pid}/stat")) else { return 0.0 };
    // fields after the ")" that closes the command name: state is field 3, utime 14, stime 15
    let Some(i) = s.rfind(')') else { return 0.0 };
    let f: Vec<&str> = s[i + 1..].split_whitespace().collect();
    let get = |k: usize| f.get(k).and_then(|x| x.parse::<f64>().ok()).unwrap_or(0.0);
    (get(11) + get(12)) / 100.0
}

// ---------------------------------------------------------------- wire format helpers

fn varint(mut v: u64) -> Vec<u8> {
    let mut out = vec![];
    loop {
        let b = (v & 0x7f) as u8;
        v >>= 7;
        if v == 0 {
            out.push(b);
            return out;
        }
        out.push(b | 0x80);
    }
}

/// Non-canonical encoding padded with continuation bytes to exactly `n` bytes (n ≤ 10 keeps it valid
/// when the value fits; n = 11 is always invalid).
fn varint_padded(v: u64, n: usize) -> Vec<u8> {
    let mut out = vec![];
    let mut v = v;
    for i in 0..n {
        let b = (v & 0x7f) as u8;
        v >>= 7;
        out.push(if i + 1 < n { b | 0x80 } else { b });
    }
    out
}

fn tag(num: u64, wt: u64) -> Vec<u8> {
    varint((num << 3) | wt)
}

/// Independent top-level scan: Some(true) if walking the top-level fields by the wire format alone
/// reaches a length-delimited field whose length exceeds the remaining input.
fn toplevel_overlong(b: &[u8]) -> bool {
    fn rd(b: &[u8], p: &mut usize) -> Option<u64> {
        let mut v: u128 = 0;
        for i in 0..10 {
            let x = *b.get(*p)?;
            *p += 1;
            v |= ((x & 0x7f) as u128) << (7 * i);
            if x < 0x80 {
                if v > u64::MAX as u128 {
                    return None;
                }
                return Some(v as u64);
            }
        }
        None
    }
    let mut p = 0usize;
    while p < b.len() {
        let Some(t) = rd(b, &mut p) else { return false };
        match t & 7 {
            0 => {
                if rd(b, &mut p).is_none() {
                    return false;
                }
            }
            1 => {
                if b.len() - p < 8 {
                    return false;
                }
                p += 8
            }
            5 => {
                if b.len() - p < 4 {
                    return false;
                }
                p += 4
            }
            2 => {
                let Some(l) = rd(b, &mut p) else { return false };
                if l as u128 > (b.len() - p) as u128 {
                    return true;
                }
                p += l as usize;
            }
            3 | 4 => {}
            _ => return false,
        }
    }
    false
}

// ---------------------------------------------------------------- structured generator

#[derive(Clone, Copy, PartialEq, Debug)]
enum K {
    Str,
    Bytes,
    F32,
    I64,
    I32,
    Msg(usize),
    PF32,
    PF64,
    PI32,
    PI64,
}

// Harness-side mirror of the subset of onnx.proto that rten-onnx decodes (message ids are local).
const ATTR: usize = 0;
const NODE: usize = 1;
const TENSOR: usize = 2;
const DIM: usize = 3;
const SSE: usize = 4;
const OPSET: usize = 5;
const SHAPE: usize = 6;
const TTENSOR: usize = 7;
const TSEQ: usize = 8;
const TYPE: usize = 9;
const VINFO: usize = 10;
const GRAPH: usize = 11;
const MODEL: usize = 12;

fn schema(m: usize) -> &'static [(u64, K)] {
    match m {
        ATTR => &[
            (1, K::Str), (2, K::F32), (3, K::I64), (4, K::Str), (5, K::Msg(TENSOR)), (6, K::Msg(GRAPH)),
            (7, K::F32), (8, K::I64), (9, K::Str), (20, K::I32),
        ],
        NODE => &[(1, K::Str), (2, K::Str), (3, K::Str), (4, K::Str), (5, K::Msg(ATTR)), (7, K::Str)],
        TENSOR => &[
            (1, K::I64), (2, K::I32), (4, K::PF32), (5, K::PI32), (7, K::PI64), (8, K::Str), (9, K::Bytes),
            (10, K::PF64), (13, K::Msg(SSE)), (14, K::I32),
        ],
        DIM => &[(1, K::I64), (2, K::Str)],
        SSE => &[(1, K::Str), (2, K::Str)],
        OPSET => &[(1, K::Str), (2, K::I64)],
        SHAPE => &[(1, K::Msg(DIM))],
        TTENSOR => &[(1, K::I32), (2, K::Msg(SHAPE))],
        TSEQ => &[(1, K::Msg(TYPE))],
        TYPE => &[(1, K::Msg(TTENSOR)), (4, K::Msg(TSEQ))],
        VINFO => &[(1, K::Str), (2, K::Msg(TYPE))],
        GRAPH => &[(1, K::Msg(NODE)), (5, K::Msg(TENSOR)), (11, K::Msg(VINFO)), (12, K::Msg(VINFO)), (13, K::Msg(VINFO))],
        MODEL => &[(1, K::I64), (2, K::Str), (3, K::Str), (7, K::Msg(GRAPH)), (8, K::Msg(OPSET)), (14, K::Msg(SSE))],
        _ => &[],
    }
}

/// One encoded field: header (tag, and for LEN fields the length prefix is *not* included) + payload.
struct Enc {
    tag: Vec<u8>,
    /// Some(payload) for length-delimited fields.
    len_payload: Option<Vec<u8>>,
    /// bytes following the tag for non-LEN fields.
    fixed: Vec<u8>,
    /// id of this LEN field (for mutation targeting); 0 for non-LEN.
    id: u32,
}

struct Gen<'a> {
    rng: &'a mut Rng,
    next_id: u32,
    /// LEN field to corrupt: (id, how)
    target: Option<(u32, u8)>,
    /// set when the target was hit
    injected: bool,
    total_hint: u64,
    msgs: u32,
    max_depth_seen: u32,
}

fn interesting_u64(rng: &mut Rng) -> u64 {
    match rng.below(10) {
        0 => 0,
        1 => 1,
        2 => 127,
        3 => 128,
        4 => u32::MAX as u64,
        5 => (1u64 << 63) - 1,
        6 => 1u64 << 63,
        7 => u64::MAX,
        8 => rng.below(1000),
        _ => rng.next_u64(),
    }
}

fn ascii(rng: &mut Rng, max: usize) -> Vec<u8> {
    let n = rng.usize_below(max + 1);
    (0..n).map(|_| b'a' + rng.below(26) as u8).collect()
}

impl<'a> Gen<'a> {
    fn field(&mut self, num: u64, k: K, depth: u32, budget: &mut i64) -> Enc {
        let rng = &mut *self.rng;
        let mk_len = |s: &mut Self, payload: Vec<u8>| {
            s.next_id += 1;
            Enc { tag: tag(num, 2), len_payload: Some(payload), fixed: vec![], id: s.next_id }
        };
        match k {
            K::Str => {
                let p = if rng.chance(1, 8) { "héllo✓𝄞".as_bytes().to_vec() } else { ascii(rng, 12) };
                mk_len(self, p)
            }
            K::Bytes => {
                let n = rng.usize_below(40);
                let p: Vec<u8> = (0..n).map(|_| rng.next_u64() as u8).collect();
                mk_len(self, p)
            }
            K::F32 => Enc { tag: tag(num, 5), len_payload: None, fixed: (rng.next_u64() as u32).to_le_bytes().to_vec(), id: 0 },
            K::I64 | K::I32 => Enc { tag: tag(num, 0), len_payload: None, fixed: varint(interesting_u64(rng)), id: 0 },
            K::PF32 | K::PF64 | K::PI32 | K::PI64 => {
                let n = rng.usize_below(6);
                if rng.chance(1, 4) {
                    // unpacked single element
                    return match k {
                        K::PF32 => Enc { tag: tag(num, 5), len_payload: None, fixed: (rng.next_u64() as u32).to_le_bytes().to_vec(), id: 0 },
                        K::PF64 => Enc { tag: tag(num, 1), len_payload: None, fixed: rng.next_u64().to_le_bytes().to_vec(), id: 0 },
                        _ => Enc { tag: tag(num, 0), len_payload: None, fixed: varint(interesting_u64(rng)), id: 0 },
                    };
                }
                let mut p = vec![];
                for _ in 0..n {
                    match k {
                        K::PF32 => p.extend((rng.next_u64() as u32).to_le_bytes()),
                        K::PF64 => p.extend(rng.next_u64().to_le_bytes()),
                        _ => p.extend(varint(interesting_u64(rng))),
                    }
                }
                mk_len(self, p)
            }
            K::Msg(child) => {
                let p = self.message(child, depth + 1, budget);
                mk_len(self, p)
            }
        }
    }

    fn unknown_field(&mut self) -> Enc {
        let rng = &mut *self.rng;
        let num = 15 + rng.below(3) + if rng.chance(1, 6) { 1000 } else { 0 };
        match rng.below(5) {
            0 => Enc { tag: tag(num, 0), len_payload: None, fixed: varint(interesting_u64(rng)), id: 0 },
            1 => Enc { tag: tag(num, 1), len_payload: None, fixed: rng.next_u64().to_le_bytes().to_vec(), id: 0 },
            2 => Enc { tag: tag(num, 5), len_payload: None, fixed: (rng.next_u64() as u32).to_le_bytes().to_vec(), id: 0 },
            3 => Enc { tag: tag(num, 3 + rng.below(2)), len_payload: None, fixed: vec![], id: 0 },
            _ => {
                let n = rng.usize_below(20);
                let p: Vec<u8> = (0..n).map(|_| rng.next_u64() as u8).collect();
                self.next_id += 1;
                Enc { tag: tag(num, 2), len_payload: Some(p), fixed: vec![], id: self.next_id }
            }
        }
    }

    fn message(&mut self, m: usize, depth: u32, budget: &mut i64) -> Vec<u8> {
        self.msgs += 1;
        self.max_depth_seen = self.max_depth_seen.max(depth);
        let sch = schema(m);
        let nfields = if *budget <= 0 || depth > 12 { 0 } else { self.rng.usize_below(5) };
        let mut encs = vec![];
        for _ in 0..nfields {
            *budget -= 1;
            if self.rng.chance(1, 7) || sch.is_empty() {
                encs.push(self.unknown_field());
            } else {
                let (num, k) = *self.rng.pick(sch);
                // bias towards nesting near the top so that graphs appear
                let e = self.field(num, k, depth, budget);
                encs.push(e);
            }
        }
        // assemble, applying the length corruption to the target field
        let sizes: Vec<usize> = encs
            .iter()
            .map(|e| match &e.len_payload {
                Some(p) => e.tag.len() + varint(p.len() as u64).len() + p.len(),
                None => e.tag.len() + e.fixed.len(),
            })
            .collect();
        let mut out = vec![];
        for (i, e) in encs.iter().enumerate() {
            out.extend(&e.tag);
            match &e.len_payload {
                None => out.extend(&e.fixed),
                Some(p) => {
                    let mut l = p.len() as u64;
                    if let Some((tid, how)) = self.target {
                        if tid == e.id {
                            let after: u64 = sizes[i + 1..].iter().map(|&s| s as u64).sum();
                            let rem = p.len() as u64 + after; // bytes left in this message after the prefix
                            l = match how {
                                0 => rem + 1,
                                1 => rem + 2 + self.rng.below(200),
                                2 => self.total_hint + 1 + self.rng.below(50),
                                3 => (1u64 << 31) + self.rng.below(1 << 20),
                                4 => (1u64 << 32) + self.rng.below(1 << 20),
                                5 => (1u64 << 63) - 1 - self.rng.below(64),
                                6 => (1u64 << 63) + self.rng.below(64),
                                7 => u64::MAX - self.rng.below(64),
                                8 => (1u64 << 40) + self.rng.below(1 << 20),
                                _ => u64::MAX - self.total_hint.min(1 << 20) - self.rng.below(16),
                            };
                            self.injected = true;
                        }
                    }
                    out.extend(varint(l));
                    out.extend(p);
                }
            }
        }
        out
    }
}

/// Generate a schema-valid ModelProto encoding; with `target`, one LEN field gets an over-long length.
/// Returns (bytes, number of LEN fields, injected?, messages, depth).
fn gen_model(seed: u64, target: Option<(u32, u8)>, total_hint: u64, size: i64) -> (Vec<u8>, u32, bool, u32, u32) {
    let mut rng = Rng::new(seed);
    let mut g = Gen { rng: &mut rng, next_id: 0, target, injected: false, total_hint, msgs: 0, max_depth_seen: 0 };
    let mut budget = size;
    // Top level: make a graph likely.
    g.msgs += 1;
    let mut encs: Vec<Enc> = vec![];
    let n = 1 + g.rng.usize_below(6);
    for _ in 0..n {
        let (num, k) = if g.rng.chance(1, 2) { (7, K::Msg(GRAPH)) } else { *g.rng.pick(schema(MODEL)) };
        if g.rng.chance(1, 10) {
            encs.push(g.unknown_field());
        } else {
            let e = g.field(num, k, 0, &mut budget);
            encs.push(e);
        }
    }
    // top-level assembly (same corruption logic as `message`)
    let sizes: Vec<usize> = encs
        .iter()
        .map(|e| match &e.len_payload {
            Some(p) => e.tag.len() + varint(p.len() as u64).len() + p.len(),
            None => e.tag.len() + e.fixed.len(),
        })
        .collect();
    let mut out = vec![];
    for (i, e) in encs.iter().enumerate() {
        out.extend(&e.tag);
        match &e.len_payload {
            None => out.extend(&e.fixed),
            Some(p) => {
                let mut l = p.len() as u64;
                if let Some((tid, how)) = g.target {
                    if tid == e.id {
                        let after: u64 = sizes[i + 1..].iter().map(|&s| s as u64).sum();
                        let rem = p.len() as u64 + after;
                        l = match how {
                            0 => rem + 1,
                            1 => rem + 2 + g.rng.below(200),
                            3 => (1u64 << 31) + g.rng.below(1 << 20),
                            5 => (1u64 << 63) - 1 - g.rng.below(64),
                            6 => (1u64 << 63) + g.rng.below(64),
                            7 => u64::MAX - g.rng.below(64),
                            _ => u64::MAX - rem - g.rng.below(16),
                        };
                        g.injected = true;
                    }
                }
                out.extend(varint(l));
                out.extend(p);
            }
        }
    }
    (out, g.next_id, g.injected, g.msgs, g.max_depth_seen)
}

/// `depth` nested GraphProto → NodeProto → AttributeProto(g) cycles, innermost graph has one node.
fn deep_graph(depth: usize) -> Vec<u8> {
    // build inside-out
    let mut graph: Vec<u8> = {
        let mut node = vec![];
        node.extend(tag(4, 2));
        node.extend(varint(3));
        node.extend(b"Add");
        let mut g = tag(1, 2);
        g.extend(varint(node.len() as u64));
        g.extend(node);
        g
    };
    for _ in 0..depth {
        let mut attr = tag(6, 2);
        attr.extend(varint(graph.len() as u64));
        attr.extend(&graph);
        let mut node = tag(5, 2);
        node.extend(varint(attr.len() as u64));
        node.extend(attr);
        let mut g = tag(1, 2);
        g.extend(varint(node.len() as u64));
        g.extend(node);
        graph = g;
    }
    let mut model = tag(1, 0);
    model.extend(varint(9));
    model.extend(tag(7, 2));
    model.extend(varint(graph.len() as u64));
    model.extend(graph);
    model
}

/// TypeProto.sequence → TypeProtoSequence.elem_type → TypeProto … chain inside graph.input[0].type.
fn deep_type(depth: usize) -> Vec<u8> {
    let mut ty: Vec<u8> = vec![];
    for _ in 0..depth {
        let mut seq = tag(1, 2);
        seq.extend(varint(ty.len() as u64));
        seq.extend(&ty);
        let mut t = tag(4, 2);
        t.extend(varint(seq.len() as u64));
        t.extend(seq);
        ty = t;
    }
    let mut vi = tag(2, 2);
    vi.extend(varint(ty.len() as u64));
    vi.extend(ty);
    let mut g = tag(11, 2);
    g.extend(varint(vi.len() as u64));
    g.extend(vi);
    let mut model = tag(7, 2);
    model.extend(varint(g.len() as u64));
    model.extend(g);
    model
}

// ---------------------------------------------------------------- adversarial but decodable ONNX models

fn ld(num: u64, payload: &[u8]) -> Vec<u8> {
    let mut b = tag(num, 2);
    b.extend(varint(payload.len() as u64));
    b.extend(payload);
    b
}

fn vi(num: u64, v: u64) -> Vec<u8> {
    let mut b = tag(num, 0);
    b.extend(varint(v));
    b
}

fn odd_i64(rng: &mut Rng) -> i64 {
    match rng.below(12) {
        0 => 0,
        1 => -1,
        2 => 1,
        3 => 2,
        4 => 3,
        5 => i64::MAX,
        6 => i64::MIN,
        7 => 1 << 31,
        8 => 1 << 40,
        9 => -(1 << 33),
        _ => rng.below(6) as i64,
    }
}

fn small_dims(rng: &mut Rng) -> Vec<i64> {
    let r = rng.usize_below(4);
    (0..r).map(|_| if rng.chance(1, 8) { odd_i64(rng) } else { 1 + rng.below(3) as i64 }).collect()
}

fn gen_tensor(rng: &mut Rng, name: &str) -> Vec<u8> {
    let mut t = vec![];
    if rng.chance(2, 3) {
        // clean tensor, so that most models get past the initializers
        let dims: Vec<u64> = (0..rng.usize_below(3)).map(|_| 1 + rng.below(3)).collect();
        for &d in &dims {
            t.extend(vi(1, d));
        }
        let (dt, elem) = *rng.pick(&[(1u64, 4usize), (7, 8), (6, 4)]);
        t.extend(vi(2, dt));
        let n: u64 = dims.iter().product();
        let raw: Vec<u8> = (0..n as usize * elem).map(|_| rng.below(4) as u8).collect();
        t.extend(ld(9, &raw));
        t.extend(ld(8, name.as_bytes()));
        return t;
    }
    let dims = small_dims(rng);
    for &d in &dims {
        t.extend(vi(1, d as u64));
    }
    let dt = *rng.pick(&[1u64, 1, 1, 7, 7, 6, 2, 3, 9, 10, 11, 0, 8, 99, u64::MAX]);
    t.extend(vi(2, dt));
    // (three dims near 2^63 overflow even i128: saturate)
    let n: i128 = dims.iter().fold(1i128, |a, &d| a.checked_mul(d as i128).unwrap_or(i128::MAX));
    let elem = match dt {
        1 | 6 => 4,
        7 | 11 => 8,
        2 | 3 | 9 => 1,
        10 => 2,
        _ => 4,
    };
    let exact = if (0..=64).contains(&n) { (n as usize) * elem } else { rng.usize_below(16) };
    let len = match rng.below(8) {
        0 => exact + 1,
        1 => exact.saturating_sub(1),
        2 => 0,
        _ => exact,
    };
    match rng.below(5) {
        0 => {
            // float_data / int64_data instead of raw_data
            let mut p = vec![];
            for _ in 0..len / elem.max(1) {
                p.extend((rng.next_u64() as u32).to_le_bytes());
            }
            t.extend(ld(if rng.chance(1, 2) { 4 } else { 5 }, &p));
        }
        1 => {
            let mut p = vec![];
            for _ in 0..len / 8 {
                p.extend(varint(odd_i64(rng) as u64));
            }
            t.extend(ld(7, &p));
        }
        _ => {
            let raw: Vec<u8> = (0..len).map(|_| rng.next_u64() as u8).collect();
            t.extend(ld(9, &raw));
        }
    }
    t.extend(ld(8, name.as_bytes()));
    if rng.chance(1, 12) {
        t.extend(vi(14, rng.below(3))); // data_location (1 = external)
        let mut e = ld(1, b"location");
        e.extend(ld(2, b"weights.bin"));
        t.extend(ld(13, &e));
    }
    t
}

fn gen_value_info(rng: &mut Rng, name: &str) -> Vec<u8> {
    let mut shape = vec![];
    for _ in 0..rng.usize_below(4) {
        let dim = if rng.chance(1, 3) { ld(2, b"n") } else { vi(1, if rng.chance(1, 6) { odd_i64(rng) as u64 } else { 1 + rng.below(4) }) };
        shape.extend(ld(1, &dim));
    }
    let mut tt = vi(1, *rng.pick(&[1u64, 1, 7, 6, 0, 99]));
    if rng.chance(5, 6) {
        tt.extend(ld(2, &shape));
    }
    let ty = if rng.chance(1, 10) { ld(4, &ld(1, &ld(1, &tt))) } else { ld(1, &tt) };
    let mut v = ld(1, name.as_bytes());
    if rng.chance(7, 8) {
        v.extend(ld(2, &ty));
    }
    v
}

const OPS: &[&str] = &[
    "Add", "Mul", "Relu", "MatMul", "Reshape", "Concat", "Gather", "Conv", "Constant", "Transpose", "Slice", "Cast",
    "If", "Shape", "Unsqueeze", "Softmax", "Gemm", "ReduceMean", "MaxPool", "Split", "Loop", "ConstantOfShape",
    "Identity", "Squeeze", "Expand", "Where", "NoSuchOp",
];
const ATTRS: &[&str] = &[
    "axis", "axes", "perm", "to", "value", "then_branch", "else_branch", "body", "kernel_shape", "strides", "pads",
    "keepdims", "alpha", "transB", "split", "value_int", "value_ints", "value_float", "dilations", "group", "mode",
];

fn gen_attr(rng: &mut Rng, depth: u32) -> Vec<u8> {
    let name = *rng.pick(ATTRS);
    let mut a = ld(1, name.as_bytes());
    let kind = rng.below(8);
    match kind {
        0 => {
            a.extend(vi(3, odd_i64(rng) as u64));
            a.extend(vi(20, 2));
        }
        1 => {
            for _ in 0..rng.usize_below(5) {
                a.extend(vi(8, odd_i64(rng) as u64));
            }
            a.extend(vi(20, 7));
        }
        2 => {
            let mut f = tag(2, 5);
            f.extend((rng.next_u64() as u32).to_le_bytes());
            a.extend(f);
            a.extend(vi(20, 1));
        }
        3 => {
            a.extend(ld(5, &gen_tensor(rng, "t")));
            a.extend(vi(20, 4));
        }
        4 if depth < 3 => {
            a.extend(ld(6, &gen_graph(rng, depth + 1)));
            a.extend(vi(20, 5));
        }
        5 => {
            a.extend(ld(4, b"constant"));
            a.extend(vi(20, 3));
        }
        6 => {
            // value present but declared type disagrees / missing
            a.extend(vi(3, odd_i64(rng) as u64));
            a.extend(vi(20, rng.below(12)));
        }
        _ => {
            a.extend(vi(20, rng.below(8)));
        }
    }
    a
}

fn gen_graph(rng: &mut Rng, depth: u32) -> Vec<u8> {
    let mut g = vec![];
    let mut names: Vec<String> = vec![];
    if rng.chance(5, 6) {
        names.push("x".into());
        g.extend(ld(11, &gen_value_info(rng, "x")));
    }
    for i in 0..rng.usize_below(4) {
        let n = format!("w{i}");
        g.extend(ld(5, &gen_tensor(rng, &n)));
        if rng.chance(1, 5) {
            g.extend(ld(11, &gen_value_info(rng, &n)));
        }
        names.push(n);
    }
    let nn = rng.usize_below(5);
    for i in 0..nn {
        let mut node = vec![];
        for _ in 0..rng.usize_below(4) {
            let nm: String = match rng.below(8) {
                0 => "".into(),
                1 => "undefined".into(),
                _ if !names.is_empty() => rng.pick(&names).clone(),
                _ => "x".into(),
            };
            node.extend(ld(1, nm.as_bytes()));
        }
        let nout = if rng.chance(1, 8) { rng.usize_below(3) } else { 1 };
        for k in 0..nout {
            let nm = if rng.chance(1, 12) && !names.is_empty() { rng.pick(&names).clone() } else { format!("y{depth}_{i}_{k}") };
            node.extend(ld(2, nm.as_bytes()));
            names.push(nm);
        }
        node.extend(ld(4, rng.pick(OPS).as_bytes()));
        for _ in 0..rng.usize_below(4) {
            node.extend(ld(5, &gen_attr(rng, depth)));
        }
        if rng.chance(1, 10) {
            node.extend(ld(7, b"com.microsoft"));
        }
        g.extend(ld(1, &node));
    }
    for _ in 0..rng.usize_below(3) {
        let nm: String = if !names.is_empty() && rng.chance(7, 8) { rng.pick(&names).clone() } else { "nowhere".into() };
        g.extend(ld(12, &gen_value_info(rng, &nm)));
    }
    g
}

/// A well-formed ModelProto (decodes OK) whose *content* is hostile to the graph conversion:
/// odd dims / data types / data lengths, dangling or duplicate value names, wrong attribute types,
/// nested subgraphs, unknown operators.
fn gen_loadable(rng: &mut Rng) -> Vec<u8> {
    let mut m = vi(1, *rng.pick(&[8u64, 8, 9, 3, 0, u64::MAX]));
    let mut ops = ld(1, if rng.chance(1, 8) { b"ai.onnx.ml" } else { b"" });
    ops.extend(vi(2, *rng.pick(&[18u64, 18, 21, 11, 1, 0, 1 << 40, u64::MAX])));
    m.extend(ld(8, &ops));
    m.extend(ld(7, &gen_graph(rng, 0)));
    m
}

// ---------------------------------------------------------------- driving

struct Ctx {
    out: Out,
    runner: Runner,
    slow: f64,
    n_ok: u64,
    n_err: u64,
    max_ratio: f64,
}

impl Ctx {
    /// Run `bytes` in the given modes. `expect_err`: the generator injected an over-long length.
    /// `compare`: false ⇒ request is written as a `#` comment line (oracle only; not sent to the model).
    fn case(&mut self, class: &str, bytes: &[u8], modes: &[&str], expect_err: bool, nontrivial: bool, compare: bool) {
        // A tree that hangs or crashes on many inputs is reported from the first failures; do not spend
        // hours of watchdog time on the rest.
        if self.runner.hangs + self.runner.aborts > 60 {
            self.out.bucket("skipped_after_60_hangs_or_aborts");
            return;
        }
        let hex = hex_encode(bytes);
        let scan_overlong = toplevel_overlong(bytes);
        for mode in modes {
            let (ans, dt) = self.runner.run(mode, &hex);
            if dt > self.slow {
                self.slow = dt;
            }
            let mut fail: Option<String> = None;
            let class_out = if ans.starts_with("ok") {
                self.n_ok += 1;
                "ok"
            } else if ans.starts_with("err:") {
                self.n_err += 1;
                "err"
            } else if ans.starts_with("sniff=") {
                "sniff"
            } else if ans.starts_with("load=") {
                "load"
            } else if ans.starts_with("panic") {
                "panic"
            } else if ans == "hang" {
                "hang"
            } else {
                "abort"
            };
            match class_out {
                "panic" if *mode == "load" => fail = Some(format!("Model::load panicked: {ans}")),
                "panic" => fail = Some(format!("decoder panicked: {ans}")),
                "hang" => fail = Some("decoder did not return within the watchdog limit (hang)".into()),
                "abort" => fail = Some("decoder killed the process (abort / stack overflow / allocation failure)".into()),
                "ok" => {
                    if expect_err {
                        fail = Some("a length prefix larger than the rest of its enclosing message was accepted (generator-injected)".into());
                    } else if scan_overlong {
                        fail = Some("a top-level length prefix larger than the remaining input was accepted".into());
                    }
                }
                "sniff" => {
                    if ans.starts_with("sniff=1") && scan_overlong {
                        fail = Some("is_onnx_model accepted input whose top-level length prefix exceeds the input".into());
                    }
                }
                "load" => {
                    if ans == "load=ok" && (expect_err || scan_overlong) {
                        fail = Some("Model::load accepted input with a length prefix larger than its enclosing message".into());
                    }
                }
                _ => {}
            }
            // linear-work oracle on the real decoder's own counter
            if fail.is_none() {
                if let Some(st) = ans.rsplit_once(" st=").and_then(|(_, n)| n.parse::<u64>().ok()) {
                    if st > 2 * bytes.len() as u64 + 1 {
                        fail = Some(format!("decoder work {st} exceeds 2*|input|+1 = {}", 2 * bytes.len() + 1));
                    }
                    self.max_ratio = self.max_ratio.max(st as f64 / (bytes.len().max(1)) as f64);
                }
            }
            let compare = compare && *mode != "load";
            self.out.bucket(&format!("class_{class}"));
            self.out.bucket(&format!("mode_{mode}"));
            self.out.bucket(&format!("outcome_{class_out}"));
            if class_out == "load" {
                let key: String = ans.chars().take(34).collect();
                self.out.bucket(&format!("load_result_{key}"));
            }
            let lb = match bytes.len() {
                0..=2 => "len_0-2",
                3..=16 => "len_3-16",
                17..=256 => "len_17-256",
                257..=4096 => "len_257-4k",
                _ => "len_4k+",
            };
            self.out.bucket(lb);
            if expect_err || scan_overlong {
                self.out.bucket("has_overlong_length");
            }
            let req = if compare { format!("pb {mode} {hex}") } else { format!("# pb {mode} {hex}") };
            self.out.case(&req, &ans, fail.as_deref(), nontrivial);
        }
    }
}

const ALL: &[&str] = &["buf", "file", "sniff"];
const BUF: &[&str] = &["buf"];

fn modes_for(rng: &mut Rng) -> &'static [&'static str] {
    match rng.below(4) {
        0 => ALL,
        1 => &["buf", "file"],
        2 => &["buf", "sniff"],
        _ => BUF,
    }
}

fn run(args: &Args) {
    let tmp = format!("{}/c38_case.bin", args.out);
    let mut cx = Ctx {
        out: Out::new(&args.out),
        runner: Runner { w: None, tmp, hangs: 0, aborts: 0 },
        slow: 0.0,
        n_ok: 0,
        n_err: 0,
        max_ratio: 0.0,
    };
    let mut rng = Rng::new(args.seed);
    let th = args.thorough;

    // (a) hand-made regression / boundary inputs
    let mut hand: Vec<Vec<u8>> = vec![
        vec![],
        vec![0x7a, 0x64, 0x01, 0x02],                        // unknown LEN field, length 100, 2 bytes left
        [vec![0x7a], varint(u64::MAX - 10), vec![0; 4]].concat(), // length 2^64-11: backwards seek
        [vec![0x80; 10], vec![0x00]].concat(),               // 10 continuation bytes + 1
        vec![0x80; 10],
        vec![0x80; 11],
        [vec![0x08], vec![0x80; 10], vec![0, 0]].concat(),
        [vec![0x12], varint(1 << 63)].concat(),              // producer_name with length 2^63 (capacity overflow)
        [vec![0x12], varint(1 << 62)].concat(),              // … 2^62 (allocation failure)
        [vec![0x12], varint(1 << 40), vec![b'a'; 3]].concat(),
        [vec![0x3a], varint(100), vec![0x0a, 0x00]].concat(), // graph declared longer than the input
        vec![0x3a, 0x01, 0x80, 0x01],                        // varint straddling the end of the graph
        vec![0x3a, 0x02, 0x83, 0x01],
        vec![0x3a, 0x03, 0x0a, 0x05, 0x22],                  // node longer than its graph
    ];
    for wt in 0..8u64 {
        for num in [0u64, 1, 2, 7, 15, 1 << 28, (1 << 61) - 1] {
            for l in [0u64, 1, 2, 127, 128, (1 << 63) - 1, 1 << 63, u64::MAX - 11, u64::MAX] {
                let mut b = tag(num, wt);
                b.extend(varint(l));
                b.extend([1, 2]);
                hand.push(b);
            }
        }
    }
    // boundary lengths for every known LEN field inside a well-formed graph
    for num in [1u64, 5, 11, 12, 13, 3] {
        for l in [3u64, 4, 5, 100, (1 << 63) - 5, 1 << 63, u64::MAX - 6, u64::MAX] {
            let mut inner = tag(num, 2);
            inner.extend(varint(l));
            inner.extend([0x0a, 0x01, b'x', 0x00]);
            let mut b = tag(7, 2);
            b.extend(varint(inner.len() as u64));
            b.extend(inner);
            hand.push(b);
        }
    }
    for h in &hand {
        cx.case("handmade", h, ALL, false, h.len() > 2, true);
    }

    // (b) exhaustive short inputs
    for a in 0..=255u8 {
        cx.case("exh1", &[a], BUF, false, false, true);
    }
    let step2 = if th { 1 } else { 5 };
    let mut i = (args.seed % step2 as u64) as u32;
    while i < 65536 {
        cx.case("exh2", &[(i >> 8) as u8, i as u8], BUF, false, false, true);
        i += step2;
    }

    // (c) the real model file shipped with the crate and mutations of it
    let repo = std::env::var("VERIF_REPO").unwrap_or_else(|_| "/repo".into());
    if let Ok(mn) = std::fs::read(format!("{repo}/rten-onnx/test-data/mnist.onnx")) {
        cx.case("mnist", &mn, &["buf", "file", "sniff", "load"], false, true, true);
        let k = if th { 400 } else { 60 };
        for _ in 0..k {
            let mut m = mn.clone();
            match rng.below(3) {
                0 => {
                    let cut = rng.usize_below(m.len());
                    m.truncate(cut);
                }
                1 => {
                    for _ in 0..1 + rng.below(3) {
                        let p = rng.usize_below(m.len().min(2000));
                        m[p] = rng.next_u64() as u8;
                    }
                }
                _ => {
                    let p = rng.usize_below(m.len().min(4000));
                    let ins = varint(interesting_u64(&mut rng));
                    m.splice(p..p, ins);
                }
            }
            cx.case("mnist_mut", &m, &["buf", "file", "load"], false, true, true);
        }
    } else {
        cx.out.note("mnist.onnx not found");
    }

    // (d) structured: valid messages, then the same message with one over-long length
    let n_struct = if th { 30_000 } else { 4_000 };
    for i in 0..n_struct {
        let seed = rng.next_u64();
        let size = 4 + rng.below(60) as i64;
        let (valid, nlen, _, msgs, depth) = gen_model(seed, None, 0, size);
        let modes = modes_for(&mut rng);
        cx.out.bucket(&format!("struct_depth_{}", depth.min(8)));
        cx.case("struct_valid", &valid, modes, false, msgs > 1, true);
        if nlen > 0 {
            let tid = 1 + rng.below(nlen as u64) as u32;
            let how = rng.below(10) as u8;
            let (bad, _, injected, _, _) = gen_model(seed, Some((tid, how)), valid.len() as u64, size);
            if injected {
                cx.case(&format!("struct_overlong_{how}"), &bad, modes, true, true, true);
            }
        }
        // truncation / splice mutations of the valid message
        if i % 2 == 0 && !valid.is_empty() {
            let mut m = valid.clone();
            match rng.below(5) {
                0 => {
                    let cut = rng.usize_below(m.len());
                    m.truncate(cut);
                }
                1 => {
                    let p = rng.usize_below(m.len());
                    m[p] = rng.next_u64() as u8;
                }
                2 => {
                    let p = rng.usize_below(m.len());
                    m[p] ^= 1 << rng.below(8);
                }
                3 => {
                    let p = rng.usize_below(m.len() + 1);
                    let v = interesting_u64(&mut rng);
                    let n = 1 + rng.usize_below(11);
                    m.splice(p..p, varint_padded(v, n));
                }
                _ => {
                    let p = rng.usize_below(m.len() + 1);
                    m.splice(p..p, vec![0x80 | rng.next_u64() as u8; 9 + rng.usize_below(3)]);
                }
            }
            cx.case("struct_mut", &m, modes, false, true, true);
        }
    }

    // (e) raw random bytes, biased towards plausible tags
    let n_rand = if th { 100_000 } else { 12_000 };
    for _ in 0..n_rand {
        let cap = if rng.chance(1, 10) { 200 } else { 24 };
        let n = 3 + rng.usize_below(cap);
        let mut b: Vec<u8> = (0..n).map(|_| rng.next_u64() as u8).collect();
        if rng.chance(2, 3) {
            // plausible first tag: known ModelProto field numbers with any wire type
            b[0] = ((*rng.pick(&[1u64, 2, 3, 7, 8, 14, 15]) << 3) | rng.below(8)) as u8;
        }
        if rng.chance(1, 3) {
            for x in b.iter_mut().skip(1) {
                if rng.chance(1, 2) {
                    *x &= 0x1f;
                }
            }
        }
        cx.case("random", &b, modes_for(&mut rng), false, false, true);
    }

    // (g) adversarial-but-decodable models through rten::Model::load (post-decode conversion)
    let n_load = if th { 20_000 } else { 2_500 };
    for _ in 0..n_load {
        let m = gen_loadable(&mut rng);
        cx.case("loadable", &m, &["buf", "load"], false, true, true);
        if rng.chance(1, 4) {
            let mut m2 = m.clone();
            let p = rng.usize_below(m2.len());
            m2[p] = rng.next_u64() as u8;
            cx.case("loadable_mut", &m2, &["load"], false, true, true);
        }
    }

    // (f) nesting depth (MAX_MESSAGE_DEPTH = 100 after the fix; a stack overflow before it)
    let depths: &[usize] = if th {
        &[1, 2, 10, 30, 31, 32, 33, 34, 35, 100, 400, 1000, 3_000, 20_000, 100_000]
    } else {
        &[1, 2, 10, 31, 32, 33, 34, 100, 300, 3_000, 20_000]
    };
    for &dp in depths {
        cx.case("deep_graph", &deep_graph(dp), &["buf", "file"], false, true, true);
    }
    let depths: &[usize] = if th {
        &[1, 2, 10, 46, 47, 48, 49, 50, 51, 52, 100, 1000, 20_000, 200_000]
    } else {
        &[1, 2, 10, 47, 48, 49, 50, 51, 100, 3_000, 20_000]
    };
    for &dp in depths {
        cx.case("deep_type", &deep_type(dp), BUF, false, true, true);
    }

    cx.runner.kill();
    let _ = std::fs::remove_file(&cx.runner.tmp);
    let note = format!(
        "outcomes: ok={} err={} hangs={} aborts={}; slowest case {:.3}s wall (watchdog: 2s of CPU time); \
         largest observed decoder work / input length = {:.3} (proved bound: 2 + 1/len)",
        cx.n_ok, cx.n_err, cx.runner.hangs, cx.runner.aborts, cx.slow, cx.max_ratio
    );
    cx.out.note(&note);
    cx.out.finish(
        "each byte string is decoded by the real rten-onnx (parse_buf / parse_file / is_onnx_model) in a watchdogged \
         child process; outcome class and tree digest must equal the Lean model's; oracle: outcome is a message or \
         an error (no panic/hang/abort) and any known over-long length prefix yields an error",
    );
}

fn main() {
    let a: Vec<String> = std::env::args().collect();
    if a.len() >= 3 && a[1] == "--worker" {
        worker(&a[2]);
        return;
    }
    let args = hcommon::parse_args();
    hcommon::quiet_panics();
    run(&args)
}
