fn main() { println!("h-rten harness package: run a property binary (cNN) instead"); }
