//! C22: concurrent use of one model gives sequential results.
//!
//! Per round: one freshly loaded random model (see `pc_gen.rs`) shared by 2–8 threads; every thread
//! issues 2–6 requests drawn from a small palette of (input id set, output id set) combinations
//! (so that the single-entry plan cache is hit, missed and replaced while other calls are between
//! their critical section and their `run_plan`), in permuted orders, with different input values,
//! owned and borrowed inputs, through `Model::run` and `Model::partial_run`, mostly valid and some
//! invalid (duplicated / unknown ids, wrong dtype …), with the default (shared, global) thread pool,
//! one custom pool shared by the round, or a fresh pool per call (`RunOptions::with_thread_pool`).
//!
//! Independent oracle: every request is first executed **alone on its own freshly loaded copy of the
//! model**, single-threaded; the concurrent result must be identical — same error class, or the same
//! output tensors bit for bit (and for `partial_run` the same leaf ids).  A panic is a PROPFAIL.
//! A watchdog turns a round that does not finish within the timeout into `hang` (PROPFAIL).
//!
//! Lines (see lean/RtenVerif/Driver/C22.lean):
//!   `call <api> <opsOk> <nodes> <meta> <req>`  → outcome class of the concurrent call
//!   `locks <nodes> <entries>`                  → hit/miss letters of the round's critical sections on the
//!                                                TOP-LEVEL plan cache in lock order (cfg(rten_verif) log
//!                                                hook), replayed by the Lean model of `get_cached_plan`.
//!   `slocks <graphs> <entries>`                → the same for the plan caches of the model's `If` / `Loop`
//!                                                body graphs (`is_subgraph = true`): `<graphs>` = `@`-separated
//!                                                `<nodes>~<captureIds>` (IR of each body graph read back through
//!                                                `SubgraphOperator::subgraphs`), `<entries>` = `<k>:<ins>><outs>`
//!                                                in lock order, replayed by the Lean `lockTrace`.  Oracle: all
//!                                                requests to one body graph are identical (hypothesis `ConstReq`
//!                                                of `c22_subgraph_cache_transparent`).
//!   `assume <nodes>`                           → the graph hypotheses of the theorems (WFG, WFGo, outsValue,
//!                                                UniqueProducer) evaluated on the real graph and on every body
//!                                                graph vs the Lean executable checks; a violated assumption
//!                                                (incl. top-level captures, Contract.notSub) is a PROPFAIL.
//! One third of the rounds use models with `If` (branches capturing different parent values; threads
//! pass different conditions) and `Loop` (body capturing a parent value; per-thread trip counts).
#[path = "../pc_gen.rs"]
mod pc_gen;
use hcommon::{Out, Rng};
use pc_gen::*;
use rten::verif::plan_log;
use rten::{Model, NodeId, RunOptions, ThreadPool, Value, ValueOrView};
use rten_tensor::prelude::*;
use rten_tensor::Tensor;
use std::sync::mpsc;
use std::sync::{Arc, Barrier};
use std::time::Duration;

#[derive(Clone, Copy, Debug, PartialEq)]
enum Pool {
    Default,
    RoundShared,
    PerCall(usize),
}

#[derive(Clone, Debug)]
struct Job {
    api: Api,
    req: Req,
    salt: u32,
    pool: Pool,
    kind: &'static str,
}

fn make_value(s: &Spec, salt: u32) -> Value {
    if s.dtype == 1 {
        let n: usize = s.shape.iter().product();
        let data: Vec<f32> = (0..n).map(|i| 0.25 + ((i as u32 + salt * 3) % 11) as f32 * 0.5 - (salt % 5) as f32).collect();
        Value::from(Tensor::<f32>::from_data(&s.shape, data))
    } else {
        s.make()
    }
}

fn fingerprint(v: &Value) -> String {
    match v {
        Value::FloatTensor(t) => {
            let bits: Vec<String> = t.iter().map(|x| format!("{:08x}", x.to_bits())).collect();
            format!("f32{:?}[{}]", t.shape(), bits.join(""))
        }
        other => format!("{other:?}"),
    }
}

/// Execute one job: (answer class, full result fingerprint, panic message).
fn exec_full(model: &Model, job: &Job, round_pool: &Arc<ThreadPool>) -> (String, String, Option<String>) {
    let store: Vec<Value> = job.req.inputs.iter().map(|(_, s)| make_value(s, job.salt)).collect();
    let r = hcommon::catch(|| {
        let mut inputs: Vec<(NodeId, ValueOrView)> = vec![];
        for (k, (id, s)) in job.req.inputs.iter().enumerate() {
            let v: ValueOrView = if s.owned { ValueOrView::from(store[k].clone()) } else { ValueOrView::from(&store[k]) };
            inputs.push((NodeId::from_u32(*id), v));
        }
        let outs: Vec<NodeId> = job.req.outs.iter().map(|o| NodeId::from_u32(*o)).collect();
        let opts = match job.pool {
            Pool::Default => None,
            Pool::RoundShared => Some(RunOptions::default().with_thread_pool(Some(round_pool.clone()))),
            Pool::PerCall(n) => Some(RunOptions::default().with_thread_pool(Some(Arc::new(ThreadPool::with_num_threads(n))))),
        };
        match job.api {
            Api::Partial => model.partial_run(inputs, &outs, opts).map(|v| {
                let ids = if v.is_empty() { "-".to_string() } else { hcommon::join(v.iter().map(|(id, _)| id.as_u32()), ",") };
                let fp = hcommon::join(v.iter().map(|(_, x)| fingerprint(x)), ";");
                (format!("ok {ids}"), fp)
            }),
            _ => model.run(inputs, &outs, opts).map(|v| ("ok".to_string(), hcommon::join(v.iter().map(fingerprint), ";"))),
        }
    });
    match r {
        Ok(Ok((cls, fp))) => (cls, fp, None),
        Ok(Err(e)) => {
            let c = classify(&e);
            (c.clone(), c, None)
        }
        Err(p) => ("panic".into(), "panic".into(), Some(p)),
    }
}

fn ids_token(ids: &[NodeId]) -> String {
    if ids.is_empty() {
        "-".into()
    } else {
        hcommon::join(ids.iter().map(|i| i.as_u32()), ",")
    }
}

fn main() {
    let args = hcommon::parse_args();
    hcommon::quiet_panics();
    let mut out = Out::new(&args.out);
    let mut rng = Rng::new(args.seed);
    let n_rounds = if args.thorough { 4000 } else { 400 };
    let timeout = Duration::from_secs(if args.thorough { 120 } else { 60 });
    let mut hung = false;
    'rounds: for _round in 0..n_rounds {
        let cf = rng.chance(1, 3);
        let Some(gm) = (if cf { gen_cf_model(&mut rng) } else { gen_model(&mut rng) }) else { continue };
        if gm.live_values().is_empty() || gm.op_ids.is_empty() {
            continue;
        }
        // palette of request shapes
        let n_pal = 2 + rng.usize_below(3);
        let palette: Vec<(Vec<(usize, Spec)>, Vec<usize>)> = (0..n_pal).map(|_| gm.base_request(&mut rng)).collect();
        let n_threads = 2 + rng.usize_below(7);
        let round_pool = Arc::new(ThreadPool::with_num_threads(1 + rng.usize_below(3)));
        let mut jobs: Vec<Vec<Job>> = vec![];
        for _ in 0..n_threads {
            let k = 2 + rng.usize_below(5);
            let mut tj = vec![];
            for _ in 0..k {
                let (ins0, outs0) = rng.pick(&palette).clone();
                let kind: &'static str = match rng.below(10) {
                    0..=3 => "none",
                    4 | 5 => "perm",
                    6 => *rng.pick(&["dup_in_replace", "dup_out_replace", "dup_in_append", "dup_out_append"]),
                    7 => *rng.pick(&["missing_in", "swap_in", "extra_in"]),
                    8 => *rng.pick(&["unknown_in", "unknown_out", "op_in", "op_out"]),
                    _ => *rng.pick(&["dtype", "rank", "dim", "seq", "const_out", "empty_out"]),
                };
                let Some(m) = mutate(&gm, kind, &ins0, &outs0, &mut rng) else { continue };
                let mut req = m.req;
                // re-draw owned/view so that the same id set is used both ways
                for (_, s) in req.inputs.iter_mut() {
                    s.owned = rng.chance(1, 2);
                }
                let api = if rng.chance(1, 5) { Api::Partial } else { Api::Run };
                let pool = match rng.below(4) {
                    0 | 1 => Pool::Default,
                    2 => Pool::RoundShared,
                    _ => Pool::PerCall(1 + rng.usize_below(2)),
                };
                tj.push(Job { api, req, salt: rng.below(1000) as u32, pool, kind });
            }
            jobs.push(tj);
        }
        // sequential reference: each job alone on its own fresh model, single-threaded
        let mut expected: Vec<Vec<(String, String)>> = vec![];
        for tj in &jobs {
            let mut e = vec![];
            for j in tj {
                let fresh = load(&gm.bytes, gm.optimize).unwrap();
                let (cls, fp, _) = exec_full(&fresh, j, &round_pool);
                e.push((cls, fp));
            }
            expected.push(e);
        }
        // concurrent execution on ONE model
        let shared = Arc::new(load(&gm.bytes, gm.optimize).unwrap());
        let barrier = Arc::new(Barrier::new(n_threads));
        let (tx, rx) = mpsc::channel::<(usize, usize, String, String, Option<String>)>();
        plan_log::start();
        let total: usize = jobs.iter().map(|t| t.len()).sum();
        for (ti, tj) in jobs.iter().cloned().enumerate() {
            let (shared, barrier, tx, round_pool) = (shared.clone(), barrier.clone(), tx.clone(), round_pool.clone());
            std::thread::spawn(move || {
                barrier.wait();
                for (ji, j) in tj.iter().enumerate() {
                    let (cls, fp, p) = exec_full(&shared, j, &round_pool);
                    let _ = tx.send((ti, ji, cls, fp, p));
                }
            });
        }
        drop(tx);
        let mut got: Vec<Vec<Option<(String, String, Option<String>)>>> = jobs.iter().map(|t| vec![None; t.len()]).collect();
        let mut received = 0;
        while received < total {
            match rx.recv_timeout(timeout) {
                Ok((ti, ji, cls, fp, p)) => {
                    got[ti][ji] = Some((cls, fp, p));
                    received += 1;
                }
                Err(_) => {
                    hung = true;
                    break;
                }
            }
        }
        let log_graphs = plan_log::take_graphs();
        let log = plan_log::take();
        for (ti, tj) in jobs.iter().enumerate() {
            for (ji, j) in tj.iter().enumerate() {
                let (ecls, efp) = &expected[ti][ji];
                let api_s = if j.api == Api::Partial { "partial" } else { "run" };
                let ops_ok = if ecls == "err:op" { 0 } else { 1 };
                let line = format!("call {api_s} {ops_ok} {} {} {}", gm.nodes_field, gm.meta_field, j.req.token());
                let (ans, pf): (String, Option<String>) = match &got[ti][ji] {
                    None => ("hang".into(), Some(format!("no result within {}s ({} threads)", timeout.as_secs(), n_threads))),
                    Some((cls, fp, p)) => {
                        let pf = if let Some(p) = p {
                            Some(format!("panic: {p}"))
                        } else if cls != ecls {
                            Some(format!("concurrent outcome {cls} but sequential outcome {ecls}"))
                        } else if fp != efp {
                            Some(format!("concurrent result differs from the sequential result: {} vs {}", &fp[..fp.len().min(120)], &efp[..efp.len().min(120)]))
                        } else {
                            None
                        };
                        (cls.clone(), pf)
                    }
                };
                out.bucket(&format!("mut_{}", j.kind));
                out.bucket(&format!("api_{api_s}"));
                out.bucket(&format!("pool_{}", match j.pool { Pool::Default => "default", Pool::RoundShared => "round_shared", Pool::PerCall(_) => "per_call" }));
                out.bucket(&format!("ans_{}", ans.split(' ').next().unwrap()));
                out.case(&line, &ans, pf.as_deref(), true);
            }
        }
        out.bucket(&format!("threads_{n_threads}"));
        if hung {
            out.note("a round did not finish within the watchdog timeout; remaining rounds skipped");
            break 'rounds;
        }
        // run-time assertion of the graph hypotheses of the theorems on the real graph(s)
        let family = all_graphs(shared.verif_graph());
        for g in &family {
            let (line, ans) = assume_case(g);
            let pf = if gm.assumption_failures.is_empty() { None } else { Some(format!("assumption violated: {}", gm.assumption_failures.join(","))) };
            out.bucket(if cf { "assume_control_flow_graph" } else { "assume_graph" });
            out.case(&line, &ans, pf.as_deref(), false);
        }
        // lock-order replay: top-level cache (`locks`) and the caches of If/Loop bodies (`slocks`)
        let addr = |g: &rten::verif::Graph| g as *const rten::verif::Graph as usize;
        let fam_index = |a: usize| family.iter().position(|g| addr(g) == a);
        let mut top: Vec<&(Vec<NodeId>, Vec<NodeId>, bool)> = vec![];
        let mut sub: Vec<(usize, &(Vec<NodeId>, Vec<NodeId>, bool))> = vec![];
        let mut unknown_graph = log_graphs.len() != log.len();
        for (e, (a, is_sub)) in log.iter().zip(log_graphs.iter()) {
            match fam_index(*a) {
                Some(0) if !*is_sub => top.push(e),
                Some(k) if k > 0 && *is_sub => sub.push((k, e)),
                _ => unknown_graph = true,
            }
        }
        let entries = if top.is_empty() {
            "-".to_string()
        } else {
            hcommon::join(top.iter().map(|(i, o, _)| format!("{}>{}", ids_token(i), ids_token(o))), ";")
        };
        let flags: String = if top.is_empty() { "-".into() } else { top.iter().map(|(_, _, h)| if *h { 'h' } else { 'm' }).collect() };
        let hits = top.iter().filter(|e| e.2).count();
        out.bucket(if hits > 0 && hits < top.len() { "round_hits_and_misses" } else { "round_uniform" });
        // replacement = a miss after the first entry
        let repl = top.iter().skip(1).filter(|e| !e.2).count();
        out.bucket(&format!("round_replacements_{}", repl.min(5)));
        let pf = if unknown_graph { Some("plan-cache log entry for a graph outside the model's family (or is_subgraph flag inconsistent)") } else { None };
        out.case(&format!("locks {} {entries}", gm.nodes_field), &flags, pf, top.len() > 1);
        if family.len() > 1 {
            let graphs = hcommon::join(
                family.iter().skip(1).map(|g| {
                    let (nodes, _, _, _) = read_back_graph(g);
                    let caps = g.captures();
                    format!("{nodes}~{}", ids_token(caps))
                }),
                "@",
            );
            let sentries = if sub.is_empty() {
                "-".to_string()
            } else {
                hcommon::join(sub.iter().map(|(k, (i, o, _))| format!("{k}:{}>{}", ids_token(i), ids_token(o))), ";")
            };
            let sflags: String = if sub.is_empty() { "-".into() } else { sub.iter().map(|(_, (_, _, h))| if *h { 'h' } else { 'm' }).collect() };
            let distinct: std::collections::HashSet<usize> = sub.iter().map(|(k, _)| *k).collect();
            out.bucket(&format!("round_subgraph_caches_used_{}", distinct.len()));
            out.bucket(&format!("round_subgraph_lock_events_{}", (sub.len() / 8 * 8).min(64)));
            // hypothesis ConstReq of c22_subgraph_cache_transparent: one request per body graph
            let mut first: std::collections::HashMap<usize, (&Vec<NodeId>, &Vec<NodeId>)> = std::collections::HashMap::new();
            let mut varies = None;
            for (k, (i, o, _)) in &sub {
                let f = first.entry(*k).or_insert((i, o));
                if f.0 != i || f.1 != o {
                    varies = Some(format!("requests to body graph {k} vary: {}>{} vs {}>{}", ids_token(f.0), ids_token(f.1), ids_token(i), ids_token(o)));
                }
            }
            out.case(&format!("slocks {graphs} {sentries}"), &sflags, varies.as_deref(), !sub.is_empty());
        }
    }
    out.finish("every concurrent call returns bit for bit what the same call returns alone on a freshly loaded model; no panic; no hang; logged hit/miss sequences of the top-level and of the If/Loop body plan caches equal the Lean replay of get_cached_plan in lock order; the graph hypotheses of the theorems hold on every generated model");
    if hung {
        // worker threads may still be blocked: do not wait for them
        std::process::exit(0);
    }
}
