//! C25: model runs are deterministic and leave the model (constants) and borrowed inputs unchanged.
//!
//! Every case is a random ONNX model (shared encoder, public `ModelOptions::load`) in which
//! constants and graph inputs feed in-place capable unary operators (`Relu Neg Abs Sigmoid
//! Identity`), commutative (`Add Mul`) and non-commutative (`Sub Div`) binary operators in both
//! operand positions and twice in one operator, layout operators (`Reshape Unsqueeze Squeeze`),
//! `MatMul` with constant weights, and `If` / `Loop` subgraphs (nested up to depth 2) that capture
//! constants, inputs and temporaries, apply in-place operators to the captures and return captures
//! directly.  Constants, inputs and intermediates are also requested directly as outputs.
//!
//! For each model the harness
//!  * snapshots every constant of every (sub)graph through `Model::verif_graph` (bytes) and every
//!    buffer it lends to a run;
//!  * builds history groups (one set of intermediate outputs requested in different ORDERS plus
//!    subsets, identical inputs - a cache hit may run the plan a differently ordered request built)
//!    around temporaries with two in-place capable consumers, one a Div/Sub/Pow/Mul/Add with a
//!    one-element constant of rank 0..3 and inexact quotients;
//!  * runs a random sequence of requests (varying input values, varying output sets, inputs passed
//!    owned or borrowed, intermediate values supplied as inputs, requests that fail in the middle
//!    of the plan, repeated requests, default thread pool and a 1-thread pool);
//!  * after **every** run compares all constants and all lent buffers byte-for-byte with the
//!    snapshots, compares the result of a repeated request bit-for-bit with its first result and
//!    with the same request on a freshly loaded copy of the model  (independent oracle → PROPFAIL);
//!  * records `run_plan`'s bookkeeping trace (hook `rten::verif::exec_trace`) and writes one
//!    request line per `run_plan` call (top level and every nested subgraph run): graph, plan,
//!    owned/borrowed split, capture environment, lengths of the values each operator returned.
//!    The Lean driver (`Model/RunPurity.lean`) answers with the operands it predicts to be handed
//!    out mutably per step (in place / moved into a subgraph) together with the place they are
//!    taken from, and how each output is produced (moved / cloned).  The trace oracle also checks
//!    directly that every id handed out mutably was in the run's `temp_values` (owned input or
//!    stored operator output) or a takeable capture.
//!
//! Request grammar: see `lean/RtenVerif/Driver/C25.lean`.
#[path = "../onnx_enc.rs"]
mod onnx_enc;
use hcommon::{Out, Rng};
use onnx_enc::{dt, Attr, Graph as OGraph, Node as ONode, Tensor as OTensor, ValueInfo};
use rten::verif::exec_trace::{self, Event};
use rten::verif::{Graph as RGraph, Node as RNode};
use rten::{Model, ModelOptions, NodeId, RunOptions, ThreadPool, Value, ValueOrView, ValueView};
use rten_tensor::prelude::*;
use rten_tensor::Tensor as RTensor;
use std::collections::{HashMap, HashSet};
use std::sync::Arc;

// ------------------------------------------------------------------ model generation

#[derive(Clone, Copy, PartialEq, Debug)]
enum Class {
    Input,
    Const,
    Temp,
}

#[derive(Clone, Debug)]
struct VInfo {
    name: String,
    shape: Option<Vec<usize>>,
    class: Class,
}

struct Ctx {
    ctr: usize,
    a: usize,
    b: usize,
    n_if: u32,
    n_loop: u32,
    max_depth: u32,
    /// top-level (v, p, q): temp `v` with two in-place capable consumers `p = unary(v)`,
    /// `q = binary(v, one-element constant)`
    fanouts: Vec<(String, String, String)>,
}

impl Ctx {
    fn fresh(&mut self, p: &str) -> String {
        self.ctr += 1;
        format!("{p}{}", self.ctr)
    }
}

fn numel(s: &[usize]) -> usize {
    s.iter().product()
}

fn rand_shape(rng: &mut Rng, cx: &Ctx) -> Vec<usize> {
    match rng.below(8) {
        0 => vec![cx.b],
        1 => vec![1, cx.b],
        2 => vec![cx.a, 1],
        3 => vec![],
        4 => vec![1, cx.a, cx.b],
        _ => vec![cx.a, cx.b],
    }
}

fn broadcast(x: &Option<Vec<usize>>, y: &Option<Vec<usize>>) -> Option<Vec<usize>> {
    let (x, y) = (x.as_ref()?, y.as_ref()?);
    let n = x.len().max(y.len());
    let mut out = vec![0; n];
    for i in 0..n {
        let dx = if i + x.len() >= n { x[i + x.len() - n] } else { 1 };
        let dy = if i + y.len() >= n { y[i + y.len() - n] } else { 1 };
        out[i] = dx.max(dy);
    }
    Some(out)
}

fn rand_f32s(rng: &mut Rng, n: usize) -> Vec<f32> {
    (0..n)
        .map(|_| match rng.below(12) {
            0 => 0.0,
            1 => -0.0,
            2 => 1.0,
            _ => (rng.range_i64(-40, 40) as f32) / 8.0,
        })
        .collect()
}

const UNARY: [&str; 5] = ["Relu", "Neg", "Abs", "Sigmoid", "Identity"];
const BINARY: [&str; 4] = ["Add", "Mul", "Sub", "Div"];

/// Pick an operand: biased towards constants and inputs (the property's quantifier).
fn pick_val<'a>(rng: &mut Rng, vis: &'a [VInfo]) -> &'a VInfo {
    if rng.chance(1, 2) {
        let ci: Vec<&VInfo> = vis.iter().filter(|v| v.class != Class::Temp).collect();
        if !ci.is_empty() {
            return ci[rng.usize_below(ci.len())];
        }
    }
    &vis[rng.usize_below(vis.len())]
}

/// Body of a graph: `n_ops` operators over the visible values. New values are appended to `vis`.
/// Returns the nodes, the initializers created for this graph and the names produced here.
fn gen_body(
    rng: &mut Rng,
    cx: &mut Ctx,
    vis: &mut Vec<VInfo>,
    conds: &[String],
    n_ops: usize,
    depth: u32,
    out: &mut Out,
) -> (Vec<ONode>, Vec<OTensor>, Vec<VInfo>) {
    let mut nodes = vec![];
    let mut inits = vec![];
    let mut produced = vec![];
    cx.max_depth = cx.max_depth.max(depth);
    // local constants
    for _ in 0..rng.usize_below(if depth == 0 { 4 } else { 2 }) + (depth == 0) as usize {
        let shape = rand_shape(rng, cx);
        let name = cx.fresh("c");
        let dims: Vec<i64> = shape.iter().map(|&d| d as i64).collect();
        inits.push(OTensor::f32s(&name, &dims, &rand_f32s(rng, numel(&shape))));
        vis.push(VInfo { name, shape: Some(shape), class: Class::Const });
    }
    for _ in 0..n_ops {
        if rng.chance(1, 5) {
            // A temporary with TWO in-place capable consumers, one of them a binary operator whose
            // other operand is a one-element constant of rank 0..3 (equal / lower / higher rank than
            // the temporary) with a value that makes quotients / products inexact. Which consumer
            // runs in place depends on the plan order, i.e. on the order outputs are requested in
            // by whichever request built the cached plan.
            let temps: Vec<VInfo> = vis.iter().filter(|v| v.class == Class::Temp).cloned().collect();
            let v = if !temps.is_empty() && rng.chance(1, 2) {
                temps[rng.usize_below(temps.len())].clone()
            } else {
                let x = pick_val(rng, vis).clone();
                let y = pick_val(rng, vis).clone();
                let vn = cx.fresh("v");
                nodes.push(ONode::new(*rng.pick(&["Add", "Mul", "Sub"]), &cx.fresh("n"), &[&x.name, &y.name], &[&vn]));
                let vi = VInfo { name: vn, shape: broadcast(&x.shape, &y.shape), class: Class::Temp };
                vis.push(vi.clone());
                produced.push(vi.clone());
                vi
            };
            let bop = *rng.pick(&["Div", "Div", "Sub", "Pow", "Mul", "Add"]);
            let val = if bop == "Pow" {
                *rng.pick(&[2.0f32, 3.0, 0.5])
            } else {
                *rng.pick(&[3.0f32, 7.0, 0.1, 1.0 / 3.0, -3.0, 10.0, 0.7, 1.1, 49.0])
            };
            let rank = rng.usize_below(4);
            let sshape = vec![1usize; rank];
            let sc = cx.fresh("s");
            inits.push(OTensor::f32s(&sc, &vec![1i64; rank], &[val]));
            vis.push(VInfo { name: sc.clone(), shape: Some(sshape.clone()), class: Class::Const });
            let q = cx.fresh("v");
            let pn = cx.fresh("v");
            let scalar_first = bop != "Pow" && rng.chance(1, 4);
            let qn = if scalar_first {
                ONode::new(bop, &cx.fresh("n"), &[&sc, &v.name], &[&q])
            } else {
                ONode::new(bop, &cx.fresh("n"), &[&v.name, &sc], &[&q])
            };
            let uop = *rng.pick(&UNARY);
            let pnode = ONode::new(uop, &cx.fresh("n"), &[&v.name], &[&pn]);
            if rng.chance(1, 2) {
                nodes.push(qn);
                nodes.push(pnode);
            } else {
                nodes.push(pnode);
                nodes.push(qn);
            }
            out.bucket(&format!("fanout.{bop}.rank{rank}{}", if scalar_first { ".scalar_first" } else { "" }));
            let qi = VInfo { name: q.clone(), shape: broadcast(&v.shape, &Some(sshape)), class: Class::Temp };
            let pi = VInfo { name: pn.clone(), shape: v.shape.clone(), class: Class::Temp };
            vis.push(qi.clone());
            vis.push(pi.clone());
            produced.push(qi);
            produced.push(pi);
            if depth == 0 {
                cx.fanouts.push((v.name.clone(), pn, q));
            }
            continue;
        }
        let nm = cx.fresh("n");
        let o = cx.fresh("v");
        let k = rng.below(100);
        let shape;
        if k < 30 {
            let x = pick_val(rng, vis).clone();
            let op = *rng.pick(&UNARY);
            out.bucket(&format!("op.{op}.{:?}", x.class));
            nodes.push(ONode::new(op, &nm, &[&x.name], &[&o]));
            shape = x.shape.clone();
        } else if k < 62 {
            let x = pick_val(rng, vis).clone();
            let y = if rng.chance(1, 5) { x.clone() } else { pick_val(rng, vis).clone() };
            let op = *rng.pick(&BINARY);
            out.bucket(&format!("op.{op}.{:?}.{:?}{}", x.class, y.class, if x.name == y.name { ".same" } else { "" }));
            nodes.push(ONode::new(op, &nm, &[&x.name, &y.name], &[&o]));
            shape = broadcast(&x.shape, &y.shape);
        } else if k < 74 {
            // layout operators
            let x = pick_val(rng, vis).clone();
            match (rng.below(3), &x.shape) {
                (0, Some(s)) if s.first() == Some(&1) => {
                    let ax = cx.fresh("ax");
                    inits.push(OTensor::i64s(&ax, &[1], &[0]));
                    nodes.push(ONode::new("Squeeze", &nm, &[&x.name, &ax], &[&o]));
                    shape = Some(s[1..].to_vec());
                    out.bucket(&format!("op.Squeeze.{:?}", x.class));
                }
                (1, Some(s)) => {
                    let sh = cx.fresh("sh");
                    let dims: Vec<i64> = s.iter().map(|&d| d as i64).collect();
                    inits.push(OTensor::i64s(&sh, &[dims.len() as i64], &dims));
                    nodes.push(ONode::new("Reshape", &nm, &[&x.name, &sh], &[&o]));
                    shape = Some(s.clone());
                    out.bucket(&format!("op.Reshape.{:?}", x.class));
                }
                _ => {
                    let ax = cx.fresh("ax");
                    inits.push(OTensor::i64s(&ax, &[1], &[0]));
                    nodes.push(ONode::new("Unsqueeze", &nm, &[&x.name, &ax], &[&o]));
                    shape = x.shape.as_ref().and_then(|s| {
                        if s.len() >= 3 {
                            None
                        } else {
                            let mut t = vec![1];
                            t.extend(s);
                            Some(t)
                        }
                    });
                    if x.shape.as_ref().map(|s| s.len() >= 3).unwrap_or(true) {
                        // keep ranks small: fall back to Identity
                        nodes.pop();
                        inits.pop();
                        nodes.push(ONode::new("Identity", &nm, &[&x.name], &[&o]));
                        vis.push(VInfo { name: o.clone(), shape: x.shape.clone(), class: Class::Temp });
                        produced.push(vis.last().unwrap().clone());
                        continue;
                    }
                    out.bucket(&format!("op.Unsqueeze.{:?}", x.class));
                }
            }
        } else if k < 80 {
            // MatMul with a constant weight [b, b] (prepacked by default)
            let cands: Vec<VInfo> = vis
                .iter()
                .filter(|v| v.shape.as_ref().map(|s| s.len() >= 2 && s[s.len() - 1] == cx.b).unwrap_or(false))
                .cloned()
                .collect();
            if cands.is_empty() {
                let x = pick_val(rng, vis).clone();
                nodes.push(ONode::new("Identity", &nm, &[&x.name], &[&o]));
                shape = x.shape.clone();
            } else {
                let x = cands[rng.usize_below(cands.len())].clone();
                let w = cx.fresh("w");
                inits.push(OTensor::f32s(&w, &[cx.b as i64, cx.b as i64], &rand_f32s(rng, cx.b * cx.b)));
                vis.push(VInfo { name: w.clone(), shape: Some(vec![cx.b, cx.b]), class: Class::Const });
                // a [b,b] constant is only broadcast-compatible with the family when a == b or a == 1
                if !(cx.a == cx.b) {
                    vis.pop();
                }
                nodes.push(ONode::new("MatMul", &nm, &[&x.name, &w], &[&o]));
                shape = x.shape.clone();
                out.bucket(&format!("op.MatMul.{:?}", x.class));
            }
        } else if k < 92 && depth < 2 && !conds.is_empty() {
            // If: both branches capture parent values
            cx.n_if += 1;
            let cond = conds[rng.usize_below(conds.len())].clone();
            let mut branches = vec![];
            for _ in 0..2 {
                let mut bvis = vis.clone();
                let nb = rng.usize_below(3);
                let (bn, bi, bp) = gen_body(rng, cx, &mut bvis, conds, nb, depth + 1, out);
                // branch output: a produced value, or directly a captured parent value / constant
                let mut bn = bn;
                let outv = if !bp.is_empty() && rng.chance(3, 4) {
                    bp[rng.usize_below(bp.len())].clone()
                } else if rng.chance(1, 8) {
                    // rten rejects this at planning time ("Source node not found"): kept rare
                    out.bucket("if.branch_returns_capture");
                    pick_val(rng, vis).clone()
                } else {
                    // the branch result is a captured value passed through an in-place capable op
                    out.bucket("if.branch_returns_identity_of_capture");
                    let x = pick_val(rng, vis).clone();
                    let o2 = cx.fresh("v");
                    bn.push(ONode::new(*rng.pick(&UNARY), &cx.fresh("n"), &[&x.name], &[&o2]));
                    VInfo { name: o2, shape: x.shape.clone(), class: Class::Temp }
                };
                let g = OGraph {
                    name: cx.fresh("g"),
                    nodes: bn,
                    initializers: bi,
                    inputs: vec![],
                    outputs: vec![ValueInfo::new(&outv.name, dt::FLOAT, None)],
                    value_infos: vec![],
                };
                branches.push(g);
            }
            let eg = branches.pop().unwrap();
            let tg = branches.pop().unwrap();
            nodes.push(
                ONode::new("If", &nm, &[&cond], &[&o])
                    .attr("then_branch", Attr::Graph(tg))
                    .attr("else_branch", Attr::Graph(eg)),
            );
            shape = None;
            out.bucket(&format!("op.If.depth{depth}"));
        } else if k < 100 && depth < 2 {
            // Loop: constant trip count, one carried value taken from the parent scope
            cx.n_loop += 1;
            let trip = cx.fresh("trip");
            let m = rng.range_i64(0, 3);
            inits.push(OTensor::i64s(&trip, &[], &[m]));
            let car = pick_val(rng, vis).clone();
            let i_in = cx.fresh("it");
            let c_in = cx.fresh("ci");
            let v_in = cx.fresh("vi");
            let c_out = cx.fresh("co");
            let mut bvis = vis.clone();
            bvis.push(VInfo { name: v_in.clone(), shape: None, class: Class::Input });
            let nb = 1 + rng.usize_below(2);
            let (mut bn, bi, bp) = gen_body(rng, cx, &mut bvis, &[], nb, depth + 1, out);
            bn.push(ONode::new("Identity", &cx.fresh("n"), &[&c_in], &[&c_out]));
            let v_out = if rng.chance(1, 20) {
                // carried output is directly a capture or the carried input (rejected by rten's planner
                // when it is a capture: kept rare)
                out.bucket("loop.carried_returns_capture");
                pick_val(rng, &bvis).clone()
            } else {
                bp[rng.usize_below(bp.len())].clone()
            };
            let scan = rng.chance(1, 3);
            let mut outputs = vec![
                ValueInfo::new(&c_out, dt::BOOL, None),
                ValueInfo::new(&v_out.name, dt::FLOAT, None),
            ];
            let mut outs = vec![o.clone()];
            if scan {
                let sv = if rng.chance(1, 4) { pick_val(rng, &bvis).clone() } else { bp[rng.usize_below(bp.len())].clone() };
                outputs.push(ValueInfo::new(&sv.name, dt::FLOAT, None));
                outs.push(cx.fresh("v"));
                out.bucket("loop.scan");
            }
            let g = OGraph {
                name: cx.fresh("g"),
                nodes: bn,
                initializers: bi,
                inputs: vec![
                    ValueInfo::new(&i_in, dt::INT64, None),
                    ValueInfo::new(&c_in, dt::BOOL, None),
                    ValueInfo::new(&v_in, dt::FLOAT, None),
                ],
                outputs,
                value_infos: vec![],
            };
            let outr: Vec<&str> = outs.iter().map(|s| s.as_str()).collect();
            nodes.push(ONode::new("Loop", &nm, &[&trip, "", &car.name], &outr).attr("body", Attr::Graph(g)));
            shape = None;
            out.bucket(&format!("op.Loop.depth{depth}.trip{m}.{:?}", car.class));
            for extra in outs.iter().skip(1) {
                vis.push(VInfo { name: extra.clone(), shape: None, class: Class::Temp });
                produced.push(vis.last().unwrap().clone());
            }
        } else {
            let x = pick_val(rng, vis).clone();
            nodes.push(ONode::new("Identity", &nm, &[&x.name], &[&o]));
            shape = x.shape.clone();
        }
        vis.push(VInfo { name: o, shape, class: Class::Temp });
        produced.push(vis.last().unwrap().clone());
    }
    (nodes, inits, produced)
}

struct GenModel {
    bytes: Vec<u8>,
    optimize: bool,
    prepack: bool,
    /// top-level values (inputs, constants, intermediates)
    vals: Vec<VInfo>,
    inputs: Vec<VInfo>,
    cond_input: Option<String>,
    n_if: u32,
    n_loop: u32,
    max_depth: u32,
    fanouts: Vec<(String, String, String)>,
}

fn gen_model(rng: &mut Rng, out: &mut Out) -> GenModel {
    let big = rng.chance(1, 25);
    let mut cx = Ctx {
        ctr: 0,
        a: if big { 40 + rng.usize_below(30) } else { 1 + rng.usize_below(4) },
        b: if big { 64 + rng.usize_below(200) } else { 1 + rng.usize_below(5) },
        n_if: 0,
        n_loop: 0,
        max_depth: 0,
        fanouts: vec![],
    };
    if rng.chance(1, 4) {
        cx.b = cx.a; // square: MatMul weights join the broadcast family
    }
    let mut vis: Vec<VInfo> = vec![];
    let mut ginputs = vec![];
    let mut inputs = vec![];
    for _ in 0..1 + rng.usize_below(3) {
        let shape = rand_shape(rng, &cx);
        let name = cx.fresh("x");
        let dims: Vec<i64> = shape.iter().map(|&d| d as i64).collect();
        ginputs.push(if rng.chance(2, 3) {
            ValueInfo::fixed(&name, dt::FLOAT, &dims)
        } else {
            ValueInfo::new(&name, dt::FLOAT, None)
        });
        let v = VInfo { name, shape: Some(shape), class: Class::Input };
        inputs.push(v.clone());
        vis.push(v);
    }
    // condition sources: a bool constant and (often) a bool input
    let mut conds = vec![];
    let mut inits0 = vec![];
    let cc = cx.fresh("cc");
    inits0.push(OTensor::bools(&cc, &[], &[rng.chance(1, 2)]));
    conds.push(cc);
    let mut cond_input = None;
    if rng.chance(2, 3) {
        let ci = cx.fresh("cx");
        ginputs.push(ValueInfo::fixed(&ci, dt::BOOL, &[]));
        conds.push(ci.clone());
        cond_input = Some(ci);
    }
    let n_ops = 2 + rng.usize_below(if big { 5 } else { 9 });
    let (nodes, mut inits, produced) = gen_body(rng, &mut cx, &mut vis, &conds, n_ops, 0, out);
    inits.extend(inits0);
    // declared outputs: a few values of any class
    let mut goutputs = vec![];
    for _ in 0..1 + rng.usize_below(3) {
        let v = if rng.chance(3, 4) && !produced.is_empty() {
            produced[rng.usize_below(produced.len())].clone()
        } else {
            vis[rng.usize_below(vis.len())].clone()
        };
        if !goutputs.iter().any(|o: &ValueInfo| o.name == v.name) {
            goutputs.push(ValueInfo::new(&v.name, dt::FLOAT, None));
        }
    }
    let g = OGraph { name: "top".into(), nodes, initializers: inits, inputs: ginputs, outputs: goutputs, value_infos: vec![] };
    GenModel {
        bytes: g.into_model_bytes(18),
        optimize: rng.chance(1, 3),
        prepack: rng.chance(1, 2),
        vals: vis,
        inputs,
        cond_input,
        n_if: cx.n_if,
        n_loop: cx.n_loop,
        max_depth: cx.max_depth,
        fanouts: cx.fanouts,
    }
}

fn load(gm: &GenModel) -> Result<Model, String> {
    let mut o = ModelOptions::with_all_ops();
    o.enable_optimization(gm.optimize);
    o.prepack_weights(gm.prepack);
    o.load(gm.bytes.clone()).map_err(|e| format!("{e}"))
}

// ------------------------------------------------------------------ snapshots

fn view_bytes(v: &ValueView) -> Vec<u8> {
    let mut o: Vec<u8> = vec![];
    for d in v.shape().iter() {
        o.extend_from_slice(&(*d as u64).to_le_bytes());
    }
    o.push(0xff);
    match v {
        ValueView::FloatTensor(t) => t.iter().for_each(|x| o.extend_from_slice(&x.to_bits().to_le_bytes())),
        ValueView::Int32Tensor(t) => t.iter().for_each(|x| o.extend_from_slice(&x.to_le_bytes())),
        ValueView::Int8Tensor(t) => t.iter().for_each(|x| o.push(*x as u8)),
        ValueView::UInt8Tensor(t) => t.iter().for_each(|x| o.push(*x)),
        _ => o.extend_from_slice(b"seq"),
    }
    o
}

fn value_bytes(v: &Value) -> Vec<u8> {
    view_bytes(&v.as_view())
}

/// All graphs of a model (top level first) in a deterministic order.
fn all_graphs<'a>(g: &'a RGraph, acc: &mut Vec<&'a RGraph>) {
    acc.push(g);
    let mut ids: Vec<(u32, &RNode)> = g.iter().map(|(id, n)| (id.as_u32(), n)).collect();
    ids.sort_by_key(|e| e.0);
    for (_, n) in ids {
        if let RNode::Operator(op) = n {
            if let Some(sg) = op.operator().as_subgraph_op() {
                for s in sg.subgraphs() {
                    all_graphs(s, acc);
                }
            }
        }
    }
}

/// Byte image of every constant of every graph: (graph index, node id) -> bytes.
fn snapshot_constants(model: &Model) -> Vec<((usize, u32), Vec<u8>)> {
    let mut gs = vec![];
    all_graphs(model.verif_graph(), &mut gs);
    let mut o = vec![];
    for (gi, g) in gs.iter().enumerate() {
        let mut ids: Vec<(u32, &RNode)> = g.iter().map(|(id, n)| (id.as_u32(), n)).collect();
        ids.sort_by_key(|e| e.0);
        for (id, n) in ids {
            if let RNode::Constant(c) = n {
                o.push(((gi, id), view_bytes(&c.as_view())));
            }
        }
    }
    o
}

// ------------------------------------------------------------------ graph description

fn opt_ids(ids: &[Option<NodeId>]) -> String {
    if ids.is_empty() {
        "-".into()
    } else {
        hcommon::join(ids.iter().map(|i| i.map(|i| i.as_u32().to_string()).unwrap_or("_".into())), ",")
    }
}

fn ids_str<I: IntoIterator<Item = u32>>(ids: I) -> String {
    let v: Vec<String> = ids.into_iter().map(|i| i.to_string()).collect();
    if v.is_empty() {
        "-".into()
    } else {
        v.join(",")
    }
}

struct GraphDesc {
    nodes_field: String,
    captures: Vec<u32>,
    constants: HashSet<u32>,
}

fn describe(g: &RGraph) -> GraphDesc {
    let mut by_id: HashMap<u32, &RNode> = HashMap::new();
    let mut max_id = 0;
    for (id, n) in g.iter() {
        max_id = max_id.max(id.as_u32());
        by_id.insert(id.as_u32(), n);
    }
    let mut nodes = vec![];
    let mut constants = HashSet::new();
    let n_nodes = if by_id.is_empty() { 0 } else { max_id + 1 };
    for id in 0..n_nodes {
        nodes.push(match by_id.get(&id) {
            None => "A".to_string(),
            Some(RNode::Value(_)) => "V".into(),
            Some(RNode::Constant(_)) => {
                constants.insert(id);
                "C".into()
            }
            Some(RNode::Operator(op)) => {
                let caps: Vec<u32> = op
                    .capture_names()
                    .filter_map(|n| g.get_node_id(n))
                    .filter(|c| !op.input_ids().contains(&Some(*c)))
                    .map(|c| c.as_u32())
                    .collect();
                let ip: Vec<u32> = op.operator().in_place_inputs().iter().map(|i| i as u32).collect();
                format!(
                    "O/{}/{}/{}/{}/{}/{}",
                    opt_ids(op.input_ids()),
                    opt_ids(op.output_ids()),
                    ids_str(ip),
                    op.operator().is_commutative() as u8,
                    ids_str(caps),
                    op.operator().as_subgraph_op().is_some() as u8
                )
            }
        });
    }
    GraphDesc {
        nodes_field: if nodes.is_empty() { "A".into() } else { nodes.join(";") },
        captures: g.captures().iter().map(|c| c.as_u32()).collect(),
        constants,
    }
}

/// The graph hypotheses of C25.T2 / C02 / C22 / C26 (`UniqueProducer`, `WF.outsValue`, operator
/// inputs are value or constant nodes, a top-level graph has no captures), evaluated on the real
/// loaded `Graph`. Returns the violated assumptions.
fn graph_assumptions(g: &RGraph, top: bool) -> Vec<String> {
    let mut bad = vec![];
    let mut producer: HashMap<u32, u32> = HashMap::new();
    let is_value = |id: NodeId| matches!(g.get_node(id), Some(RNode::Value(_)));
    let is_value_or_const = |id: NodeId| matches!(g.get_node(id), Some(RNode::Value(_)) | Some(RNode::Constant(_)));
    let mut ops: Vec<(u32, &RNode)> = g.iter().map(|(id, n)| (id.as_u32(), n)).collect();
    ops.sort_by_key(|e| e.0);
    for (id, n) in ops {
        let RNode::Operator(op) = n else { continue };
        for o in op.output_ids().iter().flatten() {
            if !is_value(*o) {
                bad.push(format!("outsValue: output {} of operator {id} is not a value node", o.as_u32()));
            }
            if let Some(prev) = producer.insert(o.as_u32(), id) {
                if prev != id {
                    bad.push(format!("UniqueProducer: value {} is produced by operators {prev} and {id}", o.as_u32()));
                }
            }
        }
        for i in op.input_ids().iter().flatten() {
            if !is_value_or_const(*i) {
                bad.push(format!("inputsValueOrConstant: input {} of operator {id}", i.as_u32()));
            }
        }
        for (pos, a) in op.operator().in_place_inputs().iter().enumerate() {
            if op.operator().in_place_inputs().iter().skip(pos + 1).any(|b| b == a) {
                bad.push(format!("idxNodup: in_place_inputs of operator {id} repeats {a}"));
            }
        }
        if !op.operator().in_place_inputs().is_empty() && op.operator().as_subgraph_op().is_some() {
            bad.push(format!("notSub: subgraph operator {id} declares in-place inputs"));
        }
    }
    if top && !g.captures().is_empty() {
        bad.push("noCaptures: the top-level graph has captures".into());
    }
    bad
}

// ------------------------------------------------------------------ trace -> request lines

#[derive(Default)]
struct StepT {
    op: u32,
    rip: bool,
    taken: Vec<(usize, u32, char)>,
    by_value: Vec<(u32, char)>,
    stored: Vec<(u32, usize)>,
    seen_inplace: bool,
}

struct Frame {
    graph: usize,
    plan: Vec<u32>,
    owned: Vec<(u32, usize)>,
    borrowed: Vec<(u32, usize)>,
    outputs: Vec<u32>,
    captures: Vec<(u32, Option<usize>, bool)>,
    use_pool: bool,
    steps: Vec<StepT>,
    outs: Vec<(u32, bool)>,
    panicking: bool,
    temps: HashSet<u32>,
    depth: usize,
    /// trace-level oracle failures
    bad: Vec<String>,
}

/// Turn the event log of one `Model::run` into frames (pre-order).
fn frames_of(events: &[Event]) -> Vec<Frame> {
    let mut done: Vec<Frame> = vec![];
    let mut stack: Vec<usize> = vec![];
    for ev in events {
        match ev {
            Event::Begin { depth, graph, plan, owned, borrowed, outputs, captures, use_pool, .. } => {
                done.push(Frame {
                    graph: *graph,
                    plan: plan.clone(),
                    owned: owned.clone(),
                    borrowed: borrowed.clone(),
                    outputs: outputs.clone(),
                    captures: captures.clone(),
                    use_pool: *use_pool,
                    steps: vec![],
                    outs: vec![],
                    panicking: false,
                    temps: owned.iter().map(|e| e.0).collect(),
                    depth: *depth,
                    bad: vec![],
                });
                stack.push(done.len() - 1);
            }
            Event::End { panicking, .. } => {
                if let Some(i) = stack.pop() {
                    done[i].panicking = *panicking;
                }
            }
            _ => {
                let Some(&i) = stack.last() else { continue };
                let f = &mut done[i];
                match ev {
                    Event::Step { op, .. } => f.steps.push(StepT { op: *op, ..Default::default() }),
                    Event::InPlace { run_in_place, taken, .. } => {
                        let takeable: HashSet<u32> =
                            f.captures.iter().filter(|c| c.2).map(|c| c.0).collect();
                        let mut v = vec![];
                        for (pos, id) in taken {
                            let l = if f.temps.remove(id) {
                                't'
                            } else if takeable.contains(id) {
                                'v'
                            } else {
                                f.bad.push(format!("in-place operand {id} is neither in temp_values nor a by-value capture"));
                                '?'
                            };
                            v.push((*pos, *id, l));
                        }
                        if let Some(s) = f.steps.last_mut() {
                            s.rip = *run_in_place;
                            s.taken = v;
                            s.seen_inplace = true;
                        }
                    }
                    Event::ByValue { id, .. } => {
                        let takeable = f.captures.iter().any(|c| c.2 && c.0 == *id);
                        let l = if f.temps.remove(id) {
                            't'
                        } else if takeable {
                            'v'
                        } else {
                            f.bad.push(format!("by-value capture {id} is neither in temp_values nor a by-value capture of the enclosing run"));
                            '?'
                        };
                        if let Some(s) = f.steps.last_mut() {
                            s.by_value.push((*id, l));
                        }
                    }
                    Event::Stored { id, len, .. } => {
                        f.temps.insert(*id);
                        if let Some(s) = f.steps.last_mut() {
                            s.stored.push((*id, *len));
                        }
                    }
                    Event::Released { id, .. } => {
                        f.temps.remove(id);
                    }
                    Event::Output { id, from_temp, .. } => {
                        if *from_temp {
                            f.temps.remove(id);
                        }
                        f.outs.push((*id, *from_temp));
                    }
                    _ => {}
                }
            }
        }
    }
    done
}

/// Request line and implementation answer of one frame.
fn frame_lines(f: &Frame, graphs: &HashMap<usize, &RGraph>) -> Option<(String, String, Vec<String>)> {
    let g = graphs.get(&f.graph)?;
    let d = describe(g);
    let mut bad = f.bad.clone();
    // independent check: nothing handed out mutably is a constant's id unless that id was supplied
    // as an owned input (then the supplied value, not the constant, is in temp_values)
    // (since fix 204e787 a value supplied for a constant's id is never moved into temp_values, so a
    // constant's id can never legitimately be taken)
    for (id, _) in &f.owned {
        if d.constants.contains(id) {
            bad.push(format!("owned value supplied for constant {id} was moved into temp_values"));
        }
    }
    for s in &f.steps {
        for id in s.taken.iter().map(|t| t.1).chain(s.by_value.iter().map(|t| t.0)) {
            if d.constants.contains(&id) {
                bad.push(format!("constant id {id} handed out mutably at op {}", s.op));
            }
        }
    }
    let pairs = |v: &[(u32, usize)]| {
        if v.is_empty() {
            "-".to_string()
        } else {
            hcommon::join(v.iter().map(|(i, l)| format!("{i}:{l}")), ",")
        }
    };
    let env = if f.captures.is_empty() {
        "-".to_string()
    } else {
        hcommon::join(
            f.captures.iter().map(|(i, l, t)| {
                format!("{i}:{}:{}", l.map(|l| l.to_string()).unwrap_or("_".into()), *t as u8)
            }),
            ",",
        )
    };
    // script: lengths of the operator results per executed step
    let mut script = vec![];
    let n = f.steps.len();
    let supplied: HashSet<u32> = f.owned.iter().chain(f.borrowed.iter()).map(|e| e.0).collect();
    let complete = !f.panicking && (f.outs.len() == f.outputs.len()) && n == f.plan.len()
        && f.steps.last().map(|s| step_done(s, g, &supplied)).unwrap_or(true);
    for (k, s) in f.steps.iter().enumerate() {
        let failed = k + 1 == n && !complete;
        if failed {
            script.push("E".to_string());
        } else {
            let Some(RNode::Operator(op)) = g.get_node(NodeId::from_u32(s.op)) else { return None };
            // operator outputs are not stored under ids the caller supplied (fix 204e787), so the
            // hook reports no length for them
            let mut it = s.stored.iter();
            let lens: Vec<String> = op
                .output_ids()
                .iter()
                .map(|o| match o {
                    Some(id) if !supplied.contains(&id.as_u32()) => {
                        it.next().map(|e| e.1.to_string()).unwrap_or("0".into())
                    }
                    _ => "0".into(),
                })
                .collect();
            script.push(if lens.is_empty() { ".".into() } else { lens.join(",") });
        }
    }
    let req = format!(
        "rp {} {} {} {} {} {} {} {} {}",
        f.use_pool as u8,
        ids_str(d.captures.iter().copied()),
        env,
        d.nodes_field,
        ids_str(f.plan.iter().copied()),
        pairs(&f.owned),
        pairs(&f.borrowed),
        ids_str(f.outputs.iter().copied()),
        if script.is_empty() { "-".into() } else { script.join(";") }
    );
    let plus = |v: Vec<String>| if v.is_empty() { "-".to_string() } else { v.join("+") };
    let steps: Vec<String> = f
        .steps
        .iter()
        .filter(|s| s.seen_inplace)
        .map(|s| {
            format!(
                "{}:{}:{}:{}",
                s.op,
                s.rip as u8,
                plus(s.taken.iter().map(|(p, i, l)| format!("{p}.{i}.{l}")).collect()),
                plus(s.by_value.iter().map(|(i, l)| format!("{i}.{l}")).collect())
            )
        })
        .collect();
    let outcome = if f.panicking {
        if !f.outs.is_empty() {
            "panic@out".to_string()
        } else {
            format!("panic@{}", n.saturating_sub(1))
        }
    } else if complete {
        format!(
            "ok {}",
            if f.outs.is_empty() {
                "-".to_string()
            } else {
                hcommon::join(f.outs.iter().map(|(i, m)| format!("{i}.{}", if *m { 'M' } else { 'C' })), ",")
            }
        )
    } else if n == 0 {
        "err:plan".to_string()
    } else {
        format!("err:op@{}", n - 1)
    };
    let ans = format!("{outcome}|{}", if steps.is_empty() { "-".into() } else { steps.join(";") });
    Some((req, ans, bad))
}

fn step_done(s: &StepT, g: &RGraph, supplied: &HashSet<u32>) -> bool {
    match g.get_node(NodeId::from_u32(s.op)) {
        Some(RNode::Operator(op)) => {
            let expected = op
                .output_ids()
                .iter()
                .filter(|o| o.map(|id| !supplied.contains(&id.as_u32())).unwrap_or(false))
                .count();
            s.stored.len() == expected
        }
        _ => false,
    }
}

// ------------------------------------------------------------------ requests

#[derive(Clone)]
struct ReqIn {
    name: String,
    id: NodeId,
    shape: Vec<usize>,
    data: Vec<f32>,
    /// bool condition input (passed as an i32 scalar)
    cond: Option<i32>,
    owned: bool,
}

#[derive(Clone)]
struct Request {
    ins: Vec<ReqIn>,
    outs: Vec<(String, NodeId)>,
    /// position in `Model::output_ids()` when the output was chosen from there
    out_decl: Vec<Option<usize>>,
    kind: &'static str,
}

/// The same request for another load of the same model bytes. Node ids are not stable across loads
/// when the optimizer runs (it creates new nodes), so everything is re-resolved by name / by
/// declared output position.
fn rebind(rq: &Request, model: &Model) -> Option<Request> {
    let mut r = rq.clone();
    for i in r.ins.iter_mut() {
        i.id = model.find_node(&i.name)?;
    }
    for (k, o) in r.outs.iter_mut().enumerate() {
        o.1 = match rq.out_decl[k] {
            Some(p) => *model.output_ids().get(p)?,
            None => model.find_node(&o.0)?,
        };
    }
    Some(r)
}

fn gen_request(rng: &mut Rng, gm: &GenModel, model: &Model, out: &mut Out) -> Option<Request> {
    let mut ins = vec![];
    let mut kind = "plain";
    let drop_one = rng.chance(1, 30);
    for (k, v) in gm.inputs.iter().enumerate() {
        let Some(id) = model.find_node(&v.name) else { continue };
        if drop_one && k == 0 {
            kind = "missing_input";
            continue;
        }
        let mut shape = v.shape.clone().unwrap();
        if rng.chance(1, 25) && !shape.is_empty() {
            // wrong shape: rejected by validate_inputs or fails inside the plan
            let last = shape.len() - 1;
            shape[last] += 1 + rng.usize_below(2);
            kind = "bad_shape";
        }
        ins.push(ReqIn { name: v.name.clone(), id, data: rand_f32s(rng, numel(&shape)), shape, cond: None, owned: rng.chance(1, 2) });
    }
    if let Some(ci) = &gm.cond_input {
        if let Some(id) = model.find_node(ci) {
            ins.push(ReqIn { name: ci.clone(), id, shape: vec![], data: vec![], cond: Some(rng.below(2) as i32), owned: rng.chance(1, 2) });
        }
    }
    // sometimes supply an intermediate (or even a constant's id) as an input
    if rng.chance(1, 4) {
        let cands: Vec<&VInfo> = gm
            .vals
            .iter()
            .filter(|v| v.shape.is_some() && v.class != Class::Input && model.find_node(&v.name).is_some())
            .collect();
        if !cands.is_empty() {
            let v = cands[rng.usize_below(cands.len())];
            if v.class == Class::Temp || rng.chance(1, 3) {
                let mut shape = v.shape.clone().unwrap();
                if rng.chance(1, 6) && !shape.is_empty() {
                    let last = shape.len() - 1;
                    shape[last] += 1;
                    kind = "bad_shape_mid";
                } else if kind == "plain" {
                    kind = if v.class == Class::Const { "const_as_input" } else { "mid_as_input" };
                }
                let id = model.find_node(&v.name).unwrap();
                ins.push(ReqIn { name: v.name.clone(), id, data: rand_f32s(rng, numel(&shape)), shape, cond: None, owned: rng.chance(1, 2) });
            }
        }
    }
    rng.shuffle(&mut ins);
    // outputs: declared outputs, or a random set of values of every class
    let mut outs: Vec<(String, NodeId)> = vec![];
    let mut out_decl = vec![];
    // directed: a value supplied BY VALUE for a constant's id, placed after another by-value input,
    // the constant itself requested as an output (then its reference count is 1) together with
    // values computed from it
    if rng.chance(1, 5) {
        let consts: Vec<&VInfo> = gm
            .vals
            .iter()
            .filter(|v| v.class == Class::Const && v.shape.is_some() && model.find_node(&v.name).is_some())
            .collect();
        if !consts.is_empty() && ins.iter().any(|i| i.cond.is_none()) {
            let c = consts[rng.usize_below(consts.len())];
            let id = model.find_node(&c.name).unwrap();
            ins.retain(|i| i.id != id);
            for i in ins.iter_mut() {
                if i.cond.is_none() && rng.chance(3, 4) {
                    i.owned = true;
                }
            }
            let shape = c.shape.clone().unwrap();
            ins.push(ReqIn { name: c.name.clone(), id, data: rand_f32s(rng, numel(&shape)), shape, cond: None, owned: true });
            if rng.chance(1, 3) {
                let n = ins.len();
                ins.swap(n - 1, rng.usize_below(n));
            }
            outs.push((c.name.clone(), id));
            out_decl.push(None);
            if kind == "plain" {
                kind = "const_owned_directed";
            }
        }
    }
    if outs.is_empty() && rng.chance(1, 3) {
        for (p, id) in model.output_ids().iter().enumerate() {
            let name = model.node_info(*id).and_then(|i| i.name().map(|s| s.to_string())).unwrap_or_default();
            if !outs.iter().any(|o| o.1 == *id) {
                outs.push((name, *id));
                out_decl.push(Some(p));
            }
        }
    } else {
        for _ in 0..1 + rng.usize_below(4) {
            let v = pick_val(rng, &gm.vals);
            if let Some(id) = model.find_node(&v.name) {
                if !outs.iter().any(|o| o.1 == id) {
                    out.bucket(&format!("out.{:?}", v.class));
                    outs.push((v.name.clone(), id));
                    out_decl.push(None);
                }
            }
        }
    }
    if outs.is_empty() {
        return None;
    }
    Some(Request { ins, outs, out_decl, kind })
}

/// A history group: one set of 2-3 intermediate outputs requested in different ORDERS, plus
/// subsets, all with identical inputs. `CachedPlan::matches` ignores the order, so a request may
/// be executed with the plan a differently ordered earlier request created.
fn history_group(rng: &mut Rng, gm: &GenModel, model: &Model, base: &Request, out: &mut Out) -> Vec<Request> {
    let mut set: Vec<(String, NodeId)> = vec![];
    let mut add = |set: &mut Vec<(String, NodeId)>, name: &str| {
        if let Some(id) = model.find_node(name) {
            if !set.iter().any(|e| e.1 == id) {
                set.push((name.to_string(), id));
            }
        }
    };
    if !gm.fanouts.is_empty() && rng.chance(4, 5) {
        let f = &gm.fanouts[rng.usize_below(gm.fanouts.len())];
        add(&mut set, &f.2);
        add(&mut set, &f.1);
        if rng.chance(1, 4) {
            add(&mut set, &f.0);
        }
        out.bucket("hist.fanout");
    }
    let temps: Vec<&VInfo> = gm.vals.iter().filter(|v| v.class == Class::Temp).collect();
    let want = 2 + rng.usize_below(2);
    for _ in 0..8 {
        if set.len() >= want || temps.is_empty() {
            break;
        }
        add(&mut set, &temps[rng.usize_below(temps.len())].name);
    }
    if set.len() < 2 {
        return vec![];
    }
    let mut orders: Vec<Vec<(String, NodeId)>> = vec![set.clone()];
    let mut rev = set.clone();
    rev.reverse();
    orders.push(rev);
    if set.len() > 2 {
        let mut rot = set.clone();
        rot.rotate_left(1);
        orders.push(rot);
    }
    for e in &set {
        orders.push(vec![e.clone()]);
    }
    if set.len() > 2 {
        orders.push(vec![set[1].clone(), set[0].clone()]);
    }
    orders
        .into_iter()
        .map(|outs| Request { ins: base.ins.clone(), out_decl: vec![None; outs.len()], outs, kind: "hist" })
        .collect()
}

struct Lent {
    f: Vec<(usize, RTensor<f32>)>,
    i: Vec<(usize, RTensor<i32>)>,
}

/// Outcome of a run in comparable form.
#[derive(Clone, PartialEq)]
enum Outcome {
    Ok(Vec<Vec<u8>>),
    Err(String),
    Panic(String),
}

impl Outcome {
    /// Equality as the property sees it: same output bits, or both fail. WHICH operator of a
    /// failing run reports the error first depends on the plan order (a cache hit may use the plan
    /// of a differently ordered earlier request: `c02_error_depends_on_order`), so error messages
    /// are not compared; panics are compared by message.
    fn same(&self, other: &Outcome) -> bool {
        match (self, other) {
            (Outcome::Err(_), Outcome::Err(_)) => true,
            (a, b) => a == b,
        }
    }
    fn tag(&self) -> &'static str {
        match self {
            Outcome::Ok(_) => "ok",
            Outcome::Err(_) => "err",
            Outcome::Panic(_) => "panic",
        }
    }
}

/// Run one request. Returns the outcome, the event log and whether every lent buffer is unchanged.
fn run_request(model: &Model, rq: &Request, pool: Option<Arc<ThreadPool>>, trace: bool) -> (Outcome, Vec<Event>, Vec<String>) {
    // buffers the harness keeps (lent as views) and values it gives away
    let mut lent = Lent { f: vec![], i: vec![] };
    for (k, inp) in rq.ins.iter().enumerate() {
        if !inp.owned {
            match inp.cond {
                Some(c) => lent.i.push((k, RTensor::from_data(&[] as &[usize], vec![c]))),
                None => lent.f.push((k, RTensor::from_data(inp.shape.as_slice(), inp.data.clone()))),
            }
        }
    }
    let snap_f: Vec<Vec<u32>> = lent.f.iter().map(|(_, t)| t.iter().map(|x| x.to_bits()).collect()).collect();
    let snap_i: Vec<Vec<i32>> = lent.i.iter().map(|(_, t)| t.to_vec()).collect();
    let mut inputs: Vec<(NodeId, ValueOrView)> = vec![];
    for (k, inp) in rq.ins.iter().enumerate() {
        if inp.owned {
            match inp.cond {
                Some(c) => inputs.push((inp.id, RTensor::from_data(&[] as &[usize], vec![c]).into())),
                None => inputs.push((inp.id, RTensor::from_data(inp.shape.as_slice(), inp.data.clone()).into())),
            }
        } else if inp.cond.is_some() {
            let t = &lent.i.iter().find(|e| e.0 == k).unwrap().1;
            inputs.push((inp.id, t.view().into()));
        } else {
            let t = &lent.f.iter().find(|e| e.0 == k).unwrap().1;
            inputs.push((inp.id, t.view().into()));
        }
    }
    let out_ids: Vec<NodeId> = rq.outs.iter().map(|o| o.1).collect();
    let opts = pool.map(|p| RunOptions::default().with_thread_pool(Some(p)));
    if trace {
        exec_trace::start_trace();
    }
    let res = hcommon::catch(|| model.run(inputs, &out_ids, opts));
    let events = if trace { exec_trace::take_trace() } else { vec![] };
    let outcome = match res {
        Ok(Ok(vals)) => Outcome::Ok(vals.iter().map(value_bytes).collect()),
        Ok(Err(e)) => Outcome::Err(format!("{e}")),
        Err(p) => Outcome::Panic(p),
    };
    let mut changed = vec![];
    for ((k, t), s) in lent.f.iter().zip(&snap_f) {
        let now: Vec<u32> = t.iter().map(|x| x.to_bits()).collect();
        if &now != s || t.shape() != rq.ins[*k].shape.as_slice() {
            changed.push(format!("borrowed input {} changed", rq.ins[*k].name));
        }
    }
    for ((k, t), s) in lent.i.iter().zip(&snap_i) {
        if &t.to_vec() != s {
            changed.push(format!("borrowed input {} changed", rq.ins[*k].name));
        }
    }
    (outcome, events, changed)
}

fn main() {
    let args = hcommon::parse_args();
    hcommon::quiet_panics();
    let mut rng = Rng::new(args.seed);
    let mut out = Out::new(&args.out);
    let n_models = if args.thorough { 15000 } else { 600 };
    let one_thread = Arc::new(ThreadPool::with_num_threads(1));
    let mut total_runs = 0u64;
    let mut xpool_diff = 0u64;
    let mut err_notes = 0;
    for mi in 0..n_models {
        let gm = gen_model(&mut rng, &mut out);
        let model = match load(&gm) {
            Ok(m) => m,
            Err(e) => {
                out.bucket("load_error");
                if mi < 50 {
                    out.note(&format!("load error: {e}"));
                }
                continue;
            }
        };
        out.bucket(&format!("model.ifs{}.loops{}.depth{}", gm.n_if.min(3), gm.n_loop.min(3), gm.max_depth));
        out.bucket(if gm.optimize { "model.optimized" } else { "model.unoptimized" });
        let mut gs = vec![];
        all_graphs(model.verif_graph(), &mut gs);
        let graphs: HashMap<usize, &RGraph> = gs.iter().map(|g| (*g as *const RGraph as usize, *g)).collect();
        let snap = snapshot_constants(&model);
        // assumptions of the T2 theorems, on the loaded graphs (reported separately from the property)
        {
            let mut bad = vec![];
            for (gi, g) in gs.iter().enumerate() {
                bad.extend(graph_assumptions(g, gi == 0).into_iter().map(|m| format!("graph {gi}: {m}")));
            }
            if bad.is_empty() {
                out.bucket("assumption.graph.ok");
            } else {
                out.bucket("assumption.graph.VIOLATED");
                let req = format!("# model {mi} seed {} graph assumptions", args.seed);
                out.case(&req, "-", Some(&format!("ASSUMPTION (not the property): {}", bad.join("; "))), false);
            }
        }
        // distinct requests and a schedule with repeats
        let n_req = 2 + rng.usize_below(4);
        let mut reqs = vec![];
        for _ in 0..n_req {
            if let Some(r) = gen_request(&mut rng, &gm, &model, &mut out) {
                reqs.push(r);
            }
        }
        // history groups: same output set in different orders, interleaved with subsets
        for _ in 0..1 + rng.usize_below(2) {
            let mut base = None;
            for _ in 0..5 {
                if let Some(r) = gen_request(&mut rng, &gm, &model, &mut out) {
                    if r.kind == "plain" {
                        base = Some(r);
                        break;
                    }
                }
            }
            if let Some(b) = base {
                reqs.extend(history_group(&mut rng, &gm, &model, &b, &mut out));
            }
        }
        if reqs.is_empty() {
            continue;
        }
        rng.shuffle(&mut reqs);
        let n_runs = reqs.len() * 2 + rng.usize_below(6);
        let mut first: Vec<Option<Outcome>> = vec![None; reqs.len()];
        let mut first_1t: Vec<Option<Outcome>> = vec![None; reqs.len()];
        for run_i in 0..n_runs {
            let ri = if run_i < reqs.len() { run_i } else { rng.usize_below(reqs.len()) };
            let rq = &reqs[ri];
            let single = rng.chance(1, 3);
            let pool = if single { Some(one_thread.clone()) } else { None };
            let (outcome, events, mut fails) = run_request(&model, rq, pool, true);
            total_runs += 1;
            out.bucket(&format!("run.{}.{}", rq.kind, outcome.tag()));
            out.bucket(if single { "pool.single" } else { "pool.default" });
            // oracle 1: constants unchanged
            let now = snapshot_constants(&model);
            if now != snap {
                for (a, b) in snap.iter().zip(&now) {
                    if a != b {
                        fails.push(format!("constant {:?} changed by run {run_i}", a.0));
                    }
                }
                if now.len() != snap.len() {
                    fails.push("constant set changed".into());
                }
            }
            // oracle 2: repeated identical request gives bit-identical result
            let slot = if single { &mut first_1t[ri] } else { &mut first[ri] };
            match slot {
                None => *slot = Some(outcome.clone()),
                Some(prev) => {
                    out.bucket("repeat");
                    if let (Outcome::Err(a), Outcome::Err(b)) = (&*prev, &outcome) {
                        if a != b {
                            out.bucket("err_message_differs");
                            if err_notes < 3 {
                                err_notes += 1;
                                out.note(&format!("same request, different failing operator: '{a}' vs '{b}'"));
                            }
                        }
                    }
                    if !prev.same(&outcome) {
                        fails.push(format!("repeated request {ri} gave a different result ({} vs {})", prev.tag(), outcome.tag()));
                    }
                }
            }
            if let (Some(a), Some(b)) = (&first[ri], &first_1t[ri]) {
                if !a.same(b) {
                    xpool_diff += 1;
                }
            }
            if let Outcome::Err(e) = &outcome {
                if std::env::var("C25_DEBUG").is_ok() {
                    eprintln!("ERR {} {}", rq.kind, e);
                }
            }
            if let Outcome::Panic(p) = &outcome {
                out.bucket("panic");
                if out.propfails < 5 {
                    out.note(&format!("panic: {p}"));
                }
            }
            // correspondence lines
            let frames = frames_of(&events);
            out.bucket(&format!("frames.{}", frames.len().min(6)));
            let mut first_line = true;
            for f in &frames {
                let Some((req, ans, bad)) = frame_lines(f, &graphs) else {
                    out.bucket("frame.unknown_graph");
                    continue;
                };
                let mut msgs = bad;
                if first_line {
                    msgs.extend(fails.drain(..));
                }
                let nontrivial = f.steps.iter().any(|s| s.rip || !s.by_value.is_empty());
                if f.depth > 0 {
                    out.bucket("frame.nested");
                }
                for s in &f.steps {
                    if s.rip {
                        out.bucket("step.in_place");
                    }
                    for b in &s.by_value {
                        out.bucket(&format!("step.by_value.{}", b.1));
                    }
                    for t in &s.taken {
                        if t.2 == 'v' {
                            out.bucket("step.in_place_capture");
                        }
                    }
                }
                let pf = if msgs.is_empty() { None } else { Some(msgs.join("; ")) };
                out.case(&req, &ans, pf.as_deref(), nontrivial);
                first_line = false;
            }
            if !fails.is_empty() {
                // run rejected before run_plan (no frame): still report
                let req = format!("# model {mi} run {run_i} (no run_plan frame)");
                out.case(&req, "-", Some(&fails.join("; ")), false);
            }
        }
        // oracle 3: each request alone on a freshly loaded copy of the model
        for (ri, rq) in reqs.iter().enumerate() {
            let Ok(fresh) = load(&gm) else { continue };
            let Some(rq2) = rebind(rq, &fresh) else {
                out.bucket("fresh_rebind_failed");
                continue;
            };
            if rq2.outs.iter().zip(&rq.outs).any(|(a, b)| a.1 != b.1) {
                out.bucket("fresh_ids_differ");
            }
            let rq = &rq2;
            let (o, _, mut fails) = run_request(&fresh, rq, None, false);
            // assumption `wf`: no id supplied twice, supplied ids are value or constant nodes
            {
                let mut seen = HashSet::new();
                let g = fresh.verif_graph();
                let ok = rq.ins.iter().all(|i| {
                    seen.insert(i.id)
                        && matches!(g.get_node(i.id), Some(RNode::Value(_)) | Some(RNode::Constant(_)))
                });
                out.bucket(if ok { "assumption.request_wf.ok" } else { "assumption.request_wf.VIOLATED" });
                if !ok {
                    let req = format!("# model {mi} request {ri} seed {} request assumptions", args.seed);
                    out.case(&req, "-", Some("ASSUMPTION (not the property): request not well formed"), false);
                }
            }
            // same inputs, all passed as views: same outputs (how a value is passed is not an input)
            if rq.ins.iter().any(|i| i.owned) {
                let mut rb = rq.clone();
                for i in rb.ins.iter_mut() {
                    i.owned = false;
                }
                let (o_b, _, _) = run_request(&fresh, &rb, None, false);
                out.bucket("owned_vs_borrowed");
                if !o.same(&o_b) {
                    fails.push(format!(
                        "request {ri} ({}) gives different outputs with owned and with borrowed inputs ({} vs {}); outputs {:?}",
                        rq.kind,
                        o.tag(),
                        o_b.tag(),
                        rq.outs.iter().map(|x| x.0.clone()).collect::<Vec<_>>()
                    ));
                }
            }
            // assumption `opContract` (in place == out of place): the same request with the hook's
            // never-in-place reference mode must give the same bits
            {
                exec_trace::set_never_in_place(true);
                let (o_ref, _, _) = run_request(&fresh, rq, None, false);
                exec_trace::set_never_in_place(false);
                let same = o.same(&o_ref);
                out.bucket(if same { "assumption.op_contract.ok" } else { "assumption.op_contract.VIOLATED" });
                if !same {
                    let req = format!("# model {mi} request {ri} seed {} operator contract", args.seed);
                    out.case(
                        &req,
                        "-",
                        Some(&format!(
                            "ASSUMPTION (not the property): in-place and never-in-place runs differ ({} vs {}); outputs {:?}",
                            o.tag(),
                            o_ref.tag(),
                            rq.outs.iter().map(|x| x.0.clone()).collect::<Vec<_>>()
                        )),
                        false,
                    );
                }
            }
            if let Some(prev1) = &first_1t[ri] {
                // and on a second fresh copy with the 1-thread pool
                if let Ok(fresh1) = load(&gm) {
                    if let Some(rq3) = rebind(rq, &fresh1) {
                        let (o1, _, _) = run_request(&fresh1, &rq3, Some(one_thread.clone()), false);
                        out.bucket("fresh_compare_1t");
                        if !prev1.same(&o1) {
                            fails.push(format!(
                                "request {ri} ({}) [1-thread pool] in the sequence differs from the same request on a fresh model ({} vs {}); outputs {:?}",
                                rq.kind,
                                prev1.tag(),
                                o1.tag(),
                                rq.outs.iter().map(|o| o.0.clone()).collect::<Vec<_>>()
                            ));
                        }
                    }
                }
            }
            if let Some(prev) = &first[ri] {
                out.bucket("fresh_compare");
                if !prev.same(&o) && std::env::var("C25_DEBUG").is_ok() {
                    eprintln!("model {mi} request {ri}: optimize={} prepack={}", gm.optimize, gm.prepack);
                    eprintln!("model bytes hex: {}", gm.bytes.iter().map(|b| format!("{b:02x}")).collect::<String>());
                    for i in &rq.ins {
                        eprintln!("  in {} owned={} shape={:?} data={:?} cond={:?}", i.name, i.owned, i.shape, i.data, i.cond);
                    }
                    eprintln!("  outs {:?}", rq.outs.iter().map(|o| o.0.clone()).collect::<Vec<_>>());
                    if let (Outcome::Ok(a), Outcome::Ok(b)) = (prev, &o) {
                        for (k, (x, y)) in a.iter().zip(b).enumerate() {
                            if x != y {
                                eprintln!("  output {k}: seq={:?}\n  fresh={:?}", x, y);
                            }
                        }
                    }
                }
                if !prev.same(&o) {
                    fails.push(format!(
                        "request {ri} ({}) in the sequence differs from the same request on a fresh model ({} vs {}); outputs {:?}",
                        rq.kind,
                        prev.tag(),
                        o.tag(),
                        rq.outs.iter().map(|o| o.0.clone()).collect::<Vec<_>>()
                    ));
                }
            }
            if !fails.is_empty() {
                let req = format!("# model {mi} request {ri} fresh-model comparison seed {}", args.seed);
                out.case(&req, "-", Some(&fails.join("; ")), false);
            }
        }
    }
    out.note(&format!("models {n_models}, runs {total_runs}, results differing between default and 1-thread pool: {xpool_diff}"));
    out.finish("constants and lent buffers byte-identical after every run; repeated and fresh-model results bit-identical; every mutably passed operand comes from temp_values or a by-value capture");
}
