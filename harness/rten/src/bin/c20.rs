//! C20 (partial): `.rten` header container, i64→i32 constant narrowing through the real ONNX
//! loader, and `f16_to_f32` on all 65536 bit patterns.
//!
//! Plus the end-to-end family (`c20_e2e.rs`): generated ONNX models are converted by the real
//! `rten-convert` (run through `harness/pyshim/run_convert.py`), both files are loaded and run.
//!
//! Requests (see lean/RtenVerif/Driver/C20.lean): `hdr`, `tobuf`, `f16`, `sat`, `cst`, `f64`;
//! `# e2e ...` lines carry the model bytes (hex) and are judged by the harness oracle only.
#[path = "../onnx_enc.rs"]
mod onnx_enc;
#[path = "../op_cases.rs"]
mod op_cases;
#[path = "../opcat.rs"]
mod opcat;
#[path = "../c01_templates.rs"]
mod c01_templates;
#[path = "../c20_e2e.rs"]
mod c20_e2e;
use hcommon::{Out, Rng};
use onnx_enc::{dt, Graph, Node, Tensor, ValueInfo};
use rten::{ModelOptions, Value};
use rten_model_file::header::{Header, HeaderError};
use rten_simd::float16::f16_to_f32;
use rten_tensor::prelude::*;

fn err_name(e: &HeaderError) -> &'static str {
    match e {
        HeaderError::TooShort => "TooShort",
        HeaderError::UnsupportedVersion => "UnsupportedVersion",
        HeaderError::InvalidMagic => "InvalidMagic",
        HeaderError::InvalidOffset => "InvalidOffset",
        HeaderError::InvalidLength => "InvalidLength",
    }
}

fn hdr_case(out: &mut Out, buf: &[u8], bucket: &str) {
    let req = format!("hdr {}", hcommon::join(buf.iter(), ","));
    let res = hcommon::catch(|| Header::from_buf(buf));
    let (ans, fail) = match res {
        Ok(Ok(h)) => {
            // property oracle: accepted offsets/lengths lie inside the file, computed in u128.
            let n = buf.len() as u128;
            let bad = (h.model_offset as u128) < 32
                || h.model_offset as u128 + h.model_len as u128 > n
                || (h.tensor_data_offset as u128) < 32
                || h.tensor_data_offset as u128 > n
                || h.to_buf() != buf[..32];
            (
                format!("ok {} {} {} {}", h.version, h.model_offset, h.model_len, h.tensor_data_offset),
                bad.then_some("accepted header is out of bounds or does not re-serialise to the same bytes"),
            )
        }
        Ok(Err(e)) => (format!("err:{}", err_name(&e)), None),
        Err(m) => (format!("panic {m}"), Some("Header::from_buf panicked")),
    };
    out.bucket(bucket);
    out.bucket(if ans.starts_with("ok") { "hdr_ok" } else { "hdr_err" });
    out.case(&req, &ans, fail, ans.starts_with("ok") || buf.len() >= 32);
}

/// Load an ONNX model holding an INT64 initializer and read it back as the i32 constant rten uses.
fn narrow_through_loader(vals: &[i64], raw: bool) -> Result<Vec<i32>, String> {
    let mut t = Tensor::i64s("c", &[vals.len() as i64], vals);
    if !raw {
        t.data = onnx_enc::TensorData::Int64s(vals.to_vec());
    }
    let g = Graph {
        nodes: vec![Node::new("Identity", "id", &["c"], &["y"])],
        initializers: vec![t],
        inputs: vec![],
        outputs: vec![ValueInfo::new("y", dt::INT64, None)],
        ..Default::default()
    };
    let model = ModelOptions::with_all_ops()
        .enable_optimization(false)
        .load(g.into_model_bytes(21))
        .map_err(|e| format!("load: {e}"))?;
    let y = model.node_id("y").map_err(|e| format!("{e}"))?;
    let outv = model.run(vec![], &[y], None).map_err(|e| format!("run: {e}"))?;
    match outv.into_iter().next() {
        Some(Value::Int32Tensor(t)) => Ok(t.to_vec()),
        _ => Err("unexpected output type".into()),
    }
}

fn main() {
    let args = hcommon::parse_args();
    hcommon::quiet_panics();
    let mut out = Out::new(&args.out);
    let mut rng = Rng::new(args.seed);

    // (1) header parsing: valid headers, boundary offsets, mutations, truncations, random bytes.
    let n_hdr = if args.thorough { 200_000 } else { 20_000 };
    for _ in 0..n_hdr {
        let body = rng.usize_below(40);
        let n = 32 + body;
        let kind = rng.below(8);
        let pick_off = |rng: &mut Rng| -> u64 {
            match rng.below(8) {
                0 => 32,
                1 => n as u64,
                2 => n as u64 + 1,
                3 => 31,
                4 => u64::MAX - rng.below(3),
                5 => (1u64 << 63) + rng.below(3),
                _ => 32 + rng.below(body as u64 + 1),
            }
        };
        let mo = pick_off(&mut rng);
        let ml = match rng.below(6) {
            0 => 0,
            1 => u64::MAX - rng.below(40),
            2 => (n as u64).saturating_sub(mo),
            3 => (n as u64).saturating_sub(mo).wrapping_add(1),
            4 => u64::MAX - mo.wrapping_sub(1),
            _ => rng.below(body as u64 + 2),
        };
        let td = pick_off(&mut rng);
        let h = Header { version: if rng.chance(1, 12) { rng.below(5) as u32 } else { 2 }, model_offset: mo, model_len: ml, tensor_data_offset: td };
        let mut buf = h.to_buf();
        buf.extend((0..body).map(|_| rng.below(256) as u8));
        let bucket = match kind {
            0 => {
                let k = rng.usize_below(buf.len() + 1);
                buf.truncate(k);
                "hdr_truncated"
            }
            1 => {
                let k = rng.usize_below(32.min(buf.len()));
                buf[k] ^= 1 << rng.below(8);
                "hdr_bitflip"
            }
            2 => {
                for b in buf.iter_mut() {
                    *b = rng.below(256) as u8;
                }
                "hdr_random"
            }
            _ => "hdr_structured",
        };
        hdr_case(&mut out, &buf, bucket);
    }
    hdr_case(&mut out, &[], "hdr_truncated");

    // (2) to_buf
    for _ in 0..2000 {
        let h = Header {
            version: rng.next_u64() as u32,
            model_offset: rng.next_u64() >> rng.below(64),
            model_len: rng.next_u64() >> rng.below(64),
            tensor_data_offset: rng.next_u64() >> rng.below(64),
        };
        let req = format!("tobuf {} {} {} {}", h.version, h.model_offset, h.model_len, h.tensor_data_offset);
        let b = h.to_buf();
        let fail = (b.len() != Header::LEN).then_some("to_buf length is not Header::LEN");
        out.bucket("tobuf");
        out.case(&req, &hcommon::join(b.iter(), ","), fail, true);
    }

    // (3) f16 → f32: every bit pattern (exhaustive in both tiers).
    for i in 0..=u16::MAX {
        let r = f16_to_f32(i);
        // oracle: value preserved exactly (computed independently in f64 from the f16 fields).
        let s = if i & 0x8000 != 0 { -1.0f64 } else { 1.0 };
        let e = ((i >> 10) & 0x1f) as i32;
        let m = (i & 0x3ff) as f64;
        let expect = if e == 31 {
            if m == 0.0 { s * f64::INFINITY } else { f64::NAN }
        } else if e == 0 {
            s * m * 2f64.powi(-24)
        } else {
            s * (1024.0 + m) * 2f64.powi(e - 25)
        };
        let ok = (expect.is_nan() && r.is_nan()) || (r as f64 == expect && r.is_sign_negative() == (i & 0x8000 != 0));
        out.bucket("f16");
        out.case(&format!("f16 {i}"), &r.to_bits().to_string(), (!ok).then_some("f16_to_f32 changed the value"), e != 0 || m != 0.0);
    }

    // (4) i64 → i32 narrowing through the real ONNX loader.
    let n_sat = if args.thorough { 3000 } else { 300 };
    for k in 0..n_sat {
        let len = 1 + rng.usize_below(6);
        let vals: Vec<i64> = (0..len)
            .map(|_| match rng.below(8) {
                0 => i64::MAX - rng.below(3) as i64,
                1 => i64::MIN + rng.below(3) as i64,
                2 => i32::MAX as i64 + rng.range_i64(-2, 2),
                3 => i32::MIN as i64 + rng.range_i64(-2, 2),
                4 => rng.range_i64(-5, 5),
                5 => (rng.next_u64() >> rng.below(40)) as i64,
                6 => -((rng.next_u64() >> (1 + rng.below(40))) as i64),
                _ => rng.next_u64() as i64,
            })
            .collect();
        let raw = k % 2 == 0;
        let req = format!("sat {}", hcommon::join(vals.iter(), ","));
        let res = hcommon::catch(|| narrow_through_loader(&vals, raw));
        let (ans, fail) = match res {
            Ok(Ok(v)) => {
                let expect: Vec<i32> = vals.iter().map(|&x| x.clamp(i32::MIN as i64, i32::MAX as i64) as i32).collect();
                (hcommon::join(v.iter(), ","), (v != expect).then_some("int64 constant not saturated to i32"))
            }
            Ok(Err(e)) => (format!("err {e}"), Some("loader rejected a valid int64 initializer")),
            Err(m) => (format!("panic {m}"), Some("loader panicked")),
        };
        out.bucket(if raw { "sat_raw_data" } else { "sat_int64_data" });
        out.case(&req, &ans, fail, vals.iter().any(|&x| x > i32::MAX as i64 || x < i32::MIN as i64));
    }
    // (5) end-to-end: ONNX file vs the .rten file produced by the real converter.
    e2e(&mut out, &mut rng, &args);
    out.finish("headers: serialised random/boundary Header values with random bodies, truncated / bit-flipped / random variants; to_buf on random fields; all 65536 f16 patterns; int64 initializers (raw_data and int64_data encodings) with boundary and random values loaded through ModelOptions::load; end-to-end: single-operator models of two operator catalogues with inputs turned into constants of every storage dtype/encoding, constants of every dtype (int64 beyond i32, bool bytes, f64 halfway/overflow/subnormal/NaN, f16 all classes, typed and raw, 0-d and empty), Constant-op attributes, legacy attributes, default attributes, If/Loop subgraphs, fusion-pattern and random multi-operator graphs, external data: each converted by the real rten-convert and both files loaded and run with optimizations off and on; non-trivial = accepted or full-length header, non-zero f16, out-of-i32-range constants, converted models whose two files ran");
}

fn canon_answer(c: &[c20_e2e::Canon]) -> String {
    match c.first() {
        Some(c) => format!("{} {}", c.dtype, hcommon::join(c.bits.iter().map(|&b| if c.dtype == "f32" || c.dtype == "u8" { (b as u64).to_string() } else if c.dtype == "i8" { (b as u8 as i8).to_string() } else { (b as i32).to_string() }), ",")),
        None => "none".into(),
    }
}

fn e2e(out: &mut Out, rng: &mut Rng, args: &hcommon::Args) {
    use c20_e2e::*;
    let t0 = std::time::Instant::now();
    let th = args.thorough;
    let mut tags: Vec<String> = vec![];
    let mut models: Vec<E2e> = vec![];
    models.extend(family_catalogue(rng, if th { 12 } else { 3 }, &mut tags));
    models.extend(family_constants(rng, if th { 1500 } else { 300 }, if th { 40 } else { 10 }));
    models.extend(family_constant_op(rng, if th { 400 } else { 80 }));
    models.extend(family_legacy_attrs(rng, if th { 600 } else { 120 }));
    models.extend(family_defaults(rng, if th { 8 } else { 2 }));
    models.extend(family_subgraphs(rng, if th { 100 } else { 20 }));
    models.extend(family_graphs(rng, th, if th { 600 } else { 120 }));
    models.extend(family_external(rng, if th { 60 } else { 15 }));
    models.extend(family_conv_no_kernel_shape(rng, if th { 12 } else { 3 }, &mut tags));
    // one model in seven is written in the V1 container (FlatBuffers only, tensor data inline)
    for m in models.iter_mut() {
        if rng.chance(1, 7) {
            m.extra_args = "--v1".into();
        }
    }
    let dir = std::path::Path::new(&args.out).join("e2e");
    let _ = std::fs::remove_dir_all(&dir);
    let conv = convert_all(&dir, &models, 12);
    let t_conv = t0.elapsed().as_secs_f64();
    let mut cov = Coverage::default();
    for (i, (e, c)) in models.iter().zip(&conv).enumerate() {
        let v = compare(e, c);
        cov.record(e, c.status == "ok");
        let fam = e.label.split('/').next().unwrap_or("?").to_string();
        out.bucket(&format!("e2e:{fam}"));
        if e.extra_args == "--v1" {
            out.bucket("e2e:format_v1");
        }
        for b in &v.buckets {
            out.bucket(&format!("e2e:{b}"));
        }
        let ran = v.buckets.iter().any(|b| b.ends_with("same_outputs") || b.contains("DIFFERENT"));
        let mut fail = v.fail.clone();
        if fail.is_some() {
            // keep the failing pair for inspection
            let keep = std::path::Path::new(&args.out).join("e2e_fail");
            let _ = std::fs::create_dir_all(&keep);
            let _ = std::fs::copy(&c.onnx_path, keep.join(format!("m{i}.onnx")));
            let _ = std::fs::copy(&c.rten_path, keep.join(format!("m{i}.rten")));
        }
        match &e.cst_req {
            Some(req) => {
                // answered by the Lean model: the narrowed constant as the ONNX loader produced it
                let ans = match &v.onnx_out {
                    Some(o) => canon_answer(o),
                    None => {
                        fail.get_or_insert("the ONNX loader rejected or failed on a well-formed constant".into());
                        "err".into()
                    }
                };
                if c.status != "ok" {
                    fail.get_or_insert(format!("rten-convert refused a well-formed constant: {} {}", c.status, c.stderr));
                }
                out.case(req, &ans, fail.as_deref(), ran);
            }
            None => {
                let bytes = std::fs::read(&c.onnx_path).unwrap_or_default();
                let req = format!("# e2e {i} {} opset={}{} onnx={}", e.label.replace(' ', "_"), e.opset, if e.extra_args.is_empty() { String::new() } else { format!(" args={}", e.extra_args) }, hex(&bytes));
                let ans = if c.status == "ok" { v.answer.clone() } else { format!("{} [{}]", v.answer, c.status.chars().take(160).collect::<String>()) };
                out.case(&req, &ans, fail.as_deref(), ran);
            }
        }
    }
    for t in &tags {
        out.bucket(&format!("e2e:input_as:{t}"));
    }
    out.note(&format!(
        "e2e: {} models generated, {} converted by rten-convert, {} refused; converter wall {:.1}s, total {:.1}s",
        models.len(),
        cov.models_converted,
        cov.models_refused,
        t_conv,
        t0.elapsed().as_secs_f64()
    ));
    out.note(&format!("e2e operators converted ({}): {}", cov.ops_converted.len(), hcommon::join(cov.ops_converted.iter(), " ")));
    let only_refused: Vec<&String> = cov.ops_refused.iter().filter(|o| !cov.ops_converted.contains(*o)).collect();
    out.note(&format!("e2e operators only ever refused ({}): {}", only_refused.len(), hcommon::join(only_refused.iter(), " ")));
    out.note(&format!("e2e attribute kinds converted: {}; distinct operator.attribute names: {}", hcommon::join(cov.attr_kinds.iter(), " "), cov.attr_names.len()));
    out.note(&format!("e2e constant dtype:encoding converted: {}", hcommon::join(cov.const_dtypes.iter(), " ")));
    if !std::env::var("VERIF_KEEP_E2E").is_ok() {
        let _ = std::fs::remove_dir_all(&dir);
    }
}
