//! C20 (partial): `.rten` header container, i64→i32 constant narrowing through the real ONNX
//! loader, and `f16_to_f32` on all 65536 bit patterns.
//!
//! Requests (see lean/RtenVerif/Driver/C20.lean): `hdr`, `tobuf`, `f16`, `sat`.
#[path = "../onnx_enc.rs"]
mod onnx_enc;
use hcommon::{Out, Rng};
use onnx_enc::{dt, Graph, Node, Tensor, ValueInfo};
use rten::{ModelOptions, Value};
use rten_model_file::header::{Header, HeaderError};
use rten_simd::float16::f16_to_f32;
use rten_tensor::prelude::*;

fn err_name(e: &HeaderError) -> &'static str {
    match e {
        HeaderError::TooShort => "TooShort",
        HeaderError::UnsupportedVersion => "UnsupportedVersion",
        HeaderError::InvalidMagic => "InvalidMagic",
        HeaderError::InvalidOffset => "InvalidOffset",
        HeaderError::InvalidLength => "InvalidLength",
    }
}

fn hdr_case(out: &mut Out, buf: &[u8], bucket: &str) {
    let req = format!("hdr {}", hcommon::join(buf.iter(), ","));
    let res = hcommon::catch(|| Header::from_buf(buf));
    let (ans, fail) = match res {
        Ok(Ok(h)) => {
            // property oracle: accepted offsets/lengths lie inside the file, computed in u128.
            let n = buf.len() as u128;
            let bad = (h.model_offset as u128) < 32
                || h.model_offset as u128 + h.model_len as u128 > n
                || (h.tensor_data_offset as u128) < 32
                || h.tensor_data_offset as u128 > n
                || h.to_buf() != buf[..32];
            (
                format!("ok {} {} {} {}", h.version, h.model_offset, h.model_len, h.tensor_data_offset),
                bad.then_some("accepted header is out of bounds or does not re-serialise to the same bytes"),
            )
        }
        Ok(Err(e)) => (format!("err:{}", err_name(&e)), None),
        Err(m) => (format!("panic {m}"), Some("Header::from_buf panicked")),
    };
    out.bucket(bucket);
    out.bucket(if ans.starts_with("ok") { "hdr_ok" } else { "hdr_err" });
    out.case(&req, &ans, fail, ans.starts_with("ok") || buf.len() >= 32);
}

/// Load an ONNX model holding an INT64 initializer and read it back as the i32 constant rten uses.
fn narrow_through_loader(vals: &[i64], raw: bool) -> Result<Vec<i32>, String> {
    let mut t = Tensor::i64s("c", &[vals.len() as i64], vals);
    if !raw {
        t.data = onnx_enc::TensorData::Int64s(vals.to_vec());
    }
    let g = Graph {
        nodes: vec![Node::new("Identity", "id", &["c"], &["y"])],
        initializers: vec![t],
        inputs: vec![],
        outputs: vec![ValueInfo::new("y", dt::INT64, None)],
        ..Default::default()
    };
    let model = ModelOptions::with_all_ops()
        .enable_optimization(false)
        .load(g.into_model_bytes(21))
        .map_err(|e| format!("load: {e}"))?;
    let y = model.node_id("y").map_err(|e| format!("{e}"))?;
    let outv = model.run(vec![], &[y], None).map_err(|e| format!("run: {e}"))?;
    match outv.into_iter().next() {
        Some(Value::Int32Tensor(t)) => Ok(t.to_vec()),
        _ => Err("unexpected output type".into()),
    }
}

fn main() {
    let args = hcommon::parse_args();
    hcommon::quiet_panics();
    let mut out = Out::new(&args.out);
    let mut rng = Rng::new(args.seed);

    // (1) header parsing: valid headers, boundary offsets, mutations, truncations, random bytes.
    let n_hdr = if args.thorough { 200_000 } else { 20_000 };
    for _ in 0..n_hdr {
        let body = rng.usize_below(40);
        let n = 32 + body;
        let kind = rng.below(8);
        let pick_off = |rng: &mut Rng| -> u64 {
            match rng.below(8) {
                0 => 32,
                1 => n as u64,
                2 => n as u64 + 1,
                3 => 31,
                4 => u64::MAX - rng.below(3),
                5 => (1u64 << 63) + rng.below(3),
                _ => 32 + rng.below(body as u64 + 1),
            }
        };
        let mo = pick_off(&mut rng);
        let ml = match rng.below(6) {
            0 => 0,
            1 => u64::MAX - rng.below(40),
            2 => (n as u64).saturating_sub(mo),
            3 => (n as u64).saturating_sub(mo).wrapping_add(1),
            4 => u64::MAX - mo.wrapping_sub(1),
            _ => rng.below(body as u64 + 2),
        };
        let td = pick_off(&mut rng);
        let h = Header { version: if rng.chance(1, 12) { rng.below(5) as u32 } else { 2 }, model_offset: mo, model_len: ml, tensor_data_offset: td };
        let mut buf = h.to_buf();
        buf.extend((0..body).map(|_| rng.below(256) as u8));
        let bucket = match kind {
            0 => {
                let k = rng.usize_below(buf.len() + 1);
                buf.truncate(k);
                "hdr_truncated"
            }
            1 => {
                let k = rng.usize_below(32.min(buf.len()));
                buf[k] ^= 1 << rng.below(8);
                "hdr_bitflip"
            }
            2 => {
                for b in buf.iter_mut() {
                    *b = rng.below(256) as u8;
                }
                "hdr_random"
            }
            _ => "hdr_structured",
        };
        hdr_case(&mut out, &buf, bucket);
    }
    hdr_case(&mut out, &[], "hdr_truncated");

    // (2) to_buf
    for _ in 0..2000 {
        let h = Header {
            version: rng.next_u64() as u32,
            model_offset: rng.next_u64() >> rng.below(64),
            model_len: rng.next_u64() >> rng.below(64),
            tensor_data_offset: rng.next_u64() >> rng.below(64),
        };
        let req = format!("tobuf {} {} {} {}", h.version, h.model_offset, h.model_len, h.tensor_data_offset);
        let b = h.to_buf();
        let fail = (b.len() != Header::LEN).then_some("to_buf length is not Header::LEN");
        out.bucket("tobuf");
        out.case(&req, &hcommon::join(b.iter(), ","), fail, true);
    }

    // (3) f16 → f32: every bit pattern (exhaustive in both tiers).
    for i in 0..=u16::MAX {
        let r = f16_to_f32(i);
        // oracle: value preserved exactly (computed independently in f64 from the f16 fields).
        let s = if i & 0x8000 != 0 { -1.0f64 } else { 1.0 };
        let e = ((i >> 10) & 0x1f) as i32;
        let m = (i & 0x3ff) as f64;
        let expect = if e == 31 {
            if m == 0.0 { s * f64::INFINITY } else { f64::NAN }
        } else if e == 0 {
            s * m * 2f64.powi(-24)
        } else {
            s * (1024.0 + m) * 2f64.powi(e - 25)
        };
        let ok = (expect.is_nan() && r.is_nan()) || (r as f64 == expect && r.is_sign_negative() == (i & 0x8000 != 0));
        out.bucket("f16");
        out.case(&format!("f16 {i}"), &r.to_bits().to_string(), (!ok).then_some("f16_to_f32 changed the value"), e != 0 || m != 0.0);
    }

    // (4) i64 → i32 narrowing through the real ONNX loader.
    let n_sat = if args.thorough { 3000 } else { 300 };
    for k in 0..n_sat {
        let len = 1 + rng.usize_below(6);
        let vals: Vec<i64> = (0..len)
            .map(|_| match rng.below(8) {
                0 => i64::MAX - rng.below(3) as i64,
                1 => i64::MIN + rng.below(3) as i64,
                2 => i32::MAX as i64 + rng.range_i64(-2, 2),
                3 => i32::MIN as i64 + rng.range_i64(-2, 2),
                4 => rng.range_i64(-5, 5),
                5 => (rng.next_u64() >> rng.below(40)) as i64,
                6 => -((rng.next_u64() >> (1 + rng.below(40))) as i64),
                _ => rng.next_u64() as i64,
            })
            .collect();
        let raw = k % 2 == 0;
        let req = format!("sat {}", hcommon::join(vals.iter(), ","));
        let res = hcommon::catch(|| narrow_through_loader(&vals, raw));
        let (ans, fail) = match res {
            Ok(Ok(v)) => {
                let expect: Vec<i32> = vals.iter().map(|&x| x.clamp(i32::MIN as i64, i32::MAX as i64) as i32).collect();
                (hcommon::join(v.iter(), ","), (v != expect).then_some("int64 constant not saturated to i32"))
            }
            Ok(Err(e)) => (format!("err {e}"), Some("loader rejected a valid int64 initializer")),
            Err(m) => (format!("panic {m}"), Some("loader panicked")),
        };
        out.bucket(if raw { "sat_raw_data" } else { "sat_int64_data" });
        out.case(&req, &ans, fail, vals.iter().any(|&x| x > i32::MAX as i64 || x < i32::MIN as i64));
    }
    out.finish("headers: serialised random/boundary Header values with random bodies, truncated / bit-flipped / random variants; to_buf on random fields; all 65536 f16 patterns; int64 initializers (raw_data and int64_data encodings) with boundary and random values loaded through ModelOptions::load; non-trivial = accepted or full-length header, non-zero f16, out-of-i32-range constants");
}
