//! C14: operator results do not depend on input memory layout.
//!
//! Model-compared requests (see lean/RtenVerif/Driver/C14.lean):
//!   `fb from=<shape> to=<shape>`  → `some <cycles> <repeats>` | `none` | `panic`
//!       `fast_broadcast_cycles_repeats` on the real crate; oracle: when it answers `some (c, r)` for a
//!       broadcastable pair, `c·r·|from| = |to|` and the real `broadcast` view reads `x[(i / r) mod |x|]`.
//!   `bc from=<shape> to=<shape>`  → `<ints>` | `err`
//!       element sequence of `Tensor::arange(|from|).reshaped(from).broadcast(to)` (the reference
//!       broadcast of the Lean model is tied to the real view machinery).
//!   `bop <Add|Sub|Mul> a=<base>@<size:stride,…> b=<base>@<size:stride,…>` → `shape=<shape> data=<ints>` | `err`
//!       the real `rten::ops::{add,sub,mul}` (`binary_op`: fast / general dispatch) on i32 *views* with
//!       arbitrary strides (permuted, stepped, stride 0, overlapping) over storage `a[i] = i+1`, `b[i] = 100(i+1)`.
//!   `uop a=<base>@<size:stride,…>` → `shape=<shape> data=<ints>`   (`Neg` on such a view: `unary_op`)
//!   `ti ins=<view>[|<view>] specs=<idx>:<perm>;…` (`r` = reverse) → `shape=… data=…` | `err` | `panic`
//!       nested `TransformInputs` wrappers around Identity (one input) or Sub (two inputs): transform lists over
//!       several inputs, indices past the end (MissingInputs), invalid permutations (panic).
//!   `tir <Add|Sub|Mul> a=<view> b=<view> specs=<idx>:<perm>;…` → `shape=… data=…` | `err` | `panic`
//!       `TransformInputs(op)::run_in_place` with operand 0 passed as the owned in-place value (explicit
//!       non-overlapping strides) and `ctx.inputs() = [None, b]`: transforms on input 1 apply, transforms
//!       on input 0 or past the end are `MissingInputs`.
//!   `tip ips=<list> idx=<list>` → `ips=<list>`   `TransformInputs::in_place_inputs` of nested wrappers.
//!   `cp a=<base>@<dims>` → `shape=… data=…`   `TensorView::to_tensor()` (copy_into_slice / blocked transpose
//!       copy) of a rank 2–4 view whose inner sizes cross the tile / block boundaries: logical row-major order.
//!   `red a=<base>@<dims> k=<n>` → `shape=… data=…`   ReduceSum (keepdims) over the innermost `k` axes of an
//!       i32 view with arbitrary strides (`reduce`: contiguous-chunks fast path vs lanes / packed slices).
//!   `im2col c=<n> h=<n> w=<n> k=<kh,kw> pads=<t,l,b,r> str=<sh,sw> dil=<dy,dx> ist=<sc,sth,stw> steps=<col,row>`
//!       → `rows=… cols=… rc=… ry=… rx=… cy=… cx=… my=… mx=…` | `panic`: the offset tables of the real
//!       `build_im2col` for an image view with those strides (NCHW, NHWC-permuted, stepped, transposed, stride 0).
//!   `cov <names>` → `not-exercised=<names>`: registry operators (translate/registry_ops.py) without a case.
//! Oracle-only requests (`#lay …`): for every catalogue operator, the same logical inputs presented as
//! contiguous tensors (baseline) and as views of differently laid-out storage — permuted, transposed, strided
//! (all axes / column-stepped / row-stepped), `with_capacity`-backed, broadcast (stride-0) — one data input at a time and all at once,
//! plus the `TransformInputs` wrapper fed the pre-permuted storage.  Outputs must agree in count,
//! dtype, shape and element bits (all NaNs identified).
#[path = "../onnx_enc.rs"]
mod onnx_enc;
#[path = "../opcat.rs"]
mod opcat;
use hcommon::{Args, Out, Rng};
use opcat::*;
use rten::verif::Operator;
use rten::{Value, ValueView};
use rten_tensor::prelude::*;
use rten_tensor::Tensor;
use std::collections::BTreeSet;

type RunRes = Result<Result<Vec<Canon>, String>, String>;

fn res_class(r: &RunRes) -> &'static str {
    match r {
        Ok(Ok(_)) => "ok",
        Ok(Err(_)) => "err",
        Err(_) => "panic",
    }
}

/// All outputs agree except for f32 elements that differ at rounding level, *relative to the
/// output*: every differing pair satisfies `|p − q| ≤ 2^-10 · max(|p|, |q|) + 2^-20 · M`, where `M`
/// is the largest magnitude in that output tensor (the second term only covers elements that
/// nearly cancel) plus `2^-22 · hint` for results that cancel to almost zero in a small output tensor.
/// A different summation order, not a different element being read.
fn rounding_only(a: &[Canon], b: &[Canon], hint: f32) -> bool {
    if a.len() != b.len() {
        return false;
    }
    for (x, y) in a.iter().zip(b) {
        if x.dtype != y.dtype || x.shape != y.shape || x.bits.len() != y.bits.len() || x.items != y.items {
            return false;
        }
        if x.bits == y.bits {
            continue;
        }
        if x.dtype != "f32" {
            return false;
        }
        let fx: Vec<f32> = x.bits.iter().map(|&b| f32::from_bits(b)).collect();
        let fy: Vec<f32> = y.bits.iter().map(|&b| f32::from_bits(b)).collect();
        let m = fx.iter().chain(&fy).filter(|v| v.is_finite()).fold(0f32, |m, v| m.max(v.abs()));
        for (p, q) in fx.iter().zip(&fy) {
            if p.to_bits() == q.to_bits() {
                continue;
            }
            // third term: elements that cancel to (almost) zero while the output tensor itself is small —
            // the rounding error of a dot product scales with the INPUT magnitudes (hint = 8·Π max(1,|input|)),
            // here at 2^-22 of it (16× tighter than the old absolute tolerance)
            let tol = p.abs().max(q.abs()) / 1024.0 + m / 1_048_576.0 + hint / 4_194_304.0;
            if !(p.is_finite() && q.is_finite()) || (p - q).abs() > tol {
                return false;
            }
        }
    }
    true
}

fn compare(base: &RunRes, other: &RunRes, what: &str, hint: f32) -> Option<String> {
    match (base, other) {
        (Ok(Ok(a)), Ok(Ok(b))) => canon_diff(a, b).map(|d| {
            if rounding_only(a, b, hint) {
                format!("rounding-only difference, {what}: {d}")
            } else {
                format!("{what}: {d}")
            }
        }),
        (Ok(Ok(_)), Ok(Err(e))) => Some(format!("{what}: contiguous run succeeds, this run fails with {e}")),
        (Ok(Ok(_)), Err(p)) => Some(format!("{what}: contiguous run succeeds, this run panics: {p}")),
        (Ok(Err(e)), Ok(Ok(_))) => Some(format!("{what}: contiguous run fails ({e}), this run succeeds")),
        (Ok(Err(_)), Err(p)) => Some(format!("{what}: contiguous run returns an error, this run panics: {p}")),
        (Err(p), Ok(_)) => Some(format!("{what}: contiguous run panics ({p}), this run does not")),
        _ => None,
    }
}

fn run_vals(op: &dyn Operator, inputs: &[Option<Value>], n_out: usize) -> RunRes {
    hcommon::catch(|| {
        let vs: Vec<Option<ValueView>> = inputs.iter().map(|v| v.as_ref().map(|v| v.into())).collect();
        run_op(op, &vs, n_out).map(|o| o.iter().map(canon).collect())
    })
}

/// Run with input `k` replaced by a broadcast (stride-0) view of `small` to `shape`.
fn run_with_bcast(op: &dyn Operator, inputs: &[Option<Value>], k: usize, small: &Value, shape: &[usize], n_out: usize) -> RunRes {
    hcommon::catch(|| {
        let mut vs: Vec<Option<ValueView>> = inputs.iter().map(|v| v.as_ref().map(|v| v.into())).collect();
        vs[k] = Some(match small {
            Value::FloatTensor(t) => ValueView::from(t.broadcast(shape)),
            Value::Int32Tensor(t) => ValueView::from(t.broadcast(shape)),
            Value::Int8Tensor(t) => ValueView::from(t.broadcast(shape)),
            Value::UInt8Tensor(t) => ValueView::from(t.broadcast(shape)),
            _ => unreachable!(),
        });
        run_op(op, &vs, n_out).map(|o| o.iter().map(canon).collect())
    })
}

/// `x` restricted to index 0 along `axes` (sizes become 1), as a contiguous tensor.
fn shrink(v: &Value, axes: &[usize]) -> Value {
    fn go<T: Copy>(t: &Tensor<T>, axes: &[usize]) -> Tensor<T> {
        let mut view = t.view();
        for &a in axes {
            view = view.slice_axis(a, 0..1);
        }
        view.to_tensor()
    }
    match v {
        Value::FloatTensor(t) => go(t, axes).into(),
        Value::Int32Tensor(t) => go(t, axes).into(),
        Value::Int8Tensor(t) => go(t, axes).into(),
        Value::UInt8Tensor(t) => go(t, axes).into(),
        other => other.clone(),
    }
}

fn bcast_copy(small: &Value, shape: &[usize]) -> Value {
    match small {
        Value::FloatTensor(t) => t.broadcast(shape).to_tensor().into(),
        Value::Int32Tensor(t) => t.broadcast(shape).to_tensor().into(),
        Value::Int8Tensor(t) => t.broadcast(shape).to_tensor().into(),
        Value::UInt8Tensor(t) => t.broadcast(shape).to_tensor().into(),
        other => other.clone(),
    }
}

/// Contiguous storage `s` and permutation `perm` with `s.permuted(perm)` == `v` logically.
fn pre_permuted(v: &Value, rng: &mut Rng) -> (Value, Vec<usize>) {
    let n = shape_of(v).len();
    let mut inv: Vec<usize> = (0..n).collect();
    rng.shuffle(&mut inv);
    let mut perm = vec![0usize; n];
    for (i, &p) in inv.iter().enumerate() {
        perm[p] = i;
    }
    fn go<T: Copy>(t: &Tensor<T>, inv: &[usize]) -> Tensor<T> {
        t.permuted(inv).to_tensor()
    }
    let s = match v {
        Value::FloatTensor(t) => go(t, &inv).into(),
        Value::Int32Tensor(t) => go(t, &inv).into(),
        Value::Int8Tensor(t) => go(t, &inv).into(),
        Value::UInt8Tensor(t) => go(t, &inv).into(),
        other => other.clone(),
    };
    (s, perm)
}

struct Ctx {
    out: Out,
    cache: OpCache,
    exercised: BTreeSet<String>,
    noted: BTreeSet<String>,
}

/// Registry operators without a layout case (see checks/C14.json).
const NOT_EXERCISED: &str = "not-exercised=ConcatFromSequence,ConstantOfShape,DFT,Dropout,GroupQueryAttention,If,Loop,MatMulNBits,MultiHeadAttention,Multinomial,NonMaxSuppression,RandomNormal,RandomNormalLike,RandomUniform,RandomUniformLike,Range,RotaryEmbedding,STFT,SequenceAt,SequenceConstruct,SequenceEmpty,SequenceErase,SequenceInsert,SequenceLength,SkipSimplifiedLayerNormalisation,SplitToSequence,com.microsoft.RotaryEmbedding";

const LAYOUTS: [Var; 6] = [Var::Permuted, Var::Strided, Var::Spare, Var::Transposed, Var::ColStep, Var::RowStep];

fn generic_case(cx: &mut Ctx, name: &'static str, case_seed: u64) {
    let mut rng = Rng::new(case_seed);
    let Some(case) = gen(name, &mut rng) else { return };
    let op = match cx.cache.get(&case) {
        Ok(op) => op,
        Err(e) => {
            cx.out.bucket(&format!("loadfail:{name}"));
            if cx.noted.insert(name.to_string()) {
                cx.out.note(&format!("load failed for {}: {e}", case.describe()));
            }
            return;
        }
    };
    let data: Vec<usize> = case
        .data_inputs
        .iter()
        .copied()
        .filter(|&i| matches!(case.inputs.get(i), Some(Some(v)) if !matches!(v, Value::Sequence(_))))
        .collect();
    if data.is_empty() {
        cx.out.bucket(&format!("no-data-input:{name}"));
        return;
    }
    if !op.is_deterministic() {
        cx.out.bucket(&format!("non-deterministic:{name}"));
        return;
    }
    let hint: f32 = 8.0
        * case
            .inputs
            .iter()
            .flatten()
            .map(|v| match v {
                Value::FloatTensor(t) => t.iter().filter(|x| x.is_finite()).fold(1.0f32, |m, x| m.max(x.abs())),
                _ => 1.0,
            })
            .product::<f32>();
    let base = run_vals(&*op, &case.inputs, case.n_out);
    if std::env::var("VERIF_DUMP").is_ok() {
        eprintln!("case: {}", case.describe());
        for (i, v) in case.inputs.iter().enumerate() {
            eprintln!("  input {i}: {:?}", v);
        }
        eprintln!("  contiguous run: {:?}", base);
    }
    let mut fails: Vec<String> = vec![];
    for &k in &data {
        for var in LAYOUTS {
            let mut ins = case.inputs.clone();
            ins[k] = Some(variant(case.inputs[k].as_ref().unwrap(), var, &mut rng));
            let r = run_vals(&*op, &ins, case.n_out);
            if let Some(f) = compare(&base, &r, &format!("input {k} as {var:?} view"), hint) {
                fails.push(f);
            }
            cx.out.bucket(&format!("lay:{var:?}:{}:{}", res_class(&base), res_class(&r)));
        }
        // broadcast view: the logical tensor is the broadcast of a smaller one
        let sh = shape_of(case.inputs[k].as_ref().unwrap());
        let axes: Vec<usize> = (0..sh.len()).filter(|_| rng.chance(1, 2)).collect();
        if !axes.is_empty() && sh.iter().all(|&d| d > 0) {
            let small = shrink(case.inputs[k].as_ref().unwrap(), &axes);
            let mut ins = case.inputs.clone();
            ins[k] = Some(bcast_copy(&small, &sh));
            let bbase = run_vals(&*op, &ins, case.n_out);
            let r = run_with_bcast(&*op, &case.inputs, k, &small, &sh, case.n_out);
            if let Some(f) = compare(&bbase, &r, &format!("input {k} as broadcast view over axes {axes:?}"), hint) {
                fails.push(f);
            }
            cx.out.bucket(&format!("lay:Broadcast:{}:{}", res_class(&bbase), res_class(&r)));
        }
        // TransformInputs(permute input k) fed the pre-permuted storage
        let (stored, perm) = pre_permuted(case.inputs[k].as_ref().unwrap(), &mut rng);
        let top = rten::verif::transform_inputs_permute(op.clone(), k, Some(perm.clone()));
        let mut ins = case.inputs.clone();
        ins[k] = Some(stored);
        let r = run_vals(&*top, &ins, case.n_out);
        if let Some(f) = compare(&base, &r, &format!("TransformInputs(permute input {k} by {perm:?})"), hint) {
            fails.push(f);
        }
        cx.out.bucket(&format!("lay:TransformInputs:{}:{}", res_class(&base), res_class(&r)));
    }
    if data.len() > 1 {
        let mut ins = case.inputs.clone();
        for &k in &data {
            let var = *rng.pick(&LAYOUTS);
            ins[k] = Some(variant(case.inputs[k].as_ref().unwrap(), var, &mut rng));
        }
        let r = run_vals(&*op, &ins, case.n_out);
        if let Some(f) = compare(&base, &r, "all data inputs as non-contiguous views", hint) {
            fails.push(f);
        }
    }
    cx.exercised.insert(op.name().to_string());
    cx.out.bucket(&format!("op:{}", op.name()));
    let req = format!("#lay {name} {case_seed} {}", case.describe());
    let ans = match &base {
        Err(m) => format!("panic {m}"),
        _ => res_class(&base).to_string(),
    };
    if std::env::var("VERIF_DUMP").is_ok() {
        for f in &fails {
            eprintln!("  FAIL {f}");
        }
    }
    // every failing sub-check of the case is reported on its own line (the request repeated with a
    // `fail#k` suffix), so that a known finding matching one of them cannot hide the others
    cx.out.case(&req, &ans, fails.first().map(|s| s.as_str()), matches!(base, Ok(Ok(_))));
    for (k, f) in fails.iter().enumerate().skip(1) {
        cx.out.case(&format!("{req} fail#{}", k + 1), &ans, Some(f.as_str()), false);
    }
}

fn shp(s: &[usize]) -> String {
    if s.is_empty() {
        "-".into()
    } else {
        hcommon::join(s.iter(), ",")
    }
}

fn fb_case(cx: &mut Ctx, from: &[usize], to: &[usize]) {
    let req = format!("fb from={} to={}", shp(from), shp(to));
    let r = hcommon::catch(|| rten::verif::fast_broadcast_cycles_repeats(from, to));
    let (ans, fail) = match r {
        Ok(Some((c, rp))) => {
            let mut fail = None;
            let nf: usize = from.iter().product();
            let nt: usize = to.iter().product();
            let can = Tensor::<u8>::zeros(from).can_broadcast_to(to);
            if can && nt <= 4096 {
                if c * rp * nf != nt {
                    fail = Some(format!("cycles*repeats*|from| = {} but |to| = {nt}", c * rp * nf));
                } else {
                    // reference = the real broadcast view of 0..nf
                    let x = Tensor::<i32>::arange(0, nf as i32, None).into_shape(from);
                    let bv = x.broadcast(to);
                    for (i, v) in bv.iter().enumerate() {
                        if *v as usize != (i / rp) % nf {
                            fail = Some(format!("broadcast element {i} is x[{v}], cycles/repeats say x[{}]", (i / rp) % nf));
                            break;
                        }
                    }
                }
            }
            (format!("some {c} {rp}"), fail)
        }
        Ok(None) => ("none".to_string(), None),
        Err(_) => ("panic".to_string(), None),
    };
    cx.out.bucket(&format!("fb:{}", ans.split(' ').next().unwrap()));
    cx.out.case(&req, &ans, fail.as_deref(), ans.starts_with("some") && from != to);
}

fn bc_case(cx: &mut Ctx, from: &[usize], to: &[usize]) {
    let req = format!("bc from={} to={}", shp(from), shp(to));
    let r = hcommon::catch(|| {
        let nf: usize = from.iter().product();
        let x = Tensor::<i32>::arange(0, nf as i32, None).into_shape(from);
        if !x.can_broadcast_to(to) {
            return None;
        }
        Some(x.broadcast(to).iter().copied().collect::<Vec<i32>>())
    });
    let ans = match r {
        Ok(Some(v)) => {
            if v.is_empty() {
                "-".to_string()
            } else {
                hcommon::join(v.iter(), ",")
            }
        }
        Ok(None) => "err".to_string(),
        Err(m) => format!("panic {m}"),
    };
    cx.out.bucket(if ans == "err" { "bc:err" } else { "bc:ok" });
    cx.out.case(&req, &ans, None, ans != "err" && from != to);
}

/// A random view description: base offset and (size, stride) per axis.
fn rand_view(rng: &mut Rng, shape: &[usize]) -> (usize, Vec<(usize, usize)>) {
    let n = shape.len();
    let mut strides = vec![0usize; n];
    let mut acc = 1usize;
    for d in (0..n).rev() {
        strides[d] = acc;
        acc *= shape[d].max(1);
    }
    match rng.below(6) {
        0 => {}
        1 => {
            // permuted storage
            let mut perm: Vec<usize> = (0..n).collect();
            rng.shuffle(&mut perm);
            let mut acc = 1usize;
            for &d in perm.iter().rev() {
                strides[d] = acc;
                acc *= shape[d].max(1);
            }
        }
        2 => {
            for st in strides.iter_mut() {
                *st *= 1 + rng.usize_below(3);
            }
        }
        3 => {
            for st in strides.iter_mut() {
                if rng.chance(1, 2) {
                    *st = 0;
                }
            }
        }
        4 => {
            for st in strides.iter_mut() {
                *st = rng.usize_below(7);
            }
        }
        _ => {
            if n > 0 {
                let k = rng.usize_below(n);
                strides[k] *= 2;
            }
        }
    }
    (rng.usize_below(4), shape.iter().copied().zip(strides).collect())
}

fn view_str(base: usize, dims: &[(usize, usize)]) -> String {
    format!("{base}@{}", if dims.is_empty() { "-".to_string() } else { hcommon::join(dims.iter().map(|(a, b)| format!("{a}:{b}")), ",") })
}

fn storage_len(base: usize, dims: &[(usize, usize)]) -> usize {
    if dims.iter().any(|d| d.0 == 0) {
        base
    } else {
        base + dims.iter().map(|d| (d.0 - 1) * d.1).sum::<usize>() + 1
    }
}

fn ints(v: &[i32]) -> String {
    if v.is_empty() {
        "-".into()
    } else {
        hcommon::join(v.iter(), ",")
    }
}

fn bop_case(cx: &mut Ctx, rng: &mut Rng) {
    let (sa, sb) = loop {
        let (a, b) = bpair(rng);
        if numel(&a) <= 64 && numel(&b) <= 64 {
            break (a, b);
        }
    };
    let (ba, da) = rand_view(rng, &sa);
    let (bb, db) = rand_view(rng, &sb);
    let opname = *rng.pick(&["Add", "Sub", "Mul"]);
    let req = format!("bop {opname} a={} b={}", view_str(ba, &da), view_str(bb, &db));
    let stor_a: Vec<i32> = (0..storage_len(ba, &da) as i32 + 2).map(|i| i + 1).collect();
    let stor_b: Vec<i32> = (0..storage_len(bb, &db) as i32 + 2).map(|i| 100 * (i + 1)).collect();
    let r = hcommon::catch(|| {
        let va = rten_tensor::TensorView::from_slice_with_strides(
            &sa[..],
            &stor_a[ba..],
            &da.iter().map(|d| d.1).collect::<Vec<_>>()[..],
        )
        .map_err(|e| format!("{e:?}"))?;
        let vb = rten_tensor::TensorView::from_slice_with_strides(
            &sb[..],
            &stor_b[bb..],
            &db.iter().map(|d| d.1).collect::<Vec<_>>()[..],
        )
        .map_err(|e| format!("{e:?}"))?;
        let pool = rten::BufferPool::new();
        let out = match opname {
            "Add" => rten::ops::add(&pool, va.clone(), vb.clone()),
            "Sub" => rten::ops::sub(&pool, va.clone(), vb.clone()),
            _ => rten::ops::mul(&pool, va.clone(), vb.clone()),
        }
        .map_err(|e| format!("{e:?}"))?;
        // independent oracle: the same operation on contiguous copies
        let (ca, cb) = (va.to_tensor(), vb.to_tensor());
        let refr = match opname {
            "Add" => rten::ops::add(&pool, ca.view(), cb.view()),
            "Sub" => rten::ops::sub(&pool, ca.view(), cb.view()),
            _ => rten::ops::mul(&pool, ca.view(), cb.view()),
        }
        .map_err(|e| format!("{e:?}"))?;
        let same = out.shape() == refr.shape() && out.iter().eq(refr.iter());
        Ok::<_, String>((out.shape().to_vec(), out.iter().copied().collect::<Vec<i32>>(), same))
    });
    let (ans, fail) = match r {
        Ok(Ok((shape, data, same))) => (
            format!("shape={} data={}", shp(&shape), ints(&data)),
            (!same).then_some("binary op on views differs from the same op on contiguous copies"),
        ),
        Ok(Err(_)) => ("err".to_string(), None),
        Err(m) => (format!("panic {m}"), Some("binary op panicked")),
    };
    cx.out.bucket(&format!("bop:{}", ans.split('=').next().unwrap_or("")));
    cx.out.case(&req, &ans, fail, ans.starts_with("shape"));
}

fn uop_case(cx: &mut Ctx, rng: &mut Rng) {
    let sh = loop {
        let s = rshape(rng, 4, 0);
        if numel(&s) <= 64 {
            break s;
        }
    };
    let (base, dims) = rand_view(rng, &sh);
    let req = format!("uop a={}", view_str(base, &dims));
    let stor: Vec<i32> = (0..storage_len(base, &dims) as i32 + 2).map(|i| i + 1).collect();
    let case = Case { name: "u", onnx: "Neg", domain: "", attrs: vec![], inputs: vec![Some(ti(rng, &[]))], n_out: 1, data_inputs: vec![] };
    let op = cx.cache.get(&case).expect("Neg loads");
    let r = hcommon::catch(|| {
        let v = rten_tensor::TensorView::from_slice_with_strides(&sh[..], &stor[base..], &dims.iter().map(|d| d.1).collect::<Vec<_>>()[..])
            .map_err(|e| format!("{e:?}"))?;
        let ins = vec![Some(ValueView::from(v))];
        let o = run_op(&*op, &ins, 1)?;
        Ok::<_, String>(canon(&o[0]))
    });
    let ans = match r {
        Ok(Ok(c)) => format!("shape={} data={}", shp(&c.shape), ints(&c.bits.iter().map(|&b| b as i32).collect::<Vec<_>>())),
        Ok(Err(_)) => "err".to_string(),
        Err(m) => format!("panic {m}"),
    };
    cx.out.bucket("uop");
    cx.out.case(&req, &ans, None, true);
}

fn im2col_case(cx: &mut Ctx, rng: &mut Rng) {
    let (c, h, w) = (1 + rng.usize_below(3), 1 + rng.usize_below(5), 1 + rng.usize_below(5));
    let (kh, kw) = (1 + rng.usize_below(3), 1 + rng.usize_below(3));
    let pads: Vec<usize> = (0..4).map(|_| rng.usize_below(3)).collect();
    let (sh, sw) = (1 + rng.usize_below(3), 1 + rng.usize_below(3));
    let (dy, dx) = (1 + rng.usize_below(2), 1 + rng.usize_below(2));
    let (sc, sth, stw) = match rng.below(7) {
        0 => (h * w, w, 1),              // NCHW
        1 => (1, w * c, c),              // NHWC storage permuted to CHW
        2 => (h * w * 2, w * 2, 2),      // stepped along W
        3 => (h * w * 2, w * 2, 1),      // stepped along H
        4 => (h * w, 1, h),              // H/W transposed storage
        5 => (h * w, 0, 1),              // broadcast along H
        _ => (rng.usize_below(30), rng.usize_below(12), rng.usize_below(5)),
    };
    let mut steps = (*rng.pick(&[1usize, 4, 8, 16]), *rng.pick(&[1usize, 2, 4]));
    // panics of the real function: empty image, zero step
    let (c, h, w) = match rng.below(60) {
        0 => (0, h, w),
        1 => (c, 0, w),
        2 => (c, h, 0),
        3 => {
            steps.0 = 0;
            (c, h, w)
        }
        4 => {
            steps.1 = 0;
            (c, h, w)
        }
        _ => (c, h, w),
    };
    let req = format!(
        "im2col c={c} h={h} w={w} k={kh},{kw} pads={} str={sh},{sw} dil={dy},{dx} ist={sc},{sth},{stw} steps={},{}",
        hcommon::join(pads.iter(), ","),
        steps.0,
        steps.1
    );
    let len = if c == 0 || h == 0 || w == 0 { 1 } else { (c - 1) * sc + (h - 1) * sth + (w - 1) * stw + 1 };
    let data = vec![0f32; len];
    let r = hcommon::catch(|| {
        let img = rten_tensor::NdTensorView::<f32, 3>::from_slice_with_strides([c, h, w], &data[..], [sc, sth, stw]).map_err(|e| format!("{e:?}"))?;
        let t = rten::verif::build_im2col(img, [kh, kw], [pads[0], pads[1], pads[2], pads[3]], [sh, sw], [dy, dx], steps.0, steps.1);
        let j = |v: &[i32]| if v.is_empty() { "-".to_string() } else { hcommon::join(v.iter(), ",") };
        Ok::<_, String>(format!(
            "rows={} cols={} rc={} ry={} rx={} cy={} cx={} my={} mx={}",
            t.n_rows,
            t.n_cols,
            j(&t.row_offsets.chan),
            j(&t.row_offsets.y),
            j(&t.row_offsets.x),
            j(&t.col_offsets.y),
            j(&t.col_offsets.x),
            t.max_y_offset,
            t.max_x_offset
        ))
    });
    let ans = match r {
        Ok(Ok(s)) => s,
        Ok(Err(_)) => "err".to_string(),
        Err(_) => "panic".to_string(),
    };
    cx.out.bucket(if ans.starts_with("rows") { "im2col:ok" } else { "im2col:panic" });
    cx.out.case(&req, &ans, None, ans.starts_with("rows") && stw != 1 && pads[1] > 0);
}

fn cp_case(cx: &mut Ctx, rng: &mut Rng) {
    let edge = [1usize, 3, 4, 5, 15, 16, 17, 63, 64, 65, 70];
    let mut sh = vec![*rng.pick(&edge), *rng.pick(&edge)];
    if numel(&sh) > 2500 {
        sh[0] = 1 + rng.usize_below(6);
    }
    if rng.chance(1, 3) {
        sh.insert(0, 1 + rng.usize_below(2));
    }
    let (mut base, mut dims) = rand_view(rng, &sh);
    if rng.chance(1, 2) {
        // the shapes that take the real `copy_blocked`: column-major storage whose row pitch (the
        // stride of the last axis) is a multiple of 16 and ≥ 32; row counts not divisible by the
        // tile size 4 and columns crossing the 64-block exercise the edge loops
        let rows = *rng.pick(&[1usize, 3, 4, 5, 7, 9, 17, 65]);
        let cols = *rng.pick(&[1usize, 3, 4, 5, 7, 16, 63, 64, 65, 70]);
        let pitch = *rng.pick(&[32usize, 48, 64, 80, 128]);
        if rows <= pitch {
            sh = vec![rows, cols];
            base = rng.usize_below(3);
            dims = vec![(rows, 1), (cols, pitch)];
            cx.out.bucket("cp:blocked-shape");
        }
    }
    if storage_len(base, &dims) > 40_000 {
        return;
    }
    let req = format!("cp a={}", view_str(base, &dims));
    let stor: Vec<i32> = (0..storage_len(base, &dims) as i32 + 2).map(|i| i + 1).collect();
    let r = hcommon::catch(|| {
        let v = rten_tensor::TensorView::from_slice_with_strides(&sh[..], &stor[base..], &dims.iter().map(|d| d.1).collect::<Vec<_>>()[..])
            .map_err(|e| format!("{e:?}"))?;
        let t = v.to_tensor();
        let c = v.to_contiguous();
        let same = t.iter().eq(v.iter()) && c.iter().eq(v.iter()) && t.is_contiguous();
        Ok::<_, String>((t.shape().to_vec(), t.data().unwrap().to_vec(), same))
    });
    let (ans, fail) = match r {
        Ok(Ok((shape, data, same))) => (
            format!("shape={} data={}", shp(&shape), ints(&data)),
            (!same).then_some("to_tensor / to_contiguous do not hold the view's elements in logical order"),
        ),
        Ok(Err(_)) => ("err".to_string(), None),
        Err(m) => (format!("panic {m}"), Some("copy panicked")),
    };
    cx.out.bucket("cp");
    cx.out.case(&req, &ans, fail, true);
}

fn red_case(cx: &mut Ctx, rng: &mut Rng) {
    let sh = loop {
        let s = rshape(rng, 4, 1);
        if numel(&s) <= 64 {
            break s;
        }
    };
    let (base, dims) = rand_view(rng, &sh);
    let k = 1 + rng.usize_below(sh.len());
    let req = format!("red a={} k={k}", view_str(base, &dims));
    let stor: Vec<i32> = (0..storage_len(base, &dims) as i32 + 2).map(|i| i + 1).collect();
    let axes: Vec<i64> = (sh.len() - k..sh.len()).map(|a| a as i64).collect();
    let case = Case {
        name: "r",
        onnx: "ReduceSum",
        domain: "",
        attrs: vec![("keepdims".to_string(), onnx_enc::Attr::Int(1))],
        inputs: vec![Some(ti(rng, &[1])), Some(ivec(&[0]))],
        n_out: 1,
        data_inputs: vec![],
    };
    let op = cx.cache.get(&case).expect("ReduceSum loads");
    let axes_v = ivec(&axes);
    let r = hcommon::catch(|| {
        let v = rten_tensor::TensorView::from_slice_with_strides(&sh[..], &stor[base..], &dims.iter().map(|d| d.1).collect::<Vec<_>>()[..])
            .map_err(|e| format!("{e:?}"))?;
        let cont = v.to_tensor();
        let ins = vec![Some(ValueView::from(v)), Some((&axes_v).into())];
        let o = run_op(&*op, &ins, 1)?;
        let ins2 = vec![Some(ValueView::from(cont.view())), Some((&axes_v).into())];
        let o2 = run_op(&*op, &ins2, 1)?;
        Ok::<_, String>((canon(&o[0]), canon(&o2[0])))
    });
    let (ans, fail) = match r {
        Ok(Ok((c, c2))) => (
            format!("shape={} data={}", shp(&c.shape), ints(&c.bits.iter().map(|&b| b as i32).collect::<Vec<_>>())),
            (c != c2).then_some("ReduceSum on the view differs from ReduceSum on its contiguous copy"),
        ),
        Ok(Err(_)) => ("err".to_string(), None),
        Err(m) => (format!("panic {m}"), Some("ReduceSum panicked")),
    };
    cx.out.bucket("red");
    cx.out.case(&req, &ans, fail, true);
}

/// Shape that becomes `target` after applying `perms` in order (`None` = reverse).
fn unpermute(target: &[usize], perms: &[Option<Vec<usize>>]) -> Vec<usize> {
    let mut cur = target.to_vec();
    for p in perms.iter().rev() {
        match p {
            None => cur.reverse(),
            Some(p) => {
                let mut prev = vec![1usize; cur.len()];
                if p.len() == cur.len() && p.iter().all(|&i| i < cur.len()) {
                    for (i, &pi) in p.iter().enumerate() {
                        prev[pi] = cur[i];
                    }
                    cur = prev;
                }
            }
        }
    }
    cur
}

fn ti_case(cx: &mut Ctx, rng: &mut Rng) {
    let fin = loop {
        let s = rshape(rng, 3, 0);
        if numel(&s) <= 36 {
            break s;
        }
    };
    let n_in = 1 + rng.usize_below(2);
    let k = 1 + rng.usize_below(3);
    let mut specs: Vec<(usize, Option<Vec<usize>>)> = vec![];
    for _ in 0..k {
        let idx = if rng.chance(1, 12) { n_in + rng.usize_below(2) } else { rng.usize_below(n_in) };
        if rng.chance(1, 4) {
            specs.push((idx, None));
        } else {
            let mut p: Vec<usize> = (0..fin.len()).collect();
            rng.shuffle(&mut p);
            if rng.chance(1, 25) && !p.is_empty() {
                p[0] = p[p.len() - 1]; // invalid on purpose
            }
            specs.push((idx, Some(p)));
        }
    }
    // stored shapes chosen so that (mostly) every input ends up with shape `fin`
    let mut views: Vec<(Vec<usize>, usize, Vec<(usize, usize)>)> = vec![];
    for i in 0..n_in {
        let mine: Vec<Option<Vec<usize>>> = specs.iter().filter(|s| s.0 == i).map(|s| s.1.clone()).collect();
        let stored = if rng.chance(1, 10) { fin.clone() } else { unpermute(&fin, &mine) };
        let (base, dims) = rand_view(rng, &stored);
        views.push((stored, base, dims));
    }
    let pstr: Vec<String> = specs
        .iter()
        .map(|(i, p)| match p {
            None => format!("{i}:r"),
            Some(p) => format!("{i}:{}", if p.is_empty() { "e".to_string() } else { hcommon::join(p.iter(), ",") }),
        })
        .collect();
    let req = format!(
        "ti ins={} specs={}",
        views.iter().map(|(_, b, d)| view_str(*b, d)).collect::<Vec<_>>().join("|"),
        pstr.join(";")
    );
    let stors: Vec<Vec<i32>> = views
        .iter()
        .enumerate()
        .map(|(k, (_, b, d))| (0..storage_len(*b, d) as i32 + 2).map(|i| (i + 1) * 100i32.pow(k as u32)).collect())
        .collect();
    let inner_name = if n_in == 1 { "Identity" } else { "Sub" };
    let case = Case { name: "id", onnx: inner_name, domain: "", attrs: vec![], inputs: (0..n_in).map(|_| Some(ti(rng, &[]))).collect(), n_out: 1, data_inputs: vec![] };
    let mut op = cx.cache.get(&case).expect("inner loads");
    // transforms are applied outermost wrapper first: wrap in reverse order
    for (i, p) in specs.iter().rev() {
        op = rten::verif::transform_inputs_permute(op, *i, p.clone());
    }
    let r = hcommon::catch(|| {
        let mut ins: Vec<Option<ValueView>> = vec![];
        for (k, (sh, b, d)) in views.iter().enumerate() {
            let v = rten_tensor::TensorView::from_slice_with_strides(&sh[..], &stors[k][*b..], &d.iter().map(|d| d.1).collect::<Vec<_>>()[..])
                .map_err(|e| format!("{e:?}"))?;
            ins.push(Some(ValueView::from(v)));
        }
        let o = run_op(&*op, &ins, 1)?;
        Ok::<_, String>(canon(&o[0]))
    });
    let ans = match r {
        Ok(Ok(c)) => format!("shape={} data={}", shp(&c.shape), ints(&c.bits.iter().map(|&b| b as i32).collect::<Vec<_>>())),
        Ok(Err(_)) => "err".to_string(),
        Err(_) => "panic".to_string(),
    };
    cx.out.bucket(&format!("ti{n_in}:{}", ans.split('=').next().unwrap_or("")));
    cx.out.case(&req, &ans, None, ans.starts_with("shape"));
}

fn tir_case(cx: &mut Ctx, rng: &mut Rng) {
    let fin = loop {
        let s = rshape(rng, 3, 0);
        if numel(&s) <= 36 {
            break s;
        }
    };
    let k = 1 + rng.usize_below(2);
    let mut specs: Vec<(usize, Option<Vec<usize>>)> = vec![];
    for _ in 0..k {
        let idx = if rng.chance(1, 8) { *rng.pick(&[0usize, 2]) } else { 1 };
        if rng.chance(1, 4) {
            specs.push((idx, None));
        } else {
            let mut p: Vec<usize> = (0..fin.len()).collect();
            rng.shuffle(&mut p);
            specs.push((idx, Some(p)));
        }
    }
    let mine: Vec<Option<Vec<usize>>> = specs.iter().filter(|s| s.0 == 1).map(|s| s.1.clone()).collect();
    let sb = if rng.chance(1, 10) { fin.clone() } else { unpermute(&fin, &mine) };
    let (bb, db) = rand_view(rng, &sb);
    // owned operand: contiguous, permuted or scaled strides (non-overlapping)
    let n = fin.len();
    let mut order: Vec<usize> = (0..n).collect();
    if rng.chance(1, 2) {
        rng.shuffle(&mut order);
    }
    let scale = 1 + rng.usize_below(2);
    let mut stra = vec![0usize; n];
    let mut acc = scale;
    for &d in order.iter().rev() {
        stra[d] = acc;
        acc *= fin[d].max(1);
    }
    let da: Vec<(usize, usize)> = fin.iter().copied().zip(stra.iter().copied()).collect();
    let opname = *rng.pick(&["Add", "Sub", "Mul"]);
    let pstr: Vec<String> = specs
        .iter()
        .map(|(i, p)| match p {
            None => format!("{i}:r"),
            Some(p) => format!("{i}:{}", if p.is_empty() { "e".to_string() } else { hcommon::join(p.iter(), ",") }),
        })
        .collect();
    let req = format!("tir {opname} a={} b={} specs={}", view_str(0, &da), view_str(bb, &db), pstr.join(";"));
    let stor_a: Vec<i32> = (0..storage_len(0, &da) as i32).map(|i| i + 1).collect();
    let stor_b: Vec<i32> = (0..storage_len(bb, &db) as i32 + 2).map(|i| (i + 1) * 100).collect();
    let case = Case { name: "tir", onnx: opname, domain: "", attrs: vec![], inputs: vec![Some(ti(rng, &[])), Some(ti(rng, &[]))], n_out: 1, data_inputs: vec![] };
    let mut op = cx.cache.get(&case).expect("inner loads");
    for (i, p) in specs.iter().rev() {
        op = rten::verif::transform_inputs_permute(op, *i, p.clone());
    }
    let r = hcommon::catch(|| {
        let ta = Tensor::<i32>::from_data_with_strides(&fin[..], stor_a.clone(), &stra[..]).map_err(|e| format!("{e:?}"))?;
        let vb = rten_tensor::TensorView::from_slice_with_strides(&sb[..], &stor_b[bb..], &db.iter().map(|d| d.1).collect::<Vec<_>>()[..])
            .map_err(|e| format!("{e:?}"))?;
        let owned: Value = ta.into();
        let others: Vec<Option<ValueView>> = vec![None, Some(ValueView::from(vb))];
        let o = run_op_in_place(&*op, vec![(0, owned)], &others, 1)?;
        Ok::<_, String>(canon(&o[0]))
    });
    let ans = match r {
        Ok(Ok(c)) => format!("shape={} data={}", shp(&c.shape), ints(&c.bits.iter().map(|&b| b as i32).collect::<Vec<_>>())),
        Ok(Err(_)) => "err".to_string(),
        Err(_) => "panic".to_string(),
    };
    cx.out.bucket(&format!("tir:{}", ans.split('=').next().unwrap_or("")));
    cx.out.case(&req, &ans, None, ans.starts_with("shape"));
}

/// `TransformInputs::in_place_inputs` of nested wrappers.
fn tip_case(cx: &mut Ctx, rng: &mut Rng) {
    let (inner_name, n_in): (&'static str, usize) = *rng.pick(&[("Sub", 2), ("Add", 2), ("Less", 2), ("Identity", 1)]);
    let case = Case { name: "tip", onnx: inner_name, domain: "", attrs: vec![], inputs: (0..n_in).map(|_| Some(tf(rng, &[]))).collect(), n_out: 1, data_inputs: vec![] };
    let inner = cx.cache.get(&case).expect("inner loads");
    let ips: Vec<usize> = inner.in_place_inputs().iter().map(|i| i as usize).collect();
    let k = 1 + rng.usize_below(3);
    let idx: Vec<usize> = (0..k).map(|_| *rng.pick(&[0usize, 1, 1, 2, 16, 17])).collect();
    let mut op = inner.clone();
    for i in idx.iter().rev() {
        op = rten::verif::transform_inputs_permute(op, *i, None);
    }
    let got: Vec<usize> = op.in_place_inputs().iter().map(|i| i as usize).collect();
    let req = format!("tip ips={} idx={}", shp(&ips), hcommon::join(idx.iter(), ","));
    cx.out.bucket("tip");
    cx.out.case(&req, &format!("ips={}", shp(&got)), None, !got.is_empty());
}

fn main() {
    let args = hcommon::parse_args();
    hcommon::quiet_panics();
    run(&args)
}

fn run(args: &Args) {
    let mut cx = Ctx { out: Out::new(&args.out), cache: OpCache::default(), exercised: BTreeSet::new(), noted: BTreeSet::new() };
    let mut rng = Rng::new(args.seed);
    if let Some(rp) = &args.replay {
        let w: Vec<&str> = rp.split_whitespace().collect();
        let name = all_names().into_iter().find(|n| *n == w[0]).expect("unknown op");
        generic_case(&mut cx, name, w[1].parse().unwrap());
        cx.out.finish("replay");
        return;
    }
    // (a) fast_broadcast_cycles_repeats: exhaustive rank ≤ 3 × rank ≤ 3, dims 0..=3
    let mut shapes: Vec<Vec<usize>> = vec![vec![]];
    for r in 1..=3usize {
        for code in 0..4usize.pow(r as u32) {
            shapes.push((0..r).map(|d| (code / 4usize.pow(d as u32)) % 4).collect());
        }
    }
    for a in &shapes {
        for b in &shapes {
            fb_case(&mut cx, a, b);
        }
    }
    let n_fb = if args.thorough { 1_000_000 } else { 100_000 };
    for i in 0..n_fb {
        let (a, b) = bpair(&mut rng);
        // the callers' orientation (smaller → larger) most of the time
        let (f, t) = if numel(&a) <= numel(&b) || rng.chance(1, 10) { (a, b) } else { (b, a) };
        fb_case(&mut cx, &f, &t);
        if i % 4 == 0 && numel(&t) <= 512 {
            bc_case(&mut cx, &f, &t);
        }
    }
    // rank-5/6 shapes (the kernels' inner loops are specialised for ≤ 4 dims)
    for _ in 0..n_fb / 10 {
        let to: Vec<usize> = (0..5 + rng.usize_below(2)).map(|_| 1 + rng.usize_below(3)).collect();
        let mut from = to.clone();
        for d in from.iter_mut() {
            if rng.chance(1, 2) {
                *d = 1;
            }
        }
        let k = rng.usize_below(3);
        let from = from[k.min(from.len())..].to_vec();
        fb_case(&mut cx, &from, &to);
        bc_case(&mut cx, &from, &to);
    }
    // (a2) dispatch glue on arbitrary views: binary_op, unary_op, TransformInputs lists
    let n_glue = if args.thorough { 300_000 } else { 30_000 };
    for _ in 0..n_glue {
        bop_case(&mut cx, &mut rng);
    }
    for _ in 0..n_glue / 3 {
        uop_case(&mut cx, &mut rng);
        ti_case(&mut cx, &mut rng);
        red_case(&mut cx, &mut rng);
        tip_case(&mut cx, &mut rng);
        tir_case(&mut cx, &mut rng);
        im2col_case(&mut cx, &mut rng);
    }
    for _ in 0..n_glue / 30 {
        cp_case(&mut cx, &mut rng);
    }
    // (b) every catalogue operator under layout changes
    let per_op = if args.thorough { 10_000 } else { 1_000 };
    for name in all_names() {
        for _ in 0..per_op {
            let cs = rng.next_u64();
            generic_case(&mut cx, name, cs);
        }
    }
    let names: Vec<String> = cx.exercised.iter().cloned().collect();
    // registry coverage: the declared not-exercised set (a new registry entry without a case, or
    // a case that stops loading, shows up as a disagreement with the generated registry list)
    cx.out.case(&format!("cov {}", names.join(",")), NOT_EXERCISED, None, true);
    cx.out.note(&format!("{} operators exercised: {}", names.len(), names.join(",")));
    cx.out.finish("same logical inputs as contiguous / permuted / strided / with_capacity / broadcast views and through TransformInputs: equal outputs bit-for-bit (NaNs identified); model: fast_broadcast_cycles_repeats and the reference broadcast");
}
