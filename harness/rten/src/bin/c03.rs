//! C03: `Graph::execution_plan` (= `Planner::create_plan`) on the real crate.
//!
//! Request line (see lean/RtenVerif/Driver/C03.lean):
//! `plan <dedup> <allowMissing> <capturesAvailable> <nodes> <captures> <inputs> <outputs>`
//! Answer: `ok <op ids in plan order|->`, `err:<class>`, `diverges` (the call did
//! not return within the watchdog limit) or `panic <msg>`.
//!
//! The graph is built through the real API (`add_value`, `add_constant`,
//! `add_op`, `set_captures`) in id order, so `NodeId`s equal the descriptor
//! indices.  Operators are real ones: `Identity` (in-place capable), `Shape`
//! (not in-place capable), `If` with a subgraph whose captures are named after
//! nodes of the outer graph (operator captures).
//!
//! Independent oracle on every returned plan (computed from the descriptor, not
//! from the Lean model): entries are operator nodes, no entry repeats, every
//! dependency (inputs + captures) of an entry is a constant, a supplied input,
//! a graph capture (if `capturesAvailable`) or an output of an earlier entry,
//! every requested output is available at the end, and every entry is needed
//! by a requested output through values that were not supplied.  With
//! `allowMissing` a dependency/output may also be a value nobody produces.
use hcommon::{Args, Out, Rng};
use rten::verif::{op_identity, op_if, op_shape, Graph, PlanOptions};
use rten::NodeId;
use rten_tensor::Tensor;
use std::collections::{BTreeSet, HashSet};
use std::sync::Mutex;
use std::time::{Duration, Instant};

#[derive(Clone, Debug)]
enum NodeD {
    V,
    C,
    O { ins: Vec<Option<u32>>, outs: Vec<Option<u32>>, caps: Vec<u32>, ip: bool },
}

#[derive(Clone, Debug)]
struct GraphD {
    nodes: Vec<NodeD>,
    caps: Vec<u32>,
}

#[derive(Clone, Debug)]
struct Req {
    am: bool,
    ca: bool,
    ins: Vec<u32>,
    outs: Vec<u32>,
}

fn ids(xs: &[u32]) -> String {
    if xs.is_empty() {
        "-".into()
    } else {
        hcommon::join(xs.iter(), ",")
    }
}

fn opt_ids(xs: &[Option<u32>]) -> String {
    hcommon::join(
        xs.iter().map(|x| match x {
            Some(v) => v.to_string(),
            None => "_".to_string(),
        }),
        ",",
    )
}

impl GraphD {
    fn encode(&self) -> String {
        if self.nodes.is_empty() {
            return "-".into();
        }
        hcommon::join(
            self.nodes.iter().map(|n| match n {
                NodeD::V => "V".to_string(),
                NodeD::C => "C".to_string(),
                NodeD::O { ins, outs, caps, ip } => format!(
                    "O/{}/{}/{}/{}",
                    opt_ids(ins),
                    opt_ids(outs),
                    hcommon::join(caps.iter(), ","),
                    *ip as u8
                ),
            }),
            ";",
        )
    }

    /// Build the real graph. Node `i` is named `n<i>`.
    fn build(&self) -> Graph {
        let mut g = Graph::new();
        for (i, n) in self.nodes.iter().enumerate() {
            let name = format!("n{i}");
            let id = match n {
                NodeD::V => g.add_value(Some(&name), None, None),
                NodeD::C => g.add_constant(Some(&name), Tensor::from(1.0f32).into_arc()),
                NodeD::O { ins, outs, caps, ip } => {
                    let op = if !caps.is_empty() {
                        assert!(!*ip);
                        let mut sub = Graph::new();
                        let cap_ids: Vec<NodeId> = caps
                            .iter()
                            .map(|c| sub.add_value(Some(&format!("n{c}")), None, None))
                            .collect();
                        sub.set_captures(&cap_ids);
                        op_if(sub, Graph::new())
                    } else if *ip {
                        op_identity()
                    } else {
                        op_shape()
                    };
                    let ins: Vec<Option<NodeId>> =
                        ins.iter().map(|x| x.map(NodeId::from_u32)).collect();
                    let outs: Vec<Option<NodeId>> =
                        outs.iter().map(|x| x.map(NodeId::from_u32)).collect();
                    g.add_op(Some(&name), op, &ins, &outs)
                }
            };
            assert_eq!(id.as_u32() as usize, i);
        }
        let caps: Vec<NodeId> = self.caps.iter().map(|&c| NodeId::from_u32(c)).collect();
        g.set_captures(&caps);
        g
    }

    fn op(&self, id: u32) -> Option<(&[Option<u32>], &[Option<u32>], &[u32])> {
        match self.nodes.get(id as usize) {
            Some(NodeD::O { ins, outs, caps, .. }) => Some((ins, outs, caps)),
            _ => None,
        }
    }

    /// Dependencies of an operator as the property text defines them: its inputs and
    /// the captures of its subgraphs (names that exist in this graph).
    fn deps(&self, id: u32) -> Vec<u32> {
        let (ins, _, caps) = self.op(id).unwrap();
        let mut d: Vec<u32> = ins.iter().flatten().copied().collect();
        for &c in caps {
            if (c as usize) < self.nodes.len() && !d.contains(&c) {
                d.push(c);
            }
        }
        d
    }

    fn producers(&self, v: u32) -> Vec<u32> {
        (0..self.nodes.len() as u32)
            .filter(|&i| matches!(self.op(i), Some((_, outs, _)) if outs.contains(&Some(v))))
            .collect()
    }

    fn is_const(&self, v: u32) -> bool {
        matches!(self.nodes.get(v as usize), Some(NodeD::C))
    }
}

fn classify(msg: &str) -> String {
    let table = [
        ("Outputs are not unique", "dup-output"),
        ("Inputs are not unique", "dup-input"),
        ("Encountered cycle", "cycle"),
        ("Missing input", "missing-input"),
        ("Source node not found", "no-source"),
    ];
    for (pat, class) in table {
        if msg.contains(pat) {
            return format!("err:{class}");
        }
    }
    if msg.contains("is not a value node") {
        if msg.contains("planning error: Output ") {
            return "err:bad-output".into();
        }
        if msg.contains("planning error: Input ") {
            return "err:bad-input".into();
        }
    }
    format!("err:other {msg}")
}

/// The property's predicate evaluated on a plan the implementation returned.
fn oracle(gd: &GraphD, rq: &Req, plan: &[u32]) -> Option<String> {
    let mut seen = HashSet::new();
    for &p in plan {
        if gd.op(p).is_none() {
            return Some(format!("plan entry {p} is not an operator node"));
        }
        if !seen.insert(p) {
            return Some(format!("operator {p} appears more than once in the plan"));
        }
    }
    let mut init: HashSet<u32> = rq.ins.iter().copied().collect();
    if rq.ca {
        init.extend(gd.caps.iter().copied());
    }
    let mut avail = init.clone();
    for &p in plan {
        for d in gd.deps(p) {
            let ok = avail.contains(&d)
                || gd.is_const(d)
                || (rq.am && gd.producers(d).is_empty());
            if !ok {
                return Some(format!("operator {p} is scheduled before its dependency {d} is available"));
            }
        }
        let (_, outs, _) = gd.op(p).unwrap();
        avail.extend(outs.iter().flatten().copied());
    }
    for &o in &rq.outs {
        let ok = avail.contains(&o) || gd.is_const(o) || (rq.am && gd.producers(o).is_empty());
        if !ok {
            return Some(format!("requested output {o} is not produced"));
        }
    }
    // Minimality: backwards closure from the requested outputs through values that
    // were not supplied (any producer of such a value counts as needed).
    let mut needed: BTreeSet<u32> = BTreeSet::new();
    let mut work: Vec<u32> = vec![];
    let mut want = |v: u32, work: &mut Vec<u32>, needed: &mut BTreeSet<u32>| {
        if init.contains(&v) || gd.is_const(v) {
            return;
        }
        for p in gd.producers(v) {
            if needed.insert(p) {
                work.push(p);
            }
        }
    };
    for &o in &rq.outs {
        want(o, &mut work, &mut needed);
    }
    while let Some(p) = work.pop() {
        for d in gd.deps(p) {
            want(d, &mut work, &mut needed);
        }
    }
    for &p in plan {
        if !needed.contains(&p) {
            return Some(format!("operator {p} is not needed by any requested output"));
        }
    }
    None
}

static CURRENT: Mutex<Option<(String, Instant)>> = Mutex::new(None);
static OUT: Mutex<Option<Out>> = Mutex::new(None);
const RULE: &str = "impl plan/error class == Lean createPlan; oracle: nodup, dependency-closed, outputs available, minimal";
const HANG_LIMIT: Duration = Duration::from_secs(4);

fn with_out(f: impl FnOnce(&mut Out)) {
    let mut g = OUT.lock().unwrap();
    if let Some(o) = g.as_mut() {
        f(o)
    }
}

/// If a single planning call exceeds `HANG_LIMIT`, record it as `diverges`
/// (a property failure: "planning always terminates"), flush and stop the run:
/// the stuck call cannot be cancelled and keeps allocating.
fn watchdog() {
    loop {
        std::thread::sleep(Duration::from_millis(100));
        let cur = CURRENT.lock().unwrap().clone();
        if let Some((req, t0)) = cur {
            if t0.elapsed() > HANG_LIMIT {
                let mut g = OUT.lock().unwrap();
                if let Some(mut o) = g.take() {
                    o.case(
                        &req,
                        "diverges",
                        Some("execution_plan did not return within 4 s (plan vector growing without bound); run stopped here"),
                        true,
                    );
                    o.bucket("outcome_diverges");
                    o.note("run aborted at first non-terminating planning call");
                    o.finish(RULE);
                }
                std::process::exit(0);
            }
        }
    }
}

struct Feat {
    cyclic_hint: bool,
}

fn one(gd: &GraphD, g: &Graph, rq: &Req, dedup: bool, feat: &Feat) {
    let req = format!(
        "plan {} {} {} {} {} {} {}",
        dedup as u8,
        rq.am as u8,
        rq.ca as u8,
        gd.encode(),
        ids(&gd.caps),
        ids(&rq.ins),
        ids(&rq.outs)
    );
    let ins: Vec<NodeId> = rq.ins.iter().map(|&i| NodeId::from_u32(i)).collect();
    let outs: Vec<NodeId> = rq.outs.iter().map(|&i| NodeId::from_u32(i)).collect();
    let opts = PlanOptions { allow_missing_inputs: rq.am, captures_available: rq.ca };
    *CURRENT.lock().unwrap() = Some((req.clone(), Instant::now()));
    let res = hcommon::catch(|| g.execution_plan(&ins, &outs, opts));
    *CURRENT.lock().unwrap() = None;
    let (ans, fail, plan_len) = match res {
        Ok(Ok(plan)) => {
            let plan: Vec<u32> = plan.iter().map(|p| p.as_u32()).collect();
            let fail = oracle(gd, rq, &plan);
            (format!("ok {}", ids(&plan)), fail, plan.len())
        }
        Ok(Err(e)) => (classify(&format!("{e}")), None, 0),
        Err(m) => (format!("panic {m}"), Some("planning panicked".to_string()), 0),
    };
    let supplied_and_produced = rq.ins.iter().any(|&i| !gd.producers(i).is_empty());
    with_out(|out| {
        out.bucket(&format!(
            "outcome_{}",
            if ans.starts_with("ok") { "ok" } else { ans.split(' ').next().unwrap() }
        ));
        out.bucket(&format!("planlen_{}", plan_len.min(8)));
        if rq.am {
            out.bucket("allow_missing");
        }
        if supplied_and_produced {
            out.bucket("input_also_produced");
        }
        if feat.cyclic_hint {
            out.bucket("graph_mutated_cyclic_or_multi_producer");
        }
        out.case(&req, &ans, fail.as_deref(), plan_len >= 2 || !ans.starts_with("ok"));
    });
}

fn subsets(n: u32) -> Vec<Vec<u32>> {
    (0..(1u32 << n))
        .map(|m| (0..n).filter(|i| m & (1 << i) != 0).collect())
        .collect()
}

/// All sequences over `alphabet` with length in `lo..=hi`.
fn seqs<T: Clone>(alphabet: &[T], lo: usize, hi: usize) -> Vec<Vec<T>> {
    let mut all = vec![];
    let mut cur: Vec<Vec<T>> = vec![vec![]];
    for len in 0..=hi {
        if len >= lo {
            all.extend(cur.iter().cloned());
        }
        let mut next = vec![];
        for s in &cur {
            for a in alphabet {
                let mut t = s.clone();
                t.push(a.clone());
                next.push(t);
            }
        }
        cur = next;
    }
    all
}

/// Exhaustive scope: 3 value nodes (ids 0..3) and two operators (ids 3, 4), each with
/// 0..=2 inputs and 1..=2 outputs drawn from the values, every in-place flag pattern
/// chosen by a counter, every subset of values as supplied inputs and as requested
/// outputs.  `stride` > 1 samples every stride-th graph (offset by the seed).
fn exhaustive_two_ops(seed: u64, stride: usize, variant_every: usize, dedup: bool) {
    let vals: Vec<u32> = vec![0, 1, 2];
    let in_seqs = seqs(&vals, 0, 2);
    let out_seqs = seqs(&vals, 1, 2);
    let subs = subsets(3);
    let mut counter = (seed as usize) % stride;
    for i1 in &in_seqs {
        for o1 in &out_seqs {
            for i2 in &in_seqs {
                for o2 in &out_seqs {
                    counter += 1;
                    if counter % stride != 0 {
                        continue;
                    }
                    let flags = counter / stride;
                    let mk = |i: &Vec<u32>, o: &Vec<u32>, ip: bool| NodeD::O {
                        ins: i.iter().map(|&x| Some(x)).collect(),
                        outs: o.iter().map(|&x| Some(x)).collect(),
                        caps: vec![],
                        ip,
                    };
                    let gd = GraphD {
                        nodes: vec![
                            NodeD::V,
                            NodeD::V,
                            NodeD::V,
                            mk(i1, o1, flags & 1 != 0),
                            mk(i2, o2, flags & 2 != 0),
                        ],
                        caps: vec![],
                    };
                    let g = gd.build();
                    for ins in &subs {
                        for outs in &subs {
                            let rq = Req { am: false, ca: true, ins: ins.clone(), outs: outs.clone() };
                            one(&gd, &g, &rq, dedup, &Feat { cyclic_hint: false });
                        }
                    }
                    // Variant of the same graph with graph-level captures (a non-empty
                    // subset of the values), an operator capture on one operator, and all
                    // four (allow_missing, captures_available) combinations, again for
                    // every input/output subset.  Every `variant_every`-th graph.
                    if flags % variant_every != 0 {
                        continue;
                    }
                    let k = flags / variant_every;
                    let gcaps: Vec<u32> = subs[1 + k % 7].clone();
                    let opcap = ((k / 7) % 4) as u32; // 3 = no operator capture
                    let which = (k / 28) % 2;
                    let mkc = |i: &Vec<u32>, o: &Vec<u32>, ip: bool, cap: Option<u32>| NodeD::O {
                        ins: i.iter().map(|&x| Some(x)).collect(),
                        outs: o.iter().map(|&x| Some(x)).collect(),
                        caps: cap.into_iter().collect(),
                        ip: ip && cap.is_none(),
                    };
                    let cap = if opcap < 3 { Some(opcap) } else { None };
                    let gd = GraphD {
                        nodes: vec![
                            NodeD::V,
                            NodeD::V,
                            NodeD::V,
                            mkc(i1, o1, flags & 1 != 0, if which == 0 { cap } else { None }),
                            mkc(i2, o2, flags & 2 != 0, if which == 1 { cap } else { None }),
                        ],
                        caps: gcaps,
                    };
                    let g = gd.build();
                    for (am, ca) in [(false, false), (true, true), (true, false), (false, true)] {
                        for ins in &subs {
                            for outs in &subs {
                                let rq = Req { am, ca, ins: ins.clone(), outs: outs.clone() };
                                with_out(|o| o.bucket("exhaustive_variant_caps_options"));
                                one(&gd, &g, &rq, dedup, &Feat { cyclic_hint: false });
                            }
                        }
                    }
                }
            }
        }
    }
}

/// Exhaustive scope: 4 values, 3 single-input/≤2-output operators with optional
/// `None` slots, one constant; all input/output subsets of the 4 values.
fn exhaustive_three_ops(seed: u64, stride: usize, dedup: bool) {
    let vals: Vec<Option<u32>> = vec![Some(0), Some(1), Some(2), Some(3), Some(4), None];
    // node 4 is a constant; ops are 5,6,7
    let in_seqs = seqs(&vals, 1, 1);
    let outv: Vec<Option<u32>> = vec![Some(0), Some(1), Some(2), Some(3)];
    let out_seqs = seqs(&outv, 1, 2);
    let subs = subsets(4);
    let mut counter = (seed as usize) % stride;
    let combos: Vec<(Vec<Option<u32>>, Vec<Option<u32>>)> = in_seqs
        .iter()
        .flat_map(|i| out_seqs.iter().map(move |o| (i.clone(), o.clone())))
        .collect();
    for a in &combos {
        for b in &combos {
            for c in &combos {
                counter += 1;
                if counter % stride != 0 {
                    continue;
                }
                let flags = counter / stride;
                let mk = |x: &(Vec<Option<u32>>, Vec<Option<u32>>), ip: bool| NodeD::O {
                    ins: x.0.clone(),
                    outs: x.1.clone(),
                    caps: vec![],
                    ip,
                };
                let gd = GraphD {
                    nodes: vec![
                        NodeD::V,
                        NodeD::V,
                        NodeD::V,
                        NodeD::V,
                        NodeD::C,
                        mk(a, flags & 1 != 0),
                        mk(b, flags & 2 != 0),
                        mk(c, flags & 4 != 0),
                    ],
                    // every other graph captures one of the four values from the parent scope
                    caps: if flags % 2 == 1 { vec![((flags / 2) % 4) as u32] } else { vec![] },
                };
                let g = gd.build();
                // a sample of 8 request pairs per graph, rotating with the counter
                for k in 0..8 {
                    let ins = &subs[(flags * 7 + k * 5) % subs.len()];
                    let outs = &subs[(flags * 3 + k * 11 + 1) % subs.len()];
                    // requests 0..3 with the default options, 4..7 rotate through the others
                    let (am, ca) = match k {
                        0..=3 => (false, true),
                        4 | 5 => (true, flags % 2 == 0),
                        _ => (false, false),
                    };
                    let rq = Req { am, ca, ins: ins.clone(), outs: outs.clone() };
                    one(&gd, &g, &rq, dedup, &Feat { cyclic_hint: false });
                }
            }
        }
    }
}

/// Random structured graph: a DAG built in topological order, optionally mutated with
/// back edges, extra producers, stray ids, captures; node order shuffled.
fn random_graph(rng: &mut Rng, max_ops: usize) -> (GraphD, bool) {
    let n_src = 1 + rng.usize_below(3);
    let n_const = rng.usize_below(3);
    let deep = rng.chance(1, 2);
    let n_ops = if deep { 2 + rng.usize_below(max_ops) } else { rng.usize_below(max_ops + 1) };
    // abstract nodes before shuffling
    #[derive(Clone)]
    enum A {
        V,
        C,
        O { ins: Vec<Option<usize>>, outs: Vec<Option<usize>>, caps: Vec<usize>, ip: bool },
    }
    let mut nodes: Vec<A> = vec![];
    let mut values: Vec<usize> = vec![]; // value or const nodes usable as inputs
    let mut plain_values: Vec<usize> = vec![];
    for _ in 0..n_src {
        nodes.push(A::V);
        values.push(nodes.len() - 1);
        plain_values.push(nodes.len() - 1);
    }
    for _ in 0..n_const {
        nodes.push(A::C);
        values.push(nodes.len() - 1);
    }
    let mut op_idx: Vec<usize> = vec![];
    for _ in 0..n_ops {
        let n_in = if deep { 1 + rng.usize_below(2) } else { rng.usize_below(4) };
        let mut ins: Vec<Option<usize>> = (0..n_in)
            .map(|_| {
                if rng.chance(1, 10) {
                    None
                } else if deep {
                    // prefer recently produced values: long dependency chains
                    let k = values.len().min(3);
                    Some(values[values.len() - 1 - rng.usize_below(k)])
                } else {
                    Some(*rng.pick(&values))
                }
            })
            .collect();
        if rng.chance(1, 8) && !ins.is_empty() {
            // repeated input
            let x = ins[0];
            ins.push(x);
        }
        let n_out = match rng.below(10) {
            0 => 0,
            1..=6 => 1,
            7 | 8 => 2,
            _ => 3,
        };
        let mut outs = vec![];
        for _ in 0..n_out {
            if rng.chance(1, 10) {
                outs.push(None);
            } else {
                nodes.push(A::V);
                let v = nodes.len() - 1;
                outs.push(Some(v));
            }
        }
        for o in outs.iter().flatten() {
            values.push(*o);
            plain_values.push(*o);
        }
        let caps = if rng.chance(1, 7) {
            (0..1 + rng.usize_below(2)).map(|_| *rng.pick(&values)).collect()
        } else {
            vec![]
        };
        let ip = caps.is_empty() && rng.chance(1, 2);
        nodes.push(A::O { ins, outs, caps, ip });
        op_idx.push(nodes.len() - 1);
    }
    // mutations
    let mut mutated = false;
    if !op_idx.is_empty() && rng.chance(2, 5) {
        let n_mut = 1 + rng.usize_below(2);
        for _ in 0..n_mut {
            mutated = true;
            let oi = *rng.pick(&op_idx);
            let total = nodes.len();
            let pv = *rng.pick(&plain_values);
            if let A::O { ins, outs, caps, ip } = &mut nodes[oi] {
                match rng.below(6) {
                    0 | 1 => ins.push(Some(pv)), // possibly a back edge (cycle) or self loop
                    2 => outs.push(Some(pv)),    // second producer / output that is also a source value
                    3 => ins.push(Some(rng.usize_below(total + 2))), // any id: operator node or out of range
                    4 => outs.push(Some(rng.usize_below(total + 1))),
                    _ => {
                        if !*ip {
                            caps.push(rng.usize_below(total + 2));
                        }
                    }
                }
            }
        }
    }
    // shuffle node order
    let mut perm: Vec<usize> = (0..nodes.len()).collect();
    if rng.chance(2, 3) {
        rng.shuffle(&mut perm);
    }
    // perm[new] = old; inv[old] = new
    let mut inv = vec![0usize; nodes.len()];
    for (new, &old) in perm.iter().enumerate() {
        inv[old] = new;
    }
    let map = |x: usize| -> u32 {
        if x < inv.len() {
            inv[x] as u32
        } else {
            x as u32
        }
    };
    let out_nodes: Vec<NodeD> = perm
        .iter()
        .map(|&old| match &nodes[old] {
            A::V => NodeD::V,
            A::C => NodeD::C,
            A::O { ins, outs, caps, ip } => NodeD::O {
                ins: ins.iter().map(|x| x.map(map)).collect(),
                outs: outs.iter().map(|x| x.map(map)).collect(),
                caps: caps.iter().map(|&x| map(x)).collect(),
                ip: *ip,
            },
        })
        .collect();
    let mut caps = vec![];
    if rng.chance(1, 4) {
        for &v in &plain_values {
            if rng.chance(1, 3) {
                caps.push(map(v));
            }
        }
    }
    (GraphD { nodes: out_nodes, caps }, mutated)
}

fn random_request(rng: &mut Rng, gd: &GraphD) -> Req {
    let n = gd.nodes.len() as u32;
    let value_ids: Vec<u32> =
        (0..n).filter(|&i| matches!(gd.nodes[i as usize], NodeD::V)).collect();
    let sourceless: Vec<u32> = value_ids
        .iter()
        .copied()
        .filter(|&v| gd.producers(v).is_empty() && !gd.caps.contains(&v))
        .collect();
    let produced: Vec<u32> =
        value_ids.iter().copied().filter(|&v| !gd.producers(v).is_empty()).collect();
    let mut ins: Vec<u32> = sourceless.clone();
    if rng.chance(1, 6) && !ins.is_empty() {
        let k = rng.usize_below(ins.len());
        ins.remove(k); // a missing input
    }
    if rng.chance(1, 3) {
        for &p in &produced {
            if rng.chance(1, 4) {
                ins.push(p); // supplied although produced
            }
        }
    }
    if rng.chance(1, 25) && n > 0 {
        ins.push(rng.below(n as u64 + 2) as u32); // constant / operator / unknown / duplicate id
    }
    rng.shuffle(&mut ins);
    let mut outs: Vec<u32> = vec![];
    let pool = if !produced.is_empty() && rng.chance(5, 6) { &produced } else { &value_ids };
    if !pool.is_empty() {
        let k = 1 + rng.usize_below(3.min(pool.len()));
        for _ in 0..k {
            let v = if rng.chance(1, 2) {
                // highest ids tend to be the deepest values (when the node order was not shuffled)
                pool[pool.len() - 1 - rng.usize_below(pool.len().min(2))]
            } else {
                *rng.pick(pool)
            };
            if !outs.contains(&v) || rng.chance(1, 30) {
                outs.push(v);
            }
        }
    }
    if rng.chance(1, 20) && n > 0 {
        outs.push(rng.below(n as u64 + 2) as u32);
    }
    Req { am: rng.chance(1, 7), ca: rng.chance(3, 4), ins, outs }
}

/// Child mode (`C03_CHAIN=<n>`): build a linear chain of `n` single-input operators
/// `v0 -> op -> v1 -> op -> ... -> vn` through the real API, plan `v0 |- vn` on a thread
/// with the given stack size (`C03_STACK_KB`, default: the main thread), print the result.
fn chain_child(n: usize) {
    let job = move || {
        let mut g = Graph::new();
        let mut prev = g.add_value(Some("v0"), None, None);
        let first = prev;
        for i in 0..n {
            let next = g.add_value(Some(&format!("v{}", i + 1)), None, None);
            g.add_op(None, op_shape(), &[Some(prev)], &[Some(next)]);
            prev = next;
        }
        let plan = g.execution_plan(&[first], &[prev], PlanOptions::default());
        match plan {
            Ok(p) => {
                // independent check: the chain must be planned front to back
                let sorted = p.windows(2).all(|w| w[0].as_u32() < w[1].as_u32());
                println!("ok len={} ordered={}", p.len(), sorted as u8);
            }
            Err(e) => println!("{}", classify(&format!("{e}"))),
        }
    };
    match std::env::var("C03_STACK_KB").ok().and_then(|s| s.parse::<usize>().ok()) {
        Some(kb) => std::thread::Builder::new()
            .stack_size(kb * 1024)
            .spawn(job)
            .unwrap()
            .join()
            .unwrap(),
        None => job(),
    }
}

/// Run the deep-chain probe in a child process (a stack overflow aborts the process and
/// cannot be caught in-process).  Returns the child's answer or `crash <status>`.
fn chain_probe(n: usize, stack_kb: Option<usize>) -> String {
    let exe = std::env::current_exe().unwrap();
    let mut cmd = std::process::Command::new(exe);
    cmd.env("C03_CHAIN", n.to_string());
    if let Some(kb) = stack_kb {
        cmd.env("C03_STACK_KB", kb.to_string());
    }
    match cmd.output() {
        Ok(o) if o.status.success() => String::from_utf8_lossy(&o.stdout).trim().to_string(),
        Ok(o) => {
            use std::os::unix::process::ExitStatusExt;
            format!("crash signal={:?} code={:?}", o.status.signal(), o.status.code())
        }
        Err(e) => format!("spawn-failed {e}"),
    }
}

fn main() {
    if let Ok(n) = std::env::var("C03_CHAIN") {
        chain_child(n.parse().unwrap());
        return;
    }
    let args = hcommon::parse_args();
    hcommon::quiet_panics();
    run(&args)
}

fn run(args: &Args) {
    *OUT.lock().unwrap() = Some(Out::new(&args.out));
    std::thread::spawn(watchdog);
    let mut rng = Rng::new(args.seed);
    // The planner as it stands is compared with the model's `dedup = 1` variant.
    let dedup = std::env::var("C03_MODEL_DEDUP").map(|v| v != "0").unwrap_or(true);

    // sanity: the flags the planner reads from the test operators
    assert!(!op_identity().in_place_inputs().is_empty());
    assert!(op_shape().in_place_inputs().is_empty());

    // (a) hand-written regression shapes (the witnesses of Props/C03.lean)
    let o = |ins: &[u32], outs: &[u32], ip: bool| NodeD::O {
        ins: ins.iter().map(|&x| Some(x)).collect(),
        outs: outs.iter().map(|&x| Some(x)).collect(),
        caps: vec![],
        ip,
    };
    {
        // duplicate witness: value 0 supplied and also produced by the planned two-output op 4
        let gd = GraphD {
            nodes: vec![NodeD::V, NodeD::V, NodeD::V, o(&[0], &[1], false), o(&[], &[0, 2], false)],
            caps: vec![],
        };
        let g = gd.build();
        let rq = Req { am: false, ca: true, ins: vec![0], outs: vec![1, 2] };
        one(&gd, &g, &rq, dedup, &Feat { cyclic_hint: false });
        // divergence witness: cycle cut by a supplied input
        let gd = GraphD {
            nodes: vec![NodeD::V, NodeD::V, NodeD::V, o(&[2], &[0, 1], false), o(&[0], &[2], false)],
            caps: vec![],
        };
        let g = gd.build();
        let rq = Req { am: false, ca: true, ins: vec![0], outs: vec![1] };
        one(&gd, &g, &rq, dedup, &Feat { cyclic_hint: true });
    }

    // (a') very deep dependency chains, planned in a child process (a call-stack overflow
    // aborts the process).  The Lean model is not asked (`#` lines): its answer for a chain
    // is known (T3/T4: the unique topological order) and is checked here directly.
    let mut probes: Vec<(usize, Option<usize>)> = vec![(200_000, None), (50_000, Some(2048))];
    if args.thorough {
        probes.push((1_000_000, Some(2048)));
    }
    for (n, stack_kb) in probes {
        let ans = chain_probe(n, stack_kb);
        let req = format!(
            "# chain ops={n} stack={}",
            stack_kb.map(|k| format!("{k}KB-thread")).unwrap_or("main-thread".into())
        );
        let want = format!("ok len={n} ordered=1");
        let fail = if ans == want {
            None
        } else {
            Some(format!("planning a valid linear chain of {n} operators did not return the plan: {ans}"))
        };
        with_out(|out| {
            out.bucket("deep_chain_probe");
            out.case(&req, &ans, fail.as_deref(), true);
        });
    }

    // (b) exhaustive small scopes
    if args.thorough {
        exhaustive_two_ops(args.seed, 1, 6, dedup);
        exhaustive_three_ops(args.seed, 40, dedup);
    } else {
        exhaustive_two_ops(args.seed, 24, 4, dedup);
        exhaustive_three_ops(args.seed, 1500, dedup);
    }

    // (c) random structured graphs, several requests each
    let n_graphs = if args.thorough { 150_000 } else { 12_000 };
    for gi in 0..n_graphs {
        let max_ops = if gi % 10 == 0 { 12 } else { 6 };
        let (gd, mutated) = random_graph(&mut rng, max_ops);
        let g = gd.build();
        for _ in 0..4 {
            let rq = random_request(&mut rng, &gd);
            one(&gd, &g, &rq, dedup, &Feat { cyclic_hint: mutated });
        }
    }

    let out = OUT.lock().unwrap().take();
    if let Some(out) = out {
        out.finish(RULE);
    }
}
