//! C17: exact differential of every int8 GEMM kernel available on this host
//! (`rten_gemm::verif::int8_gemm_executors`: generic, AVX2, AVX-512 [VNNI if the CPU has it], plus
//! the AVX-512 kernel forced onto its non-VNNI path) against
//! the Lean integer reference (`model_C17`).
//!
//! Request line (space separated `key=value`, lists are `,`-separated with
//! run-length tokens `v*count`, `_` = empty list, `-` = absent):
//!
//! `g kern=<name> sat=<0|1> path=<gemm|gemv> pre=<0..3> lay=<xy> cb= m= n= k= za= zb= c0= a= b=`
//!
//! * `sat`  – the kernel's `may_saturate()` answer;
//! * `path` – `gemv` iff the vector-matrix fast path is taken (m = 1, nothing prepacked);
//! * `pre`  – bit 0: A prepacked, bit 1: B prepacked (`GemmExecutor::prepack_*`);
//! * `cb`   – column block size of the gemv path (`max(ceil(N/threads),128)`), used by the model to
//!   decide which columns are handled by SIMD steps;
//! * `lay`  – storage layout of A and B (r = row major, t = transposed, s = strided); ignored by the model;
//! * `za`/`zb` – per-row / per-column zero points or `-`;
//! * `c0`   – initial output (beta = 1) or `-` (beta = 0);
//! * `a`,`b` – logical row-major M×K u8 and K×N i8 matrices.
//!
//! Answer: the M×N i32 output, row-major, `,`-separated (`_` if empty), or
//! `err:<GemmError>` / `panic`.
//!
//! Independent oracle (PROPFAIL): naive i64 triple loop
//! `Σ_k (a_ik − za_i)(b_kj − zb_j) (+ c0_ij)`, demanded whenever the kernel
//! reports `may_saturate() == false` or the inputs lie in the documented
//! reduced range (all a ∈ [0,127] or all b ∈ [−64,63], `ReducedRangeRng`).
use hcommon::{Args, Out, Rng};
use rten_gemm::{GemmExecutor, GemmInputA, GemmInputB, GemmOptions, QuantParams};
use rten_tensor::prelude::*;
use rten_tensor::NdTensorView;

#[derive(Clone)]
struct Case {
    m: usize,
    n: usize,
    k: usize,
    a: Vec<u8>,
    b: Vec<i8>,
    za: Option<Vec<u8>>,
    zb: Option<Vec<i8>>,
    c0: Option<Vec<i32>>,
    lay_a: u8, // b'r' | b't' | b's'
    lay_b: u8,
    pre: u8,
    tag: &'static str,
}

fn rle<T: PartialEq + std::fmt::Display + Copy>(xs: &[T]) -> String {
    if xs.is_empty() {
        return "_".into();
    }
    let mut out = String::new();
    let mut i = 0;
    while i < xs.len() {
        let mut j = i + 1;
        while j < xs.len() && xs[j] == xs[i] {
            j += 1;
        }
        if !out.is_empty() {
            out.push(',');
        }
        if j - i >= 3 {
            out += &format!("{}*{}", xs[i], j - i);
        } else {
            out += &hcommon::join(xs[i..j].iter(), ",");
        }
        i = j;
    }
    out
}

fn opt_rle<T: PartialEq + std::fmt::Display + Copy>(xs: &Option<Vec<T>>) -> String {
    match xs {
        Some(v) => rle(v),
        None => "-".into(),
    }
}

/// Store a logical row-major `rows × cols` matrix in the requested layout and
/// hand back (storage, row_stride, col_stride).
fn lay_out<T: Copy + Default>(data: &[T], rows: usize, cols: usize, lay: u8, junk: T) -> (Vec<T>, usize, usize) {
    match lay {
        b't' => {
            let mut s = vec![T::default(); rows * cols];
            for r in 0..rows {
                for c in 0..cols {
                    s[c * rows + r] = data[r * cols + c];
                }
            }
            (s, 1, rows.max(1))
        }
        b's' => {
            // row stride 2*cols+3, col stride 2; gaps filled with junk
            let rs = 2 * cols + 3;
            let mut s = vec![junk; rows * rs + 1];
            for r in 0..rows {
                for c in 0..cols {
                    s[r * rs + 2 * c] = data[r * cols + c];
                }
            }
            (s, rs, 2)
        }
        b'p' => {
            // row major with padded rows (unit column stride)
            let rs = cols + 5;
            let mut s = vec![junk; rows * rs + 1];
            for r in 0..rows {
                for c in 0..cols {
                    s[r * rs + c] = data[r * cols + c];
                }
            }
            (s, rs, 1)
        }
        _ => (data.to_vec(), cols.max(1), 1),
    }
}

fn view<'a, T>(store: &'a [T], rows: usize, cols: usize, rs: usize, cs: usize) -> NdTensorView<'a, T, 2> {
    if rows == 0 || cols == 0 {
        return NdTensorView::from_data([rows, cols], &store[..0]);
    }
    let need = (rows - 1) * rs + (cols - 1) * cs + 1;
    NdTensorView::from_data_with_strides([rows, cols], &store[..need], [rs, cs]).unwrap()
}

fn oracle(c: &Case) -> Vec<i64> {
    let mut out = vec![0i64; c.m * c.n];
    for i in 0..c.m {
        let za = c.za.as_ref().map(|z| z[i] as i64).unwrap_or(0);
        for j in 0..c.n {
            let zb = c.zb.as_ref().map(|z| z[j] as i64).unwrap_or(0);
            let mut acc = 0i64;
            for k in 0..c.k {
                acc += (c.a[i * c.k + k] as i64 - za) * (c.b[k * c.n + j] as i64 - zb);
            }
            if let Some(c0) = &c.c0 {
                acc += c0[i * c.n + j] as i64;
            }
            out[i * c.n + j] = acc;
        }
    }
    out
}

fn in_reduced_range(c: &Case) -> bool {
    c.a.iter().all(|&x| x <= 127) || c.b.iter().all(|&x| (-64..=63).contains(&x))
}

fn run_impl(g: &GemmExecutor<u8, i8, i32>, c: &Case) -> Result<Vec<i32>, String> {
    let (sa, ars, acs) = lay_out(&c.a, c.m, c.k, c.lay_a, 0xA5u8);
    let (sb, brs, bcs) = lay_out(&c.b, c.k, c.n, c.lay_b, -77i8);
    let av = view(&sa, c.m, c.k, ars, acs);
    let bv = view(&sb, c.k, c.n, brs, bcs);
    let pa = if c.pre & 1 != 0 { Some(g.prepack_a(av)) } else { None };
    let pb = if c.pre & 2 != 0 { Some(g.prepack_b(bv)) } else { None };
    let ia = match &pa {
        Some(p) => GemmInputA::Packed(p),
        None => GemmInputA::Unpacked(av),
    };
    let ib = match &pb {
        Some(p) => GemmInputB::Packed(p),
        None => GemmInputB::Unpacked(bv),
    };
    let mut out: Vec<i32> = match &c.c0 {
        Some(v) => v.clone(),
        None => vec![0x5A5A5A5Au32 as i32; c.m * c.n],
    };
    let opts = GemmOptions {
        alpha: 1.0,
        beta: if c.c0.is_some() { 1 } else { 0 },
        bias: None,
        a_quant: c.za.as_ref().map(|z| QuantParams { zero_point: z.as_slice() }),
        b_quant: c.zb.as_ref().map(|z| QuantParams { zero_point: z.as_slice() }),
    };
    match g.gemm(&mut out, ia, ib, opts) {
        Ok(()) => Ok(out),
        Err(e) => Err(format!("{e:?}")),
    }
}

/// Column block size of `rten_gemm::gemv`: `max(ceil(N / rayon threads), 128)`.
fn gemv_col_block(n: usize) -> usize {
    let threads = std::env::var("RAYON_NUM_THREADS")
        .ok()
        .and_then(|v| v.parse::<usize>().ok())
        .filter(|&t| t > 0)
        .unwrap_or_else(|| std::thread::available_parallelism().map(|p| p.get()).unwrap_or(1));
    n.div_ceil(threads).max(128)
}

fn kern_class(name: &str) -> &'static str {
    if name.contains("avx512") {
        "avx512"
    } else if name.contains("avx2") {
        "avx2"
    } else if name.contains("generic") {
        "generic"
    } else {
        "other"
    }
}

fn one(out: &mut Out, kernels: &[(String, GemmExecutor<u8, i8, i32>)], c: &Case) {
    let want = oracle(c);
    let reduced = in_reduced_range(c);
    for (name, g) in kernels {
        let sat = g.may_saturate();
        let path = if c.m == 1 && c.pre == 0 { "gemv" } else { "gemm" };
        let req = format!(
            "g kern={} sat={} path={} pre={} lay={}{} cb={} m={} n={} k={} za={} zb={} c0={} a={} b={}",
            kern_class(name),
            sat as u8,
            path,
            c.pre,
            c.lay_a as char,
            c.lay_b as char,
            gemv_col_block(c.n),
            c.m,
            c.n,
            c.k,
            opt_rle(&c.za),
            opt_rle(&c.zb),
            opt_rle(&c.c0),
            rle(&c.a),
            rle(&c.b)
        );
        let res = hcommon::catch(|| run_impl(g, c));
        let mut fail: Option<String> = None;
        let ans = match res {
            Ok(Ok(v)) => {
                if !sat || reduced {
                    if let Some(pos) = (0..v.len()).find(|&i| v[i] as i64 != want[i]) {
                        fail = Some(format!(
                            "kernel {} out[{},{}]={} but exact value is {} (may_saturate={}, reduced_range={})",
                            name,
                            pos / c.n,
                            pos % c.n,
                            v[pos],
                            want[pos],
                            sat,
                            reduced
                        ));
                    }
                }
                rle(&v)
            }
            Ok(Err(e)) => {
                fail = Some(format!("kernel {name} returned error {e} for a well-formed request"));
                format!("err:{e}")
            }
            Err(msg) => {
                fail = Some(format!("kernel {name} panicked on a well-formed request: {msg}"));
                "panic".to_string()
            }
        };
        out.bucket(&format!("kern_{}", kern_class(name)));
        out.bucket(&format!("path_{path}"));
        out.bucket(&format!("gen_{}", c.tag));
        out.bucket(if reduced { "range_reduced" } else { "range_full" });
        out.bucket(&format!("pre_{}", c.pre));
        out.bucket(&format!("zp_{}{}", c.za.is_some() as u8, c.zb.is_some() as u8));
        if c.k % 4 != 0 {
            out.bucket("k_not_multiple_of_4");
        }
        let nontrivial = c.m > 0 && c.n > 0 && c.k > 0;
        out.case(&req, &ans, fail.as_deref(), nontrivial);
    }
}

const A_EXT: [u8; 8] = [0, 255, 1, 254, 127, 128, 2, 200];
const B_EXT: [i8; 10] = [-128, 127, -1, 0, 1, -64, 63, 64, -65, -127];

fn gen_vals(rng: &mut Rng, class: u64, m: usize, n: usize, k: usize) -> (Vec<u8>, Vec<i8>) {
    let mut a = vec![0u8; m * k];
    let mut b = vec![0i8; k * n];
    match class {
        0 => {
            // b in reduced range, a full (extremes favoured)
            for x in a.iter_mut() {
                *x = if rng.chance(1, 2) { *rng.pick(&A_EXT) } else { rng.below(256) as u8 };
            }
            for x in b.iter_mut() {
                *x = if rng.chance(1, 3) { *rng.pick(&[-64i8, 63, 0, -1]) } else { rng.range_i64(-64, 63) as i8 };
            }
        }
        1 => {
            // a in reduced range, b full
            for x in a.iter_mut() {
                *x = if rng.chance(1, 3) { *rng.pick(&[0u8, 127, 1, 126]) } else { rng.below(128) as u8 };
            }
            for x in b.iter_mut() {
                *x = if rng.chance(1, 2) { *rng.pick(&B_EXT) } else { rng.range_i64(-128, 127) as i8 };
            }
        }
        2 => {
            // full range random
            for x in a.iter_mut() {
                *x = rng.below(256) as u8;
            }
            for x in b.iter_mut() {
                *x = rng.range_i64(-128, 127) as i8;
            }
        }
        3 => {
            // extremes only
            for x in a.iter_mut() {
                *x = *rng.pick(&A_EXT);
            }
            for x in b.iter_mut() {
                *x = *rng.pick(&B_EXT);
            }
        }
        _ => {
            // constant extreme combination (all pairs saturate on vpmaddubsw when 255 x -128 / 127)
            let av = *rng.pick(&[255u8, 0, 128, 254]);
            let bv = *rng.pick(&[-128i8, 127, 64, -65]);
            a.iter_mut().for_each(|x| *x = av);
            b.iter_mut().for_each(|x| *x = bv);
        }
    }
    (a, b)
}

fn gen_zp_a(rng: &mut Rng, m: usize) -> Option<Vec<u8>> {
    match rng.below(5) {
        0 => None,
        1 => {
            let z = *rng.pick(&[0u8, 255, 128, 1, 127]);
            Some(vec![z; m])
        }
        2 => Some((0..m).map(|i| (i * 37 + 11) as u8).collect()),
        3 => Some((0..m).map(|_| *rng.pick(&[0u8, 255, 1, 128])).collect()),
        _ => Some((0..m).map(|_| rng.below(256) as u8).collect()),
    }
}

fn gen_zp_b(rng: &mut Rng, n: usize) -> Option<Vec<i8>> {
    match rng.below(5) {
        0 => None,
        1 => {
            let z = *rng.pick(&[0i8, -128, 127, 1, -1]);
            Some(vec![z; n])
        }
        2 => Some((0..n).map(|i| ((i * 29 + 5) as u8) as i8).collect()),
        3 => Some((0..n).map(|_| *rng.pick(&[-128i8, 127, 0, -1])).collect()),
        _ => Some((0..n).map(|_| rng.range_i64(-128, 127) as i8).collect()),
    }
}

fn gen_dim(rng: &mut Rng, big: bool) -> usize {
    if big {
        rng.usize_below(71)
    } else {
        match rng.below(10) {
            0 => 0,
            1 => 1,
            _ => 1 + rng.usize_below(20),
        }
    }
}

fn random_case(rng: &mut Rng) -> Case {
    let big = rng.chance(1, 6);
    let mut m = gen_dim(rng, big);
    let n = gen_dim(rng, big);
    let k = gen_dim(rng, big);
    if rng.chance(1, 5) {
        m = 1; // vector-matrix path
    }
    let class = rng.below(5);
    let (a, b) = gen_vals(rng, class, m, n, k);
    let za = gen_zp_a(rng, m);
    let zb = gen_zp_b(rng, n);
    let c0 = if rng.chance(1, 6) {
        Some((0..m * n).map(|_| rng.range_i64(-100000, 100000) as i32).collect())
    } else {
        None
    };
    let lay_a = *rng.pick(&[b'r', b'r', b't', b's', b'p']);
    let lay_b = *rng.pick(&[b'r', b'r', b't', b's', b'p']);
    let pre = if rng.chance(1, 5) { 1 + rng.below(3) as u8 } else { 0 };
    Case {
        m,
        n,
        k,
        a,
        b,
        za,
        zb,
        c0,
        lay_a,
        lay_b,
        pre,
        tag: ["reduced_b", "reduced_a", "full", "extremes", "const_extreme"][class as usize],
    }
}

/// Shapes aimed at the blocking structure: several row/column panels and
/// blocks, several depth blocks, K at the i32 bound.
fn structured_cases(rng: &mut Rng, thorough: bool) -> Vec<Case> {
    let mut v = vec![];
    let mut push = |rng: &mut Rng, m: usize, n: usize, k: usize, class: u64, tag: &'static str, zp: bool, pre: u8| {
        let (a, b) = gen_vals(rng, class, m, n, k);
        let za = if zp { Some((0..m).map(|i| (i * 37 + 11) as u8).collect()) } else { None };
        let zb = if zp { Some((0..n).map(|i| ((i * 29 + 5) as u8) as i8).collect()) } else { None };
        v.push(Case { m, n, k, a, b, za, zb, c0: None, lay_a: b'r', lay_b: b'r', pre, tag });
    };
    // several row panels / row blocks (mc = 64) and column panels / blocks (nc >= 128)
    for &(m, n, k) in &[(12, 3, 5), (13, 32, 4), (16, 33, 7), (24, 64, 9), (65, 5, 6), (70, 70, 3), (130, 2, 5), (3, 140, 6), (2, 300, 4), (1, 300, 9), (1, 64, 8), (1, 65, 13), (1, 130, 70)] {
        for class in [0u64, 2] {
            for zp in [false, true] {
                push(rng, m, n, k, class, "panels", zp, 0);
            }
        }
        push(rng, m, n, k, 0, "panels", true, 3);
    }
    // several depth blocks (kc = 1024)
    for &(m, n, k) in &[(2, 3, 1024), (3, 2, 1025), (1, 3, 1027), (7, 17, 2050), (1, 33, 2049)] {
        push(rng, m, n, k, 0, "depth_blocks", true, 0);
        push(rng, m, n, k, 3, "depth_blocks", true, 0);
        if thorough {
            push(rng, m, n, k, 2, "depth_blocks", true, 2);
        }
    }
    // K at the i32 bounds: 33025 with extreme zero points, 65793 without zero points
    for &m in &[1usize, 2] {
        let k = 33025;
        v.push(Case {
            m,
            n: 1,
            k,
            a: vec![255; m * k],
            b: vec![-128; k],
            za: Some(vec![0; m]),
            zb: Some(vec![127]),
            c0: None,
            lay_a: b'r',
            lay_b: b'r',
            pre: 0,
            tag: "k_bound",
        });
        v.push(Case {
            m,
            n: 2,
            k,
            a: vec![0; m * k],
            b: vec![63; k * 2],
            za: Some(vec![255; m]),
            zb: Some(vec![-128, -128]),
            c0: None,
            lay_a: b'r',
            lay_b: b't',
            pre: 0,
            tag: "k_bound",
        });
        let k = 65793;
        v.push(Case {
            m,
            n: 1,
            k,
            a: vec![255; m * k],
            b: vec![-128; k],
            za: None,
            zb: None,
            c0: None,
            lay_a: b'r',
            lay_b: b'r',
            pre: 0,
            tag: "k_bound",
        });
        v.push(Case {
            m,
            n: 1,
            k,
            a: vec![255; m * k],
            b: vec![-64; k],
            za: None,
            zb: None,
            c0: None,
            lay_a: b'r',
            lay_b: b't',
            pre: 0,
            tag: "k_bound",
        });
    }
    v
}

/// Vector-matrix (gemv) shapes aimed at the SIMD/scalar split of `simd_int8_gemv`: column counts
/// around one and two SIMD vectors (32 / 64 bytes) and the 128-column block, K around the 4-tile,
/// the 8 / 512 chunk and one SIMD vector, every B layout, values outside the reduced range.
fn gemv_cases(rng: &mut Rng, thorough: bool) -> Vec<Case> {
    let mut v = vec![];
    let mut push = |rng: &mut Rng, n: usize, k: usize, class: u64, lay_b: u8, zp: bool| {
        let (a, b) = gen_vals(rng, class, 1, n, k);
        let za = if zp { Some(vec![*rng.pick(&[0u8, 255, 128, 7])]) } else { None };
        let zb = if zp { Some((0..n).map(|i| ((i * 29 + 5) as u8) as i8).collect()) } else { None };
        let c0 = if rng.chance(1, 8) { Some((0..n).map(|_| rng.range_i64(-1000, 1000) as i32).collect()) } else { None };
        v.push(Case { m: 1, n, k, a, b, za, zb, c0, lay_a: b'r', lay_b, pre: 0, tag: "gemv" });
    };
    let ks: &[usize] = if thorough { &[1, 2, 3, 4, 5, 7, 8, 9, 12, 13, 16, 17, 33, 70] } else { &[1, 3, 4, 5, 8, 9, 13, 33, 70] };
    for &lay_b in &[b'r', b't', b's', b'p'] {
        for &n in &[31usize, 32, 33, 64, 65, 97, 130, 200] {
            for (i, &k) in ks.iter().enumerate() {
                push(rng, n, k, if i % 2 == 0 { 3 } else { 4 }, lay_b, i % 3 != 0);
                if thorough {
                    push(rng, n, k, 2, lay_b, true);
                }
            }
        }
        for &n in &[1usize, 2, 33, 65] {
            for &k in &[63usize, 64, 65, 129, 511, 512, 513, 600] {
                push(rng, n, k, 3, lay_b, true);
                push(rng, n, k, 4, lay_b, false);
            }
        }
    }
    v
}

/// `gerr m= ka= kb= n= za=<-|len> zb=<-|len> out=<len>`: argument checks of `gemm` (first kernel).
fn gerr_cases(out: &mut Out, kernels: &[(String, GemmExecutor<u8, i8, i32>)]) {
    let g = &kernels[0].1;
    for &(m, ka, kb, n) in &[(2usize, 3usize, 3usize, 4usize), (2, 3, 4, 4), (1, 5, 5, 3), (1, 5, 4, 3), (3, 0, 0, 2), (0, 2, 2, 0)] {
        for za in [None, Some(m), Some(m + 1), Some(0)] {
            for zb in [None, Some(n), Some(n + 1)] {
                for outl in [m * n, m * n + 1, (m * n).saturating_sub(1)] {
                    let req = format!(
                        "gerr m={m} ka={ka} kb={kb} n={n} za={} zb={} out={outl}",
                        za.map(|v| v.to_string()).unwrap_or("-".into()),
                        zb.map(|v| v.to_string()).unwrap_or("-".into())
                    );
                    let res = hcommon::catch(|| {
                        let a = vec![1u8; m * ka];
                        let b = vec![1i8; kb * n];
                        let zav = za.map(|l| vec![1u8; l]);
                        let zbv = zb.map(|l| vec![1i8; l]);
                        let mut o = vec![0i32; outl];
                        let opts = GemmOptions {
                            alpha: 1.0,
                            beta: 0,
                            bias: None,
                            a_quant: zav.as_ref().map(|z| QuantParams { zero_point: z.as_slice() }),
                            b_quant: zbv.as_ref().map(|z| QuantParams { zero_point: z.as_slice() }),
                        };
                        let av = NdTensorView::from_data([m, ka], a.as_slice());
                        let bv = NdTensorView::from_data([kb, n], b.as_slice());
                        match g.gemm(&mut o, GemmInputA::Unpacked(av), GemmInputB::Unpacked(bv), opts) {
                            Ok(()) => "ok".to_string(),
                            Err(e) => format!("err:{e:?}"),
                        }
                    });
                    let ans = res.unwrap_or_else(|_| "panic".into());
                    let fail = if ans == "panic" { Some("gemm panicked instead of returning an error") } else { None };
                    out.bucket(&format!("gerr_{}", ans.replace(':', "_")));
                    out.case(&req, &ans, fail, true);
                }
            }
        }
    }
}

/// Exhaustive pair sweep for the saturating pairwise sum: K = 2, one output,
/// every u8 `a` against selected `b`, and every i8 `b` against selected `a`.
fn pair_cases(thorough: bool) -> Vec<Case> {
    let mut v = vec![];
    let bs: Vec<i8> = if thorough { (-128..=127).map(|x| x as i8).collect() } else { B_EXT.to_vec() };
    // pack many pairs into one GEMM: M rows of A = (a, a'), N columns of B = (b, b')
    let a_pairs: Vec<(u8, u8)> = (0..=255u16).map(|x| (x as u8, (255 - x) as u8)).chain((0..=255u16).map(|x| (x as u8, x as u8))).collect();
    for chunk in a_pairs.chunks(64) {
        let m = chunk.len();
        let n = bs.len();
        let mut a = vec![];
        for &(x, y) in chunk {
            a.push(x);
            a.push(y);
        }
        let mut b = vec![0i8; 2 * n];
        for (j, &bv) in bs.iter().enumerate() {
            b[j] = bv;
            b[n + j] = bv;
        }
        v.push(Case { m, n, k: 2, a, b, za: None, zb: None, c0: None, lay_a: b'r', lay_b: b'r', pre: 0, tag: "pairs" });
    }
    v
}

// =================================================================================================
// Operator level: MatMulInteger / ConvInteger / QuantizeLinear / DequantizeLinear /
// DynamicQuantizeLinear through the public API (single-operator ONNX models built here, loaded with
// `ModelOptions::with_all_ops().load`, executed with `Model::run`).
//
//   mmi pre=<0|1> da=<u8|i8> db=<u8|i8> batch=<0|B> bb=<0|1> m= k= n= za=<-|s:v|v:rle> zb=<..> a=<rle> b=<rle>
//   cvi pre=<0|1> dx= dw= n= c= h= w= o= kh= kw= g= pads=t,l,b,r st=sy,sx dil=dy,dx xz=<-|v> wz=<-|s:v|v:rle> x=<rle> wt=<rle>
//   ql dt= e= zp= x=<rle>            (scale 2^e, x integers)              -> quantized values
//   dq dt= e= zp= q=<rle>            (scale 2^e)                          -> out / 2^e
//   dql e= x=<rle>                   (input = x * 2^e)                    -> scale_e=.. zp=.. y=..
//   # dqlr n= amp=                   (random reals; property oracle only)
// =================================================================================================
#[path = "../onnx_enc.rs"]
mod onnx_enc;
use onnx_enc::{dt, Attr, Graph, Node, Tensor as OT, ValueInfo};
use rten::{ModelOptions, Value};
use rten_tensor::Tensor as RTensor;

fn enc_attr(name: &str, a: &Attr) -> Vec<u8> {
    use onnx_enc::{f_bytes, f_f32, f_i64, f_str};
    let mut o = Vec::new();
    f_str(&mut o, 1, name);
    match a {
        Attr::Float(v) => {
            f_f32(&mut o, 2, *v);
            f_i64(&mut o, 20, 1);
        }
        Attr::Int(v) => {
            f_i64(&mut o, 3, *v);
            f_i64(&mut o, 20, 2);
        }
        Attr::Str(v) => {
            f_str(&mut o, 4, v);
            f_i64(&mut o, 20, 3);
        }
        Attr::Ints(v) => {
            for x in v {
                f_i64(&mut o, 8, *x);
            }
            f_i64(&mut o, 20, 7);
        }
        _ => panic!("attribute kind not used by this harness"),
    }
    o
}

fn enc_node(n: &Node) -> Vec<u8> {
    use onnx_enc::{f_bytes, f_str};
    let mut o = Vec::new();
    for i in &n.inputs {
        f_str(&mut o, 1, i);
    }
    for i in &n.outputs {
        f_str(&mut o, 2, i);
    }
    f_str(&mut o, 3, &n.name);
    f_str(&mut o, 4, &n.op_type);
    for (name, a) in &n.attrs {
        f_bytes(&mut o, 5, &enc_attr(name, a));
    }
    if !n.domain.is_empty() {
        f_str(&mut o, 7, &n.domain);
    }
    o
}

fn model_bytes(g: &Graph) -> Vec<u8> {
    use onnx_enc::{f_bytes, f_i64, f_str};
    let mut gb = Vec::new();
    for n in &g.nodes {
        f_bytes(&mut gb, 1, &enc_node(n));
    }
    f_str(&mut gb, 2, "g");
    for t in &g.initializers {
        f_bytes(&mut gb, 5, &t.encode());
    }
    for v in &g.inputs {
        f_bytes(&mut gb, 11, &v.encode());
    }
    for v in &g.outputs {
        f_bytes(&mut gb, 12, &v.encode());
    }
    let mut o = Vec::new();
    f_i64(&mut o, 1, 8);
    f_str(&mut o, 2, "rten-verif");
    f_bytes(&mut o, 7, &gb);
    for (domain, version) in [("", 21i64), ("com.microsoft", 1)] {
        let mut ops = Vec::new();
        f_str(&mut ops, 1, domain);
        f_i64(&mut ops, 2, version);
        f_bytes(&mut o, 8, &ops);
    }
    o
}

enum Feed {
    U8(Vec<usize>, Vec<u8>),
    I8(Vec<usize>, Vec<i8>),
    F32(Vec<usize>, Vec<f32>),
}

impl Feed {
    fn dtype(&self) -> i32 {
        match self {
            Feed::U8(..) => dt::UINT8,
            Feed::I8(..) => dt::INT8,
            Feed::F32(..) => dt::FLOAT,
        }
    }
    fn as_init(&self, name: &str) -> OT {
        match self {
            Feed::U8(s, v) => OT::u8s(name, &s.iter().map(|&d| d as i64).collect::<Vec<_>>(), v),
            Feed::I8(s, v) => OT::i8s(name, &s.iter().map(|&d| d as i64).collect::<Vec<_>>(), v),
            Feed::F32(s, v) => OT::f32s(name, &s.iter().map(|&d| d as i64).collect::<Vec<_>>(), v),
        }
    }
}

/// Build and run a single-node model. `inputs`: (name, data, as_initializer).
fn run_op(node: Node, inputs: Vec<(String, Feed, bool)>, outs: &[(&str, i32)], prepack: bool) -> Result<Vec<Value>, String> {
    let mut g = Graph { nodes: vec![node], ..Default::default() };
    for (name, f, init) in &inputs {
        if *init {
            g.initializers.push(f.as_init(name));
        } else {
            g.inputs.push(ValueInfo::new(name, f.dtype(), None));
        }
    }
    g.outputs = outs.iter().map(|(n, d)| ValueInfo::new(n, *d, None)).collect();
    let bytes = model_bytes(&g);
    let mut opts = ModelOptions::with_all_ops();
    opts.enable_optimization(false);
    opts.prepack_weights(prepack);
    let model = opts.load(bytes).map_err(|e| format!("load: {e}"))?;
    let mut tensors_u8 = vec![];
    let mut tensors_i8 = vec![];
    let mut tensors_f32 = vec![];
    for (name, f, init) in &inputs {
        if *init {
            continue;
        }
        let id = model.node_id(name).map_err(|e| format!("node_id: {e}"))?;
        match f {
            Feed::U8(s, v) => tensors_u8.push((id, RTensor::from_data(s.as_slice(), v.clone()))),
            Feed::I8(s, v) => tensors_i8.push((id, RTensor::from_data(s.as_slice(), v.clone()))),
            Feed::F32(s, v) => tensors_f32.push((id, RTensor::from_data(s.as_slice(), v.clone()))),
        }
    }
    let mut run_inputs = vec![];
    for (id, t) in &tensors_u8 {
        run_inputs.push((*id, t.view().into()));
    }
    for (id, t) in &tensors_i8 {
        run_inputs.push((*id, t.view().into()));
    }
    for (id, t) in &tensors_f32 {
        run_inputs.push((*id, t.view().into()));
    }
    let mut out_ids = vec![];
    for (n, _) in outs {
        out_ids.push(model.node_id(n).map_err(|e| format!("node_id: {e}"))?);
    }
    model.run(run_inputs, &out_ids, None).map_err(|e| format!("run: {e}"))
}

#[derive(Clone, Copy, PartialEq, Debug)]
enum QDt {
    U8,
    I8,
}

impl QDt {
    fn name(self) -> &'static str {
        match self {
            QDt::U8 => "u8",
            QDt::I8 => "i8",
        }
    }
    fn range(self) -> (i64, i64) {
        match self {
            QDt::U8 => (0, 255),
            QDt::I8 => (-128, 127),
        }
    }
    fn feed(self, shape: &[usize], v: &[i64]) -> Feed {
        match self {
            QDt::U8 => Feed::U8(shape.to_vec(), v.iter().map(|&x| x as u8).collect()),
            QDt::I8 => Feed::I8(shape.to_vec(), v.iter().map(|&x| x as i8).collect()),
        }
    }
    fn gen(self, rng: &mut Rng, style: u64) -> i64 {
        let (lo, hi) = self.range();
        match style {
            0 => *rng.pick(&[lo, hi, lo + 1, hi - 1, (lo + hi) / 2, (lo + hi) / 2 + 1]),
            1 => {
                if rng.chance(1, 3) {
                    *rng.pick(&[lo, hi])
                } else {
                    rng.range_i64(lo, hi)
                }
            }
            _ => rng.range_i64(lo, hi),
        }
    }
}

#[derive(Clone)]
enum Zp {
    None,
    Scalar(i64),
    Vec(Vec<i64>),
}

impl Zp {
    fn at(&self, i: usize) -> i64 {
        match self {
            Zp::None => 0,
            Zp::Scalar(v) => *v,
            Zp::Vec(v) => v[i],
        }
    }
    fn show(&self) -> String {
        match self {
            Zp::None => "-".into(),
            Zp::Scalar(v) => format!("s:{v}"),
            Zp::Vec(v) => format!("v:{}", rle(v)),
        }
    }
    fn gen(rng: &mut Rng, d: QDt, len: usize, allow_vec: bool) -> Zp {
        match rng.below(if allow_vec { 4 } else { 3 }) {
            0 => Zp::None,
            1 => Zp::Scalar(d.gen(rng, 0)),
            2 => Zp::Scalar(d.gen(rng, 2)),
            _ => Zp::Vec((0..len).map(|_| d.gen(rng, 1)).collect()),
        }
    }
    fn input(&self, name: &str, d: QDt) -> Option<(String, Feed, bool)> {
        match self {
            Zp::None => None,
            Zp::Scalar(v) => Some((name.to_string(), d.feed(&[], &[*v]), true)),
            Zp::Vec(v) => Some((name.to_string(), d.feed(&[v.len()], v), true)),
        }
    }
}

fn ints_of(v: &Value) -> Result<(Vec<usize>, Vec<i64>), String> {
    match v {
        Value::Int32Tensor(t) => Ok((t.shape().to_vec(), t.iter().map(|&x| x as i64).collect())),
        Value::UInt8Tensor(t) => Ok((t.shape().to_vec(), t.iter().map(|&x| x as i64).collect())),
        Value::Int8Tensor(t) => Ok((t.shape().to_vec(), t.iter().map(|&x| x as i64).collect())),
        _ => Err("unexpected output type".into()),
    }
}

fn floats_of(v: &Value) -> Result<Vec<f32>, String> {
    match v {
        Value::FloatTensor(t) => Ok(t.iter().copied().collect()),
        _ => Err("unexpected output type".into()),
    }
}

fn shape_str(s: &[usize]) -> String {
    hcommon::join(s.iter(), "x")
}

fn mmi_case(out: &mut Out, rng: &mut Rng) {
    let da = *rng.pick(&[QDt::U8, QDt::I8]);
    let db = *rng.pick(&[QDt::U8, QDt::I8]);
    let batch = *rng.pick(&[0usize, 0, 0, 2, 3]);
    let bb = batch > 0 && rng.chance(1, 3);
    let m = *rng.pick(&[1usize, 1, 2, 3, 5, 8, 9, 13, 17]);
    let k = if rng.chance(1, 15) { 0 } else { 1 + rng.usize_below(24) };
    let n = *rng.pick(&[1usize, 2, 3, 7, 16, 17, 31, 33, 40]);
    let pre = !bb && rng.chance(1, 3);
    let nb = batch.max(1);
    let style = rng.below(3);
    let a: Vec<i64> = (0..nb * m * k).map(|_| da.gen(rng, style)).collect();
    let b: Vec<i64> = (0..(if bb { nb } else { 1 }) * k * n).map(|_| db.gen(rng, style)).collect();
    let za = Zp::gen(rng, da, m, true);
    let zb = Zp::gen(rng, db, n, true);
    let req = format!(
        "mmi pre={} da={} db={} batch={} bb={} m={m} k={k} n={n} za={} zb={} a={} b={}",
        pre as u8,
        da.name(),
        db.name(),
        batch,
        bb as u8,
        za.show(),
        zb.show(),
        rle(&a),
        rle(&b)
    );
    let mut want = vec![];
    for bi in 0..nb {
        for i in 0..m {
            for j in 0..n {
                let mut acc = 0i64;
                for kk in 0..k {
                    let av = a[(bi * m + i) * k + kk];
                    let bv = b[((if bb { bi } else { 0 }) * k + kk) * n + j];
                    acc += (av - za.at(i)) * (bv - zb.at(j));
                }
                want.push(acc);
            }
        }
    }
    let a_shape: Vec<usize> = if batch > 0 { vec![batch, m, k] } else { vec![m, k] };
    let b_shape: Vec<usize> = if bb { vec![batch, k, n] } else { vec![k, n] };
    let res = hcommon::catch(|| {
        let mut inputs = vec![("A".to_string(), da.feed(&a_shape, &a), false), ("B".to_string(), db.feed(&b_shape, &b), pre)];
        let mut names = vec!["A", "B"];
        match (za.input("azp", da), zb.input("bzp", db)) {
            (Some(x), Some(y)) => {
                inputs.push(x);
                inputs.push(y);
                names.push("azp");
                names.push("bzp");
            }
            (Some(x), None) => {
                inputs.push(x);
                names.push("azp");
            }
            (None, Some(y)) => {
                inputs.push(y);
                names.push("");
                names.push("bzp");
            }
            (None, None) => {}
        }
        let node = Node::new("MatMulInteger", "op", &names, &["Y"]);
        run_op(node, inputs, &[("Y", dt::INT32)], pre).and_then(|o| ints_of(&o[0]))
    });
    let mut fail = None;
    let ans = match res {
        Ok(Ok((shape, v))) => {
            if v != want {
                let p = (0..v.len().min(want.len())).find(|&i| v[i] != want[i]).unwrap_or(0);
                fail = Some(format!("MatMulInteger out[{p}]={:?} but exact value is {:?}", v.get(p), want.get(p)));
            }
            format!("shape={} {}", shape_str(&shape), rle(&v))
        }
        Ok(Err(e)) => {
            fail = Some(format!("MatMulInteger failed on a well-formed model: {e}"));
            "err".into()
        }
        Err(m) => {
            fail = Some(format!("MatMulInteger panicked: {m}"));
            "panic".into()
        }
    };
    out.bucket(&format!("op_mmi_{}{}_pre{}", da.name(), db.name(), pre as u8));
    out.case(&req, &ans, fail.as_deref(), k > 0);
}

fn cvi_case(out: &mut Out, rng: &mut Rng) {
    let dx = *rng.pick(&[QDt::U8, QDt::I8]);
    let dw = *rng.pick(&[QDt::U8, QDt::I8]);
    let kind = rng.below(4); // 0 general, 1 grouped, 2 depthwise, 3 pointwise
    let groups = match kind {
        1 => 2,
        2 => 1 + rng.usize_below(3),
        _ => 1,
    };
    let (c, o) = match kind {
        2 => (groups, groups),
        _ => (groups * (1 + rng.usize_below(3)), groups * (1 + rng.usize_below(3))),
    };
    let nimg = *rng.pick(&[1usize, 1, 2, 3]);
    let (kh, kw) = if kind == 3 { (1, 1) } else { (1 + rng.usize_below(3), 1 + rng.usize_below(3)) };
    let (dy, dxx) = if kind == 3 { (1, 1) } else { (1 + rng.usize_below(2), 1 + rng.usize_below(2)) };
    let (sy, sx) = if kind == 3 && rng.chance(2, 3) { (1, 1) } else { (1 + rng.usize_below(2), 1 + rng.usize_below(2)) };
    let pads: [usize; 4] = if kind == 3 && rng.chance(2, 3) {
        [0; 4]
    } else if rng.chance(1, 4) {
        [0; 4]
    } else {
        [rng.usize_below(3), rng.usize_below(3), rng.usize_below(3), rng.usize_below(3)]
    };
    let min_h = (dy * (kh - 1) + 1).saturating_sub(pads[0] + pads[2]).max(1);
    let min_w = (dxx * (kw - 1) + 1).saturating_sub(pads[1] + pads[3]).max(1);
    let h = min_h + rng.usize_below(5);
    let w = min_w + rng.usize_below(5);
    let cg = c / groups;
    let style = rng.below(3);
    let x: Vec<i64> = (0..nimg * c * h * w).map(|_| dx.gen(rng, style)).collect();
    let wt: Vec<i64> = (0..o * cg * kh * kw).map(|_| dw.gen(rng, style)).collect();
    let xz = match Zp::gen(rng, dx, 1, false) {
        Zp::Vec(_) => Zp::None,
        z => z,
    };
    let wz = Zp::gen(rng, dw, o, true);
    let pre = rng.chance(1, 3);
    let oh = (h + pads[0] + pads[2] - (dy * (kh - 1) + 1)) / sy + 1;
    let ow = (w + pads[1] + pads[3] - (dxx * (kw - 1) + 1)) / sx + 1;
    let req = format!(
        "cvi pre={} dx={} dw={} n={nimg} c={c} h={h} w={w} o={o} kh={kh} kw={kw} g={groups} pads={},{},{},{} st={sy},{sx} dil={dy},{dxx} xz={} wz={} x={} wt={}",
        pre as u8,
        dx.name(),
        dw.name(),
        pads[0],
        pads[1],
        pads[2],
        pads[3],
        xz.show(),
        wz.show(),
        rle(&x),
        rle(&wt)
    );
    let og = o / groups;
    let mut want = vec![];
    for img in 0..nimg {
        for oc in 0..o {
            let g = oc / og;
            for oy in 0..oh {
                for ox in 0..ow {
                    let mut acc = 0i64;
                    for ic in 0..cg {
                        for ky in 0..kh {
                            for kx in 0..kw {
                                let iy = oy * sy + ky * dy;
                                let ix = ox * sx + kx * dxx;
                                if iy >= pads[0] && iy < h + pads[0] && ix >= pads[1] && ix < w + pads[1] {
                                    let xv = x[((img * c + g * cg + ic) * h + iy - pads[0]) * w + ix - pads[1]];
                                    let wv = wt[((oc * cg + ic) * kh + ky) * kw + kx];
                                    acc += (wv - wz.at(oc)) * (xv - xz.at(0));
                                }
                            }
                        }
                    }
                    want.push(acc);
                }
            }
        }
    }
    let res = hcommon::catch(|| {
        let mut inputs = vec![
            ("X".to_string(), dx.feed(&[nimg, c, h, w], &x), false),
            ("W".to_string(), dw.feed(&[o, cg, kh, kw], &wt), pre),
        ];
        let mut names = vec!["X", "W"];
        match (xz.input("xzp", dx), wz.input("wzp", dw)) {
            (Some(a), Some(b)) => {
                inputs.push(a);
                inputs.push(b);
                names.push("xzp");
                names.push("wzp");
            }
            (Some(a), None) => {
                inputs.push(a);
                names.push("xzp");
            }
            (None, Some(b)) => {
                inputs.push(b);
                names.push("");
                names.push("wzp");
            }
            (None, None) => {}
        }
        let node = Node::new("ConvInteger", "op", &names, &["Y"])
            .attr("pads", Attr::Ints(pads.iter().map(|&p| p as i64).collect()))
            .attr("strides", Attr::Ints(vec![sy as i64, sx as i64]))
            .attr("dilations", Attr::Ints(vec![dy as i64, dxx as i64]))
            .attr("group", Attr::Int(groups as i64));
        run_op(node, inputs, &[("Y", dt::INT32)], pre).and_then(|o| ints_of(&o[0]))
    });
    let mut fail = None;
    let ans = match res {
        Ok(Ok((shape, v))) => {
            if v != want {
                let p = (0..v.len().min(want.len())).find(|&i| v[i] != want[i]).unwrap_or(0);
                fail = Some(format!("ConvInteger out[{p}]={:?} but the definition gives {:?}", v.get(p), want.get(p)));
            }
            format!("shape={} {}", shape_str(&shape), rle(&v))
        }
        Ok(Err(e)) => {
            fail = Some(format!("ConvInteger failed on a well-formed model: {e}"));
            "err".into()
        }
        Err(m) => {
            fail = Some(format!("ConvInteger panicked: {m}"));
            "panic".into()
        }
    };
    out.bucket(&format!("op_cvi_kind{kind}_{}{}", dx.name(), dw.name()));
    out.bucket(if pads.iter().any(|&p| p > 0) { "op_cvi_padded" } else { "op_cvi_unpadded" });
    out.case(&req, &ans, fail.as_deref(), true);
}

fn pow2(e: i32) -> f32 {
    2f32.powi(e)
}

fn ql_case(out: &mut Out, rng: &mut Rng) {
    let d = *rng.pick(&[QDt::U8, QDt::I8]);
    let e = rng.range_i64(-3, 4) as i32;
    let zp = d.gen(rng, 1);
    let len = 1 + rng.usize_below(40);
    // integers so that x / 2^e hits exact ties, both signs, and values far outside the range
    let x: Vec<i64> = (0..len)
        .map(|_| {
            let span = 300i64 << e.max(0);
            if rng.chance(1, 8) {
                *rng.pick(&[0, 100000, -100000])
            } else {
                rng.range_i64(-span, span)
            }
        })
        .collect();
    let req = format!("ql dt={} e={e} zp={zp} x={}", d.name(), rle(&x));
    let xf: Vec<f32> = x.iter().map(|&v| v as f32).collect();
    let res = hcommon::catch(|| {
        let inputs = vec![
            ("X".to_string(), Feed::F32(vec![len], xf.clone()), false),
            ("S".to_string(), Feed::F32(vec![], vec![pow2(e)]), true),
            ("Z".to_string(), d.feed(&[], &[zp]), true),
        ];
        let node = Node::new("QuantizeLinear", "op", &["X", "S", "Z"], &["Y"]);
        run_op(node, inputs, &[("Y", if d == QDt::U8 { dt::UINT8 } else { dt::INT8 })], false).and_then(|o| ints_of(&o[0]))
    });
    let (lo, hi) = d.range();
    let mut fail = None;
    let ans = match res {
        Ok(Ok((_, v))) => {
            // property: dequantize(quantize x) within half a step unless saturated
            for (i, &q) in v.iter().enumerate() {
                let back = (q - zp) as f64 * pow2(e) as f64;
                let err = (back - x[i] as f64).abs();
                let saturated = q == lo || q == hi;
                if !saturated && err > 0.5 * pow2(e) as f64 {
                    fail = Some(format!("QuantizeLinear x={} -> {q}: error {err} exceeds half a step", x[i]));
                }
            }
            rle(&v)
        }
        Ok(Err(e)) => {
            fail = Some(format!("QuantizeLinear failed: {e}"));
            "err".into()
        }
        Err(m) => {
            fail = Some(format!("QuantizeLinear panicked: {m}"));
            "panic".into()
        }
    };
    out.bucket(&format!("op_ql_{}", d.name()));
    out.case(&req, &ans, fail.as_deref(), true);
}

fn dq_case(out: &mut Out, rng: &mut Rng) {
    let d = *rng.pick(&[QDt::U8, QDt::I8]);
    let e = rng.range_i64(-3, 4) as i32;
    let zp = d.gen(rng, 1);
    let len = 1 + rng.usize_below(40);
    let q: Vec<i64> = (0..len).map(|_| d.gen(rng, 1)).collect();
    let req = format!("dq dt={} e={e} zp={zp} q={}", d.name(), rle(&q));
    let res = hcommon::catch(|| {
        let inputs = vec![
            ("X".to_string(), d.feed(&[len], &q), false),
            ("S".to_string(), Feed::F32(vec![], vec![pow2(e)]), true),
            ("Z".to_string(), d.feed(&[], &[zp]), true),
        ];
        let node = Node::new("DequantizeLinear", "op", &["X", "S", "Z"], &["Y"]);
        run_op(node, inputs, &[("Y", dt::FLOAT)], false).and_then(|o| floats_of(&o[0]))
    });
    let mut fail = None;
    let ans = match res {
        Ok(Ok(v)) => {
            let units: Vec<i64> = v.iter().map(|&y| (y as f64 / pow2(e) as f64).round() as i64).collect();
            for (i, &y) in v.iter().enumerate() {
                if y as f64 != (q[i] - zp) as f64 * pow2(e) as f64 {
                    fail = Some(format!("DequantizeLinear q={} -> {y}, expected (q - zp) * scale", q[i]));
                }
            }
            rle(&units)
        }
        Ok(Err(e)) => {
            fail = Some(format!("DequantizeLinear failed: {e}"));
            "err".into()
        }
        Err(m) => {
            fail = Some(format!("DequantizeLinear panicked: {m}"));
            "panic".into()
        }
    };
    out.bucket(&format!("op_dq_{}", d.name()));
    out.case(&req, &ans, fail.as_deref(), true);
}

fn run_dql(xf: &[f32]) -> Result<(Vec<i64>, f32, i64), String> {
    let inputs = vec![("X".to_string(), Feed::F32(vec![xf.len()], xf.to_vec()), false)];
    let node = Node::new("DynamicQuantizeLinear", "op", &["X"], &["Y", "S", "Z"]);
    let o = run_op(node, inputs, &[("Y", dt::UINT8), ("S", dt::FLOAT), ("Z", dt::UINT8)], false)?;
    let (_, y) = ints_of(&o[0])?;
    let s = floats_of(&o[1])?;
    let (_, z) = ints_of(&o[2])?;
    Ok((y, s[0], z[0]))
}

/// Property oracle of DynamicQuantizeLinear: dequantize(quantize x) within one step of x.
fn dql_property(xf: &[f32], y: &[i64], scale: f32, zp: i64) -> Option<String> {
    for (i, &x) in xf.iter().enumerate() {
        let back = (y[i] - zp) as f64 * scale as f64;
        let err = (back - x as f64).abs();
        if !(err <= scale as f64 * (1.0 + 1e-5) + 1e-30) {
            return Some(format!("DynamicQuantizeLinear x={x} -> y={} zp={zp} scale={scale}: |dequantized - x| = {err} exceeds one step", y[i]));
        }
    }
    None
}

fn dql_exact_case(out: &mut Out, rng: &mut Rng) {
    let e = rng.range_i64(-4, 4) as i32;
    let len = 1 + rng.usize_below(30);
    let kind = rng.below(6);
    let mut x: Vec<i64> = match kind {
        0 => vec![0; len],
        1 => {
            // all non-negative, max 255 * 2^j
            let j = rng.below(3) as u32;
            let mut v: Vec<i64> = (0..len).map(|_| rng.range_i64(0, 255 << j)).collect();
            v[0] = 255 << j;
            v
        }
        2 => {
            let j = rng.below(3) as u32;
            let mut v: Vec<i64> = (0..len).map(|_| -rng.range_i64(0, 255 << j)).collect();
            v[0] = -(255 << j);
            v
        }
        _ => {
            let j = rng.below(3) as u32;
            let lo = -rng.range_i64(0, 255 << j);
            let hi = lo + (255 << j);
            let mut v: Vec<i64> = (0..len).map(|_| rng.range_i64(lo, hi)).collect();
            v[0] = lo;
            if len > 1 {
                v[len - 1] = hi;
            } else {
                v.push(hi);
            }
            v
        }
    };
    if kind >= 3 && rng.chance(1, 2) {
        rng.shuffle(&mut x);
    }
    let req = format!("dql e={e} x={}", rle(&x));
    let xf: Vec<f32> = x.iter().map(|&v| v as f32 * pow2(e)).collect();
    let res = hcommon::catch(|| run_dql(&xf));
    let mut fail = None;
    let ans = match res {
        Ok(Ok((y, s, z))) => {
            fail = dql_property(&xf, &y, s, z);
            let se = if s == 0.0 {
                "zero".to_string()
            } else if s > 0.0 && s.log2().fract() == 0.0 {
                format!("{}", s.log2() as i32)
            } else {
                format!("inexact:{s}")
            };
            format!("scale_e={se} zp={z} y={}", rle(&y))
        }
        Ok(Err(e)) => {
            fail = Some(format!("DynamicQuantizeLinear failed: {e}"));
            "err".into()
        }
        Err(m) => {
            fail = Some(format!("DynamicQuantizeLinear panicked: {m}"));
            "panic".into()
        }
    };
    out.bucket(&format!("op_dql_kind{kind}"));
    out.case(&req, &ans, fail.as_deref(), true);
}

fn dql_random_case(out: &mut Out, rng: &mut Rng) {
    let len = 1 + rng.usize_below(200);
    let amp = *rng.pick(&[1.0f32, 1e-3, 1e3, 37.5]);
    let shift = *rng.pick(&[0.0f32, 0.5, -0.5, 2.0, -2.0]);
    let xf: Vec<f32> = (0..len).map(|_| (rng.f32_unit() - 0.5 + shift) * amp).collect();
    let req = format!("# dqlr n={len} amp={amp} shift={shift}");
    let res = hcommon::catch(|| run_dql(&xf));
    let (ans, fail) = match res {
        Ok(Ok((y, s, z))) => {
            let f = dql_property(&xf, &y, s, z);
            (if f.is_some() { "fail" } else { "ok" }.to_string(), f)
        }
        _ => ("error".to_string(), Some("DynamicQuantizeLinear failed or panicked on random data".to_string())),
    };
    out.bucket("op_dql_random");
    out.case(&req, &ans, fail.as_deref(), true);
}

fn operator_cases(out: &mut Out, rng: &mut Rng, thorough: bool) {
    let scale = if thorough { 10 } else { 1 };
    for _ in 0..400 * scale {
        mmi_case(out, rng);
    }
    for _ in 0..500 * scale {
        cvi_case(out, rng);
    }
    for _ in 0..150 * scale {
        ql_case(out, rng);
    }
    for _ in 0..100 * scale {
        dq_case(out, rng);
    }
    for _ in 0..200 * scale {
        dql_exact_case(out, rng);
    }
    for _ in 0..200 * scale {
        dql_random_case(out, rng);
    }
}

fn main() {
    let args = hcommon::parse_args();
    hcommon::quiet_panics();
    run(&args)
}

fn run(args: &Args) {
    let mut out = Out::new(&args.out);
    let mut rng = Rng::new(args.seed);
    let mut kernels = rten_gemm::verif::int8_gemm_executors();
    // AVX-512 kernel forced onto its non-VNNI (vpmaddubsw, may_saturate) code path
    #[cfg(target_arch = "x86_64")]
    if let Some(k) = rten_gemm::verif::int8_gemm_executor_avx512_without_vnni() {
        kernels.push(k);
    }
    out.note(&format!(
        "int8 kernels on this host: {}",
        hcommon::join(kernels.iter().map(|(n, g)| format!("{n}(may_saturate={})", g.may_saturate())), ", ")
    ));
    for c in structured_cases(&mut rng, args.thorough) {
        one(&mut out, &kernels, &c);
    }
    for c in pair_cases(args.thorough) {
        one(&mut out, &kernels, &c);
    }
    for c in gemv_cases(&mut rng, args.thorough) {
        one(&mut out, &kernels, &c);
    }
    gerr_cases(&mut out, &kernels);
    operator_cases(&mut out, &mut rng, args.thorough);
    let n = if args.thorough { 20_000 } else { 2_500 };
    for _ in 0..n {
        let c = random_case(&mut rng);
        one(&mut out, &kernels, &c);
    }
    out.finish("exact i32 equality with Σ_k (a_ik − za_i)(b_kj − zb_j) [+ c0] (i64 oracle) whenever may_saturate()=false or inputs are in the documented reduced range; every line also compared with the Lean integer model (which models vpmaddubsw pair saturation for may_saturate kernels)");
}
