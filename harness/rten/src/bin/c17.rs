//! C17: exact differential of every int8 GEMM kernel available on this host
//! (`rten_gemm::verif::int8_gemm_executors`: generic, AVX2, AVX-512 [VNNI if the CPU has it], plus
//! the AVX-512 kernel forced onto its non-VNNI path) against
//! the Lean integer reference (`model_C17`).
//!
//! Request line (space separated `key=value`, lists are `,`-separated with
//! run-length tokens `v*count`, `_` = empty list, `-` = absent):
//!
//! `g kern=<name> sat=<0|1> path=<gemm|gemv> pre=<0..3> lay=<xy> cb= m= n= k= za= zb= c0= a= b=`
//!
//! * `sat`  – the kernel's `may_saturate()` answer;
//! * `path` – `gemv` iff the vector-matrix fast path is taken (m = 1, nothing prepacked);
//! * `pre`  – bit 0: A prepacked, bit 1: B prepacked (`GemmExecutor::prepack_*`);
//! * `cb`   – column block size of the gemv path (`max(ceil(N/threads),128)`), used by the model to
//!   decide which columns are handled by SIMD steps;
//! * `lay`  – storage layout of A and B (r = row major, t = transposed, s = strided); ignored by the model;
//! * `za`/`zb` – per-row / per-column zero points or `-`;
//! * `c0`   – initial output (beta = 1) or `-` (beta = 0);
//! * `a`,`b` – logical row-major M×K u8 and K×N i8 matrices.
//!
//! Answer: the M×N i32 output, row-major, `,`-separated (`_` if empty), or
//! `err:<GemmError>` / `panic`.
//!
//! Independent oracle (PROPFAIL): naive i64 triple loop
//! `Σ_k (a_ik − za_i)(b_kj − zb_j) (+ c0_ij)`, demanded whenever the kernel
//! reports `may_saturate() == false` or the inputs lie in the documented
//! reduced range (all a ∈ [0,127] or all b ∈ [−64,63], `ReducedRangeRng`).
use hcommon::{Args, Out, Rng};
use rten_gemm::{GemmExecutor, GemmInputA, GemmInputB, GemmOptions, QuantParams};
use rten_tensor::prelude::*;
use rten_tensor::NdTensorView;

#[derive(Clone)]
struct Case {
    m: usize,
    n: usize,
    k: usize,
    a: Vec<u8>,
    b: Vec<i8>,
    za: Option<Vec<u8>>,
    zb: Option<Vec<i8>>,
    c0: Option<Vec<i32>>,
    lay_a: u8, // b'r' | b't' | b's'
    lay_b: u8,
    pre: u8,
    tag: &'static str,
}

fn rle<T: PartialEq + std::fmt::Display + Copy>(xs: &[T]) -> String {
    if xs.is_empty() {
        return "_".into();
    }
    let mut out = String::new();
    let mut i = 0;
    while i < xs.len() {
        let mut j = i + 1;
        while j < xs.len() && xs[j] == xs[i] {
            j += 1;
        }
        if !out.is_empty() {
            out.push(',');
        }
        if j - i >= 3 {
            out += &format!("{}*{}", xs[i], j - i);
        } else {
            out += &hcommon::join(xs[i..j].iter(), ",");
        }
        i = j;
    }
    out
}

fn opt_rle<T: PartialEq + std::fmt::Display + Copy>(xs: &Option<Vec<T>>) -> String {
    match xs {
        Some(v) => rle(v),
        None => "-".into(),
    }
}

/// Store a logical row-major `rows × cols` matrix in the requested layout and
/// hand back (storage, row_stride, col_stride).
fn lay_out<T: Copy + Default>(data: &[T], rows: usize, cols: usize, lay: u8, junk: T) -> (Vec<T>, usize, usize) {
    match lay {
        b't' => {
            let mut s = vec![T::default(); rows * cols];
            for r in 0..rows {
                for c in 0..cols {
                    s[c * rows + r] = data[r * cols + c];
                }
            }
            (s, 1, rows.max(1))
        }
        b's' => {
            // row stride 2*cols+3, col stride 2; gaps filled with junk
            let rs = 2 * cols + 3;
            let mut s = vec![junk; rows * rs + 1];
            for r in 0..rows {
                for c in 0..cols {
                    s[r * rs + 2 * c] = data[r * cols + c];
                }
            }
            (s, rs, 2)
        }
        b'p' => {
            // row major with padded rows (unit column stride)
            let rs = cols + 5;
            let mut s = vec![junk; rows * rs + 1];
            for r in 0..rows {
                for c in 0..cols {
                    s[r * rs + c] = data[r * cols + c];
                }
            }
            (s, rs, 1)
        }
        _ => (data.to_vec(), cols.max(1), 1),
    }
}

fn view<'a, T>(store: &'a [T], rows: usize, cols: usize, rs: usize, cs: usize) -> NdTensorView<'a, T, 2> {
    if rows == 0 || cols == 0 {
        return NdTensorView::from_data([rows, cols], &store[..0]);
    }
    let need = (rows - 1) * rs + (cols - 1) * cs + 1;
    NdTensorView::from_data_with_strides([rows, cols], &store[..need], [rs, cs]).unwrap()
}

fn oracle(c: &Case) -> Vec<i64> {
    let mut out = vec![0i64; c.m * c.n];
    for i in 0..c.m {
        let za = c.za.as_ref().map(|z| z[i] as i64).unwrap_or(0);
        for j in 0..c.n {
            let zb = c.zb.as_ref().map(|z| z[j] as i64).unwrap_or(0);
            let mut acc = 0i64;
            for k in 0..c.k {
                acc += (c.a[i * c.k + k] as i64 - za) * (c.b[k * c.n + j] as i64 - zb);
            }
            if let Some(c0) = &c.c0 {
                acc += c0[i * c.n + j] as i64;
            }
            out[i * c.n + j] = acc;
        }
    }
    out
}

fn in_reduced_range(c: &Case) -> bool {
    c.a.iter().all(|&x| x <= 127) || c.b.iter().all(|&x| (-64..=63).contains(&x))
}

fn run_impl(g: &GemmExecutor<u8, i8, i32>, c: &Case) -> Result<Vec<i32>, String> {
    let (sa, ars, acs) = lay_out(&c.a, c.m, c.k, c.lay_a, 0xA5u8);
    let (sb, brs, bcs) = lay_out(&c.b, c.k, c.n, c.lay_b, -77i8);
    let av = view(&sa, c.m, c.k, ars, acs);
    let bv = view(&sb, c.k, c.n, brs, bcs);
    let pa = if c.pre & 1 != 0 { Some(g.prepack_a(av)) } else { None };
    let pb = if c.pre & 2 != 0 { Some(g.prepack_b(bv)) } else { None };
    let ia = match &pa {
        Some(p) => GemmInputA::Packed(p),
        None => GemmInputA::Unpacked(av),
    };
    let ib = match &pb {
        Some(p) => GemmInputB::Packed(p),
        None => GemmInputB::Unpacked(bv),
    };
    let mut out: Vec<i32> = match &c.c0 {
        Some(v) => v.clone(),
        None => vec![0x5A5A5A5Au32 as i32; c.m * c.n],
    };
    let opts = GemmOptions {
        alpha: 1.0,
        beta: if c.c0.is_some() { 1 } else { 0 },
        bias: None,
        a_quant: c.za.as_ref().map(|z| QuantParams { zero_point: z.as_slice() }),
        b_quant: c.zb.as_ref().map(|z| QuantParams { zero_point: z.as_slice() }),
    };
    match g.gemm(&mut out, ia, ib, opts) {
        Ok(()) => Ok(out),
        Err(e) => Err(format!("{e:?}")),
    }
}

/// Column block size of `rten_gemm::gemv`: `max(ceil(N / rayon threads), 128)`.
fn gemv_col_block(n: usize) -> usize {
    let threads = std::env::var("RAYON_NUM_THREADS")
        .ok()
        .and_then(|v| v.parse::<usize>().ok())
        .filter(|&t| t > 0)
        .unwrap_or_else(|| std::thread::available_parallelism().map(|p| p.get()).unwrap_or(1));
    n.div_ceil(threads).max(128)
}

fn kern_class(name: &str) -> &'static str {
    if name.contains("avx512") {
        "avx512"
    } else if name.contains("avx2") {
        "avx2"
    } else if name.contains("generic") {
        "generic"
    } else {
        "other"
    }
}

fn one(out: &mut Out, kernels: &[(String, GemmExecutor<u8, i8, i32>)], c: &Case) {
    let want = oracle(c);
    let reduced = in_reduced_range(c);
    for (name, g) in kernels {
        let sat = g.may_saturate();
        let path = if c.m == 1 && c.pre == 0 { "gemv" } else { "gemm" };
        let req = format!(
            "g kern={} sat={} path={} pre={} lay={}{} cb={} m={} n={} k={} za={} zb={} c0={} a={} b={}",
            kern_class(name),
            sat as u8,
            path,
            c.pre,
            c.lay_a as char,
            c.lay_b as char,
            gemv_col_block(c.n),
            c.m,
            c.n,
            c.k,
            opt_rle(&c.za),
            opt_rle(&c.zb),
            opt_rle(&c.c0),
            rle(&c.a),
            rle(&c.b)
        );
        let res = hcommon::catch(|| run_impl(g, c));
        let mut fail: Option<String> = None;
        let ans = match res {
            Ok(Ok(v)) => {
                if !sat || reduced {
                    if let Some(pos) = (0..v.len()).find(|&i| v[i] as i64 != want[i]) {
                        fail = Some(format!(
                            "kernel {} out[{},{}]={} but exact value is {} (may_saturate={}, reduced_range={})",
                            name,
                            pos / c.n,
                            pos % c.n,
                            v[pos],
                            want[pos],
                            sat,
                            reduced
                        ));
                    }
                }
                rle(&v)
            }
            Ok(Err(e)) => {
                fail = Some(format!("kernel {name} returned error {e} for a well-formed request"));
                format!("err:{e}")
            }
            Err(msg) => {
                fail = Some(format!("kernel {name} panicked on a well-formed request: {msg}"));
                "panic".to_string()
            }
        };
        out.bucket(&format!("kern_{}", kern_class(name)));
        out.bucket(&format!("path_{path}"));
        out.bucket(&format!("gen_{}", c.tag));
        out.bucket(if reduced { "range_reduced" } else { "range_full" });
        out.bucket(&format!("pre_{}", c.pre));
        out.bucket(&format!("zp_{}{}", c.za.is_some() as u8, c.zb.is_some() as u8));
        if c.k % 4 != 0 {
            out.bucket("k_not_multiple_of_4");
        }
        let nontrivial = c.m > 0 && c.n > 0 && c.k > 0;
        out.case(&req, &ans, fail.as_deref(), nontrivial);
    }
}

const A_EXT: [u8; 8] = [0, 255, 1, 254, 127, 128, 2, 200];
const B_EXT: [i8; 10] = [-128, 127, -1, 0, 1, -64, 63, 64, -65, -127];

fn gen_vals(rng: &mut Rng, class: u64, m: usize, n: usize, k: usize) -> (Vec<u8>, Vec<i8>) {
    let mut a = vec![0u8; m * k];
    let mut b = vec![0i8; k * n];
    match class {
        0 => {
            // b in reduced range, a full (extremes favoured)
            for x in a.iter_mut() {
                *x = if rng.chance(1, 2) { *rng.pick(&A_EXT) } else { rng.below(256) as u8 };
            }
            for x in b.iter_mut() {
                *x = if rng.chance(1, 3) { *rng.pick(&[-64i8, 63, 0, -1]) } else { rng.range_i64(-64, 63) as i8 };
            }
        }
        1 => {
            // a in reduced range, b full
            for x in a.iter_mut() {
                *x = if rng.chance(1, 3) { *rng.pick(&[0u8, 127, 1, 126]) } else { rng.below(128) as u8 };
            }
            for x in b.iter_mut() {
                *x = if rng.chance(1, 2) { *rng.pick(&B_EXT) } else { rng.range_i64(-128, 127) as i8 };
            }
        }
        2 => {
            // full range random
            for x in a.iter_mut() {
                *x = rng.below(256) as u8;
            }
            for x in b.iter_mut() {
                *x = rng.range_i64(-128, 127) as i8;
            }
        }
        3 => {
            // extremes only
            for x in a.iter_mut() {
                *x = *rng.pick(&A_EXT);
            }
            for x in b.iter_mut() {
                *x = *rng.pick(&B_EXT);
            }
        }
        _ => {
            // constant extreme combination (all pairs saturate on vpmaddubsw when 255 x -128 / 127)
            let av = *rng.pick(&[255u8, 0, 128, 254]);
            let bv = *rng.pick(&[-128i8, 127, 64, -65]);
            a.iter_mut().for_each(|x| *x = av);
            b.iter_mut().for_each(|x| *x = bv);
        }
    }
    (a, b)
}

fn gen_zp_a(rng: &mut Rng, m: usize) -> Option<Vec<u8>> {
    match rng.below(5) {
        0 => None,
        1 => {
            let z = *rng.pick(&[0u8, 255, 128, 1, 127]);
            Some(vec![z; m])
        }
        2 => Some((0..m).map(|i| (i * 37 + 11) as u8).collect()),
        3 => Some((0..m).map(|_| *rng.pick(&[0u8, 255, 1, 128])).collect()),
        _ => Some((0..m).map(|_| rng.below(256) as u8).collect()),
    }
}

fn gen_zp_b(rng: &mut Rng, n: usize) -> Option<Vec<i8>> {
    match rng.below(5) {
        0 => None,
        1 => {
            let z = *rng.pick(&[0i8, -128, 127, 1, -1]);
            Some(vec![z; n])
        }
        2 => Some((0..n).map(|i| ((i * 29 + 5) as u8) as i8).collect()),
        3 => Some((0..n).map(|_| *rng.pick(&[-128i8, 127, 0, -1])).collect()),
        _ => Some((0..n).map(|_| rng.range_i64(-128, 127) as i8).collect()),
    }
}

fn gen_dim(rng: &mut Rng, big: bool) -> usize {
    if big {
        rng.usize_below(71)
    } else {
        match rng.below(10) {
            0 => 0,
            1 => 1,
            _ => 1 + rng.usize_below(20),
        }
    }
}

fn random_case(rng: &mut Rng) -> Case {
    let big = rng.chance(1, 6);
    let mut m = gen_dim(rng, big);
    let n = gen_dim(rng, big);
    let k = gen_dim(rng, big);
    if rng.chance(1, 5) {
        m = 1; // vector-matrix path
    }
    let class = rng.below(5);
    let (a, b) = gen_vals(rng, class, m, n, k);
    let za = gen_zp_a(rng, m);
    let zb = gen_zp_b(rng, n);
    let c0 = if rng.chance(1, 6) {
        Some((0..m * n).map(|_| rng.range_i64(-100000, 100000) as i32).collect())
    } else {
        None
    };
    let lay_a = *rng.pick(&[b'r', b'r', b't', b's', b'p']);
    let lay_b = *rng.pick(&[b'r', b'r', b't', b's', b'p']);
    let pre = if rng.chance(1, 5) { 1 + rng.below(3) as u8 } else { 0 };
    Case {
        m,
        n,
        k,
        a,
        b,
        za,
        zb,
        c0,
        lay_a,
        lay_b,
        pre,
        tag: ["reduced_b", "reduced_a", "full", "extremes", "const_extreme"][class as usize],
    }
}

/// Shapes aimed at the blocking structure: several row/column panels and
/// blocks, several depth blocks, K at the i32 bound.
fn structured_cases(rng: &mut Rng, thorough: bool) -> Vec<Case> {
    let mut v = vec![];
    let mut push = |rng: &mut Rng, m: usize, n: usize, k: usize, class: u64, tag: &'static str, zp: bool, pre: u8| {
        let (a, b) = gen_vals(rng, class, m, n, k);
        let za = if zp { Some((0..m).map(|i| (i * 37 + 11) as u8).collect()) } else { None };
        let zb = if zp { Some((0..n).map(|i| ((i * 29 + 5) as u8) as i8).collect()) } else { None };
        v.push(Case { m, n, k, a, b, za, zb, c0: None, lay_a: b'r', lay_b: b'r', pre, tag });
    };
    // several row panels / row blocks (mc = 64) and column panels / blocks (nc >= 128)
    for &(m, n, k) in &[(12, 3, 5), (13, 32, 4), (16, 33, 7), (24, 64, 9), (65, 5, 6), (70, 70, 3), (130, 2, 5), (3, 140, 6), (2, 300, 4), (1, 300, 9), (1, 64, 8), (1, 65, 13), (1, 130, 70)] {
        for class in [0u64, 2] {
            for zp in [false, true] {
                push(rng, m, n, k, class, "panels", zp, 0);
            }
        }
        push(rng, m, n, k, 0, "panels", true, 3);
    }
    // several depth blocks (kc = 1024)
    for &(m, n, k) in &[(2, 3, 1024), (3, 2, 1025), (1, 3, 1027), (7, 17, 2050), (1, 33, 2049)] {
        push(rng, m, n, k, 0, "depth_blocks", true, 0);
        push(rng, m, n, k, 3, "depth_blocks", true, 0);
        if thorough {
            push(rng, m, n, k, 2, "depth_blocks", true, 2);
        }
    }
    // K at the i32 bounds: 33025 with extreme zero points, 65793 without zero points
    for &m in &[1usize, 2] {
        let k = 33025;
        v.push(Case {
            m,
            n: 1,
            k,
            a: vec![255; m * k],
            b: vec![-128; k],
            za: Some(vec![0; m]),
            zb: Some(vec![127]),
            c0: None,
            lay_a: b'r',
            lay_b: b'r',
            pre: 0,
            tag: "k_bound",
        });
        v.push(Case {
            m,
            n: 2,
            k,
            a: vec![0; m * k],
            b: vec![63; k * 2],
            za: Some(vec![255; m]),
            zb: Some(vec![-128, -128]),
            c0: None,
            lay_a: b'r',
            lay_b: b't',
            pre: 0,
            tag: "k_bound",
        });
        let k = 65793;
        v.push(Case {
            m,
            n: 1,
            k,
            a: vec![255; m * k],
            b: vec![-128; k],
            za: None,
            zb: None,
            c0: None,
            lay_a: b'r',
            lay_b: b'r',
            pre: 0,
            tag: "k_bound",
        });
        v.push(Case {
            m,
            n: 1,
            k,
            a: vec![255; m * k],
            b: vec![-64; k],
            za: None,
            zb: None,
            c0: None,
            lay_a: b'r',
            lay_b: b't',
            pre: 0,
            tag: "k_bound",
        });
    }
    v
}

/// Vector-matrix (gemv) shapes aimed at the SIMD/scalar split of `simd_int8_gemv`: column counts
/// around one and two SIMD vectors (32 / 64 bytes) and the 128-column block, K around the 4-tile,
/// the 8 / 512 chunk and one SIMD vector, every B layout, values outside the reduced range.
fn gemv_cases(rng: &mut Rng, thorough: bool) -> Vec<Case> {
    let mut v = vec![];
    let mut push = |rng: &mut Rng, n: usize, k: usize, class: u64, lay_b: u8, zp: bool| {
        let (a, b) = gen_vals(rng, class, 1, n, k);
        let za = if zp { Some(vec![*rng.pick(&[0u8, 255, 128, 7])]) } else { None };
        let zb = if zp { Some((0..n).map(|i| ((i * 29 + 5) as u8) as i8).collect()) } else { None };
        let c0 = if rng.chance(1, 8) { Some((0..n).map(|_| rng.range_i64(-1000, 1000) as i32).collect()) } else { None };
        v.push(Case { m: 1, n, k, a, b, za, zb, c0, lay_a: b'r', lay_b, pre: 0, tag: "gemv" });
    };
    let ks: &[usize] = if thorough { &[1, 2, 3, 4, 5, 7, 8, 9, 12, 13, 16, 17, 33, 70] } else { &[1, 3, 4, 5, 8, 9, 13, 33, 70] };
    for &lay_b in &[b'r', b't', b's', b'p'] {
        for &n in &[31usize, 32, 33, 64, 65, 97, 130, 200] {
            for (i, &k) in ks.iter().enumerate() {
                push(rng, n, k, if i % 2 == 0 { 3 } else { 4 }, lay_b, i % 3 != 0);
                if thorough {
                    push(rng, n, k, 2, lay_b, true);
                }
            }
        }
        for &n in &[1usize, 2, 33, 65] {
            for &k in &[63usize, 64, 65, 129, 511, 512, 513, 600] {
                push(rng, n, k, 3, lay_b, true);
                push(rng, n, k, 4, lay_b, false);
            }
        }
    }
    v
}

/// Exhaustive pair sweep for the saturating pairwise sum: K = 2, one output,
/// every u8 `a` against selected `b`, and every i8 `b` against selected `a`.
fn pair_cases(thorough: bool) -> Vec<Case> {
    let mut v = vec![];
    let bs: Vec<i8> = if thorough { (-128..=127).map(|x| x as i8).collect() } else { B_EXT.to_vec() };
    // pack many pairs into one GEMM: M rows of A = (a, a'), N columns of B = (b, b')
    let a_pairs: Vec<(u8, u8)> = (0..=255u16).map(|x| (x as u8, (255 - x) as u8)).chain((0..=255u16).map(|x| (x as u8, x as u8))).collect();
    for chunk in a_pairs.chunks(64) {
        let m = chunk.len();
        let n = bs.len();
        let mut a = vec![];
        for &(x, y) in chunk {
            a.push(x);
            a.push(y);
        }
        let mut b = vec![0i8; 2 * n];
        for (j, &bv) in bs.iter().enumerate() {
            b[j] = bv;
            b[n + j] = bv;
        }
        v.push(Case { m, n, k: 2, a, b, za: None, zb: None, c0: None, lay_a: b'r', lay_b: b'r', pre: 0, tag: "pairs" });
    }
    v
}

fn main() {
    let args = hcommon::parse_args();
    hcommon::quiet_panics();
    run(&args)
}

fn run(args: &Args) {
    let mut out = Out::new(&args.out);
    let mut rng = Rng::new(args.seed);
    let mut kernels = rten_gemm::verif::int8_gemm_executors();
    // AVX-512 kernel forced onto its non-VNNI (vpmaddubsw, may_saturate) code path
    #[cfg(target_arch = "x86_64")]
    if let Some(k) = rten_gemm::verif::int8_gemm_executor_avx512_without_vnni() {
        kernels.push(k);
    }
    out.note(&format!(
        "int8 kernels on this host: {}",
        hcommon::join(kernels.iter().map(|(n, g)| format!("{n}(may_saturate={})", g.may_saturate())), ", ")
    ));
    for c in structured_cases(&mut rng, args.thorough) {
        one(&mut out, &kernels, &c);
    }
    for c in pair_cases(args.thorough) {
        one(&mut out, &kernels, &c);
    }
    for c in gemv_cases(&mut rng, args.thorough) {
        one(&mut out, &kernels, &c);
    }
    let n = if args.thorough { 20_000 } else { 2_500 };
    for _ in 0..n {
        let c = random_case(&mut rng);
        one(&mut out, &kernels, &c);
    }
    out.finish("exact i32 equality with Σ_k (a_ik − za_i)(b_kj − zb_j) [+ c0] (i64 oracle) whenever may_saturate()=false or inputs are in the documented reduced range; every line also compared with the Lean integer model (which models vpmaddubsw pair saturation for may_saturate kernels)");
}
