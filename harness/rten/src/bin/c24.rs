//! C24: control-flow subgraphs (`If`, `Loop`) behave like the inlined / unrolled graph.
//!
//! Every case is a random *nested* program over int32 tensors (globally unique value names,
//! ONNX scoping): primitive ops `Add Sub Mul Neg Abs Identity Less`, `If(then, else)` and
//! `Loop(body)` nested up to depth 3, with captures of parent values (by value when the
//! control-flow op is the last user of an owned value, by reference otherwise), in-place capable
//! ops applied to captured values inside bodies, captured values re-used after the op / requested
//! as graph outputs / re-used by later iterations, zero-iteration loops, scan outputs, `cond`
//! false at start.
//!
//! For each program the harness
//!  * encodes it as an ONNX model (subgraphs as `Attr::Graph`) and runs it through the public
//!    `Model::run` in four configurations: optimisation off/on x borrowed/owned graph inputs;
//!  * interprets it with a tiny reference interpreter that, while it runs, emits the *inlined /
//!    unrolled* straight-line ONNX model (selected branch inlined, loop unrolled for the concrete
//!    trip count); that flat model is run through rten as well (independent oracle);
//!  * PROPFAIL when the configurations disagree, when nested != flat, when a graph output that
//!    is a graph input changed, or on a panic;
//!  * writes the program as a request line; the Lean driver evaluates it with the *naive*
//!    denotational semantics (`Model/ControlFlow.lean`, `evalG`) and must print the same answer.
//!
//! Request grammar (space separated):
//!   `run <tag> <graph> ARGS <tensor>*`
//!   graph  := `G <nin> <name>* <nconst> (<name> <tensor>)* <nops> <op>* <nout> <name>*`
//!   tensor := `<rank> <dim>* <val>*`
//!   op     := `P <kind> <nin> <name>* <out>` | `I <cond> <graph> <graph> <nout> <name>*`
//!           | `L <trip|-> <cond|-> <ncar> <name>* <graph> <nout> <name>*`
//! Names are natural numbers (ONNX name `v<k>`). Answer: `ok <t>;<t>…` with `t = d0xd1:v,v,…`,
//! `err:<class>` or `panic`.
#[path = "../onnx_enc.rs"]
mod onnx_enc;
use hcommon::{Out, Rng};
use onnx_enc::{dt, Attr, Graph as OGraph, Node as ONode, Tensor as OTensor, ValueInfo};
use rten::{Model, ModelOptions, Value};
use rten_tensor::prelude::*;
use rten_tensor::Tensor as RTensor;
use std::collections::{HashMap, HashSet};

// ---------------------------------------------------------------- program AST

#[derive(Clone, Debug, PartialEq)]
struct T {
    shape: Vec<usize>,
    data: Vec<i32>,
}

impl T {
    fn scalar(v: i32) -> T {
        T { shape: vec![], data: vec![v] }
    }
    fn show(&self) -> String {
        format!("{}:{}", hcommon::join(self.shape.iter(), "x"), hcommon::join(self.data.iter(), ","))
    }
    fn tokens(&self) -> String {
        let mut v: Vec<String> = vec![self.shape.len().to_string()];
        v.extend(self.shape.iter().map(|d| d.to_string()));
        v.extend(self.data.iter().map(|d| d.to_string()));
        v.join(" ")
    }
}

#[derive(Clone, Copy, Debug, PartialEq)]
enum K {
    Add,
    Sub,
    Mul,
    Neg,
    Abs,
    Id,
    Less,
    /// `Cast(int32->f32) -> MatMul(x, W) -> Cast(f32->int32)` with `W` a constant f32 weight of the
    /// same graph (prepackable input).
    Mm,
}

impl K {
    fn onnx(self) -> &'static str {
        match self {
            K::Add => "Add",
            K::Sub => "Sub",
            K::Mul => "Mul",
            K::Neg => "Neg",
            K::Abs => "Abs",
            K::Id => "Identity",
            K::Less => "Less",
            K::Mm => "MatMul",
        }
    }
    fn tok(self) -> &'static str {
        match self {
            K::Add => "add",
            K::Sub => "sub",
            K::Mul => "mul",
            K::Neg => "neg",
            K::Abs => "abs",
            K::Id => "id",
            K::Less => "less",
            K::Mm => "mm",
        }
    }
}

type Name = usize;

#[derive(Clone, Debug)]
enum Op {
    P { k: K, ins: Vec<Name>, out: Name },
    If { cond: Name, t: G, e: G, outs: Vec<Name> },
    Lp { trip: Option<Name>, cond: Option<Name>, car: Vec<Name>, body: G, outs: Vec<Name> },
}

#[derive(Clone, Debug, Default)]
struct G {
    inputs: Vec<Name>,
    consts: Vec<(Name, T)>,
    ops: Vec<Op>,
    outputs: Vec<Name>,
}

fn vn(n: Name) -> String {
    format!("v{n}")
}

impl G {
    fn tokens(&self, o: &mut Vec<String>) {
        o.push("G".into());
        o.push(self.inputs.len().to_string());
        o.extend(self.inputs.iter().map(|n| n.to_string()));
        o.push(self.consts.len().to_string());
        for (n, t) in &self.consts {
            o.push(n.to_string());
            o.push(t.tokens());
        }
        o.push(self.ops.len().to_string());
        for op in &self.ops {
            match op {
                Op::P { k, ins, out } => {
                    o.push("P".into());
                    o.push(k.tok().into());
                    o.push(ins.len().to_string());
                    o.extend(ins.iter().map(|n| n.to_string()));
                    o.push(out.to_string());
                }
                Op::If { cond, t, e, outs } => {
                    o.push("I".into());
                    o.push(cond.to_string());
                    t.tokens(o);
                    e.tokens(o);
                    o.push(outs.len().to_string());
                    o.extend(outs.iter().map(|n| n.to_string()));
                }
                Op::Lp { trip, cond, car, body, outs } => {
                    o.push("L".into());
                    o.push(trip.map(|n| n.to_string()).unwrap_or("-".into()));
                    o.push(cond.map(|n| n.to_string()).unwrap_or("-".into()));
                    o.push(car.len().to_string());
                    o.extend(car.iter().map(|n| n.to_string()));
                    body.tokens(o);
                    o.push(outs.len().to_string());
                    o.extend(outs.iter().map(|n| n.to_string()));
                }
            }
        }
        o.push(self.outputs.len().to_string());
        o.extend(self.outputs.iter().map(|n| n.to_string()));
    }

    /// ONNX encoding; `top` graphs declare typed inputs.
    fn onnx(&self, ctr: &mut usize) -> OGraph {
        let mut nodes = Vec::new();
        for op in &self.ops {
            *ctr += 1;
            // node name = `n_v<first output>`: lets error messages be matched to the operator
            let first_out = match op {
                Op::P { out, .. } => Some(*out),
                Op::If { outs, .. } | Op::Lp { outs, .. } => outs.first().copied(),
            };
            let nm = match first_out {
                Some(o) => format!("n_v{o}"),
                None => format!("n{}", *ctr),
            };
            match op {
                Op::P { k: K::Mm, ins, out } => {
                    let a = format!("v{out}a");
                    let b = format!("v{out}b");
                    nodes.push(ONode::new("Cast", &format!("{nm}a"), &[&vn(ins[0])], &[&a]).attr("to", Attr::Int(dt::FLOAT as i64)));
                    nodes.push(ONode::new("MatMul", &format!("{nm}b"), &[&a, &vn(ins[1])], &[&b]));
                    nodes.push(ONode::new("Cast", &format!("{nm}c"), &[&b], &[&vn(*out)]).attr("to", Attr::Int(dt::INT32 as i64)));
                }
                Op::P { k, ins, out } => {
                    let ins: Vec<String> = ins.iter().map(|&n| vn(n)).collect();
                    let insr: Vec<&str> = ins.iter().map(|s| s.as_str()).collect();
                    nodes.push(ONode::new(k.onnx(), &nm, &insr, &[&vn(*out)]));
                }
                Op::If { cond, t, e, outs } => {
                    let outs: Vec<String> = outs.iter().map(|&n| vn(n)).collect();
                    let outr: Vec<&str> = outs.iter().map(|s| s.as_str()).collect();
                    let tg = t.onnx(ctr);
                    let eg = e.onnx(ctr);
                    nodes.push(
                        ONode::new("If", &nm, &[&vn(*cond)], &outr)
                            .attr("then_branch", Attr::Graph(tg))
                            .attr("else_branch", Attr::Graph(eg)),
                    );
                }
                Op::Lp { trip, cond, car, body, outs } => {
                    let mut ins: Vec<String> = vec![
                        trip.map(vn).unwrap_or_default(),
                        cond.map(vn).unwrap_or_default(),
                    ];
                    ins.extend(car.iter().map(|&n| vn(n)));
                    let insr: Vec<&str> = ins.iter().map(|s| s.as_str()).collect();
                    let outs: Vec<String> = outs.iter().map(|&n| vn(n)).collect();
                    let outr: Vec<&str> = outs.iter().map(|s| s.as_str()).collect();
                    let bg = body.onnx(ctr);
                    nodes.push(ONode::new("Loop", &nm, &insr, &outr).attr("body", Attr::Graph(bg)));
                }
            }
        }
        *ctr += 1;
        // constants used as MatMul weights are encoded as f32 initializers
        let weights: HashSet<Name> = self
            .ops
            .iter()
            .filter_map(|op| match op {
                Op::P { k: K::Mm, ins, .. } => Some(ins[1]),
                _ => None,
            })
            .collect();
        OGraph {
            name: format!("g{}", *ctr),
            nodes,
            initializers: self
                .consts
                .iter()
                .map(|(n, t)| {
                    let dims: Vec<i64> = t.shape.iter().map(|&d| d as i64).collect();
                    if weights.contains(n) {
                        let f: Vec<f32> = t.data.iter().map(|&x| x as f32).collect();
                        OTensor::f32s(&vn(*n), &dims, &f)
                    } else if t.shape.is_empty() && t.data[0] == i32::MAX {
                        // a trip count beyond the i32 range: encoded as INT64 2^40, which the
                        // loader narrows (saturating) to i32::MAX — the value the request carries
                        OTensor::i64s(&vn(*n), &dims, &[1i64 << 40])
                    } else {
                        OTensor::i32s(&vn(*n), &dims, &t.data)
                    }
                })
                .collect(),
            inputs: self.inputs.iter().map(|&n| ValueInfo::new(&vn(n), dt::INT32, None)).collect(),
            outputs: self.outputs.iter().map(|&n| ValueInfo::new(&vn(n), dt::INT32, None)).collect(),
            value_infos: vec![],
        }
    }
}

// ---------------------------------------------------------------- reference interpreter + inliner

/// Straight-line model built while interpreting.
#[derive(Default)]
struct Flat {
    nodes: Vec<ONode>,
    inits: Vec<OTensor>,
    ctr: usize,
    have_axes: bool,
}

impl Flat {
    fn fresh(&mut self) -> String {
        self.ctr += 1;
        format!("f{}", self.ctr)
    }
    fn init(&mut self, t: &T) -> String {
        let n = self.fresh();
        let dims: Vec<i64> = t.shape.iter().map(|&d| d as i64).collect();
        self.inits.push(OTensor::i32s(&n, &dims, &t.data));
        n
    }
    fn init_f32(&mut self, t: &T) -> String {
        let n = self.fresh();
        let dims: Vec<i64> = t.shape.iter().map(|&d| d as i64).collect();
        let f: Vec<f32> = t.data.iter().map(|&x| x as f32).collect();
        self.inits.push(OTensor::f32s(&n, &dims, &f));
        n
    }
    fn node(&mut self, op: &str, ins: &[&str]) -> String {
        let out = self.fresh();
        let nm = format!("fn{}", self.ctr);
        self.nodes.push(ONode::new(op, &nm, ins, &[&out]));
        out
    }
}

#[derive(Default, Clone, Debug)]
struct Events {
    ifs: u32,
    loops: u32,
    iters: u32,
    zero_iter: u32,
    zero_iter_scan: u32,
    /// every zero-iteration loop with scan outputs the reference run met: `n_v<out> k/n`
    zscan: Vec<String>,
    cond_false_start: u32,
    scan: u32,
    max_depth: u32,
    then_taken: u32,
    else_taken: u32,
}

type Env = HashMap<Name, (T, String)>;

fn wrap_bin(k: K, a: &T, b: &T) -> Result<T, String> {
    let f = |x: i32, y: i32| -> i32 {
        match k {
            K::Add => x.wrapping_add(y),
            K::Sub => x.wrapping_sub(y),
            K::Mul => x.wrapping_mul(y),
            K::Less => (x < y) as i32,
            _ => unreachable!(),
        }
    };
    if a.shape == b.shape {
        Ok(T { shape: a.shape.clone(), data: a.data.iter().zip(&b.data).map(|(&x, &y)| f(x, y)).collect() })
    } else if a.shape.is_empty() {
        Ok(T { shape: b.shape.clone(), data: b.data.iter().map(|&y| f(a.data[0], y)).collect() })
    } else if b.shape.is_empty() {
        Ok(T { shape: a.shape.clone(), data: a.data.iter().map(|&x| f(x, b.data[0])).collect() })
    } else {
        Err("shape".into())
    }
}

fn eval_graph(
    g: &G,
    parent: &Env,
    args: Vec<(T, String)>,
    flat: &mut Flat,
    ev: &mut Events,
    depth: u32,
) -> Result<Vec<(T, String)>, String> {
    ev.max_depth = ev.max_depth.max(depth);
    let mut env: Env = parent.clone();
    if args.len() != g.inputs.len() {
        return Err("arity".into());
    }
    for (n, a) in g.inputs.iter().zip(args) {
        env.insert(*n, a);
    }
    let weights: HashSet<Name> = g
        .ops
        .iter()
        .filter_map(|op| match op {
            Op::P { k: K::Mm, ins, .. } => Some(ins[1]),
            _ => None,
        })
        .collect();
    for (n, t) in &g.consts {
        let f = if weights.contains(n) { flat.init_f32(t) } else { flat.init(t) };
        env.insert(*n, (t.clone(), f));
    }
    let get = |env: &Env, n: Name| -> Result<(T, String), String> { env.get(&n).cloned().ok_or(format!("missing v{n}")) };
    for op in &g.ops {
        match op {
            Op::P { k: K::Mm, ins, out } => {
                let a = get(&env, ins[0])?;
                let w = get(&env, ins[1])?;
                if a.0.shape.len() != 2 || w.0.shape.len() != 2 || a.0.shape[1] != w.0.shape[0] {
                    return Err("mm_shape".into());
                }
                // keep everything exactly representable in f32
                if a.0.data.iter().any(|x| x.unsigned_abs() > (1 << 18)) {
                    return Err("mm_range".into());
                }
                let (r, n, m) = (a.0.shape[0], a.0.shape[1], w.0.shape[1]);
                let mut data = vec![0i32; r * m];
                for i in 0..r {
                    for j in 0..m {
                        let mut acc = 0i64;
                        for l in 0..n {
                            acc += a.0.data[i * n + l] as i64 * w.0.data[l * m + j] as i64;
                        }
                        data[i * m + j] = acc as i32;
                    }
                }
                let fa = flat.node("Cast", &[&a.1]);
                flat.nodes.last_mut().unwrap().attrs.push(("to".into(), Attr::Int(dt::FLOAT as i64)));
                let fb = flat.node("MatMul", &[&fa, &w.1]);
                let fc = flat.node("Cast", &[&fb]);
                flat.nodes.last_mut().unwrap().attrs.push(("to".into(), Attr::Int(dt::INT32 as i64)));
                env.insert(*out, (T { shape: vec![r, m], data }, fc));
            }
            Op::P { k, ins, out } => {
                let vs: Vec<(T, String)> = ins.iter().map(|&n| get(&env, n)).collect::<Result<_, _>>()?;
                let r = match k {
                    K::Neg => T { shape: vs[0].0.shape.clone(), data: vs[0].0.data.iter().map(|x| x.wrapping_neg()).collect() },
                    K::Abs => T { shape: vs[0].0.shape.clone(), data: vs[0].0.data.iter().map(|x| x.wrapping_abs()).collect() },
                    K::Id => vs[0].0.clone(),
                    _ => wrap_bin(*k, &vs[0].0, &vs[1].0)?,
                };
                let fins: Vec<&str> = vs.iter().map(|v| v.1.as_str()).collect();
                let f = flat.node(k.onnx(), &fins);
                env.insert(*out, (r, f));
            }
            Op::If { cond, t, e, outs } => {
                ev.ifs += 1;
                let c = get(&env, *cond)?;
                if c.0.data.len() != 1 {
                    return Err("cond".into());
                }
                let br = if c.0.data[0] != 0 {
                    ev.then_taken += 1;
                    t
                } else {
                    ev.else_taken += 1;
                    e
                };
                let r = eval_graph(br, &env, vec![], flat, ev, depth + 1)?;
                if r.len() < outs.len() {
                    return Err("ifouts".into());
                }
                for (n, v) in outs.iter().zip(r) {
                    env.insert(*n, v);
                }
            }
            Op::Lp { trip, cond, car, body, outs } => {
                ev.loops += 1;
                let m: i64 = match trip {
                    Some(n) => get(&env, *n)?.0.data[0] as i64,
                    None => i32::MAX as i64,
                };
                let mut c: i32 = match cond {
                    Some(n) => get(&env, *n)?.0.data[0],
                    None => 1,
                };
                if c == 0 {
                    ev.cond_false_start += 1;
                }
                let mut carried: Vec<(T, String)> = car.iter().map(|&n| get(&env, n)).collect::<Result<_, _>>()?;
                let k = carried.len();
                let nscan = body.outputs.len().saturating_sub(1 + k);
                if nscan > 0 {
                    ev.scan += 1;
                }
                let mut scans: Vec<Vec<(T, String)>> = vec![vec![]; nscan];
                let mut i: i64 = 0;
                while i < m && c != 0 {
                    if i > 64 {
                        return Err("runaway".into());
                    }
                    ev.iters += 1;
                    let it = T::scalar(i as i32);
                    let ct = T::scalar(c);
                    let fi = flat.init(&it);
                    let fc = flat.init(&ct);
                    let mut a = vec![(it, fi), (ct, fc)];
                    a.extend(carried.drain(..));
                    let mut r = eval_graph(body, &env, a, flat, ev, depth + 1)?;
                    let nc = r.remove(0);
                    if nc.0.data.len() != 1 {
                        return Err("condout".into());
                    }
                    c = nc.0.data[0];
                    carried = r.drain(..k).collect();
                    for (j, s) in r.into_iter().enumerate() {
                        scans[j].push(s);
                    }
                    i += 1;
                }
                if i == 0 {
                    ev.zero_iter += 1;
                    if nscan > 0 {
                        ev.zero_iter_scan += 1;
                        // ONNX: empty scan outputs; rten: "operator returned k outputs but expected n".
                        // Recorded; the reference run goes on with empty scan outputs so that every
                        // such loop of the program is known (rten may meet a different one first).
                        ev.zscan.push(format!("n_v{} {}/{}", outs.first().copied().unwrap_or(0), k, k + nscan));
                    }
                }
                let mut res = carried;
                for s in scans {
                    if s.is_empty() {
                        res.push((T { shape: vec![0], data: vec![] }, "zs".into()));
                        continue;
                    }
                    // all iterations must agree on the element shape
                    let sh = s[0].0.shape.clone();
                    if s.iter().any(|x| x.0.shape != sh) {
                        return Err("scanshape".into());
                    }
                    let mut shape = vec![s.len()];
                    shape.extend(sh);
                    let data: Vec<i32> = s.iter().flat_map(|x| x.0.data.iter().copied()).collect();
                    // flat: Unsqueeze each, Concat along axis 0
                    if !flat.have_axes {
                        flat.inits.push(OTensor::i64s("axes0", &[1], &[0]));
                        flat.have_axes = true;
                    }
                    let us: Vec<String> = s.iter().map(|x| flat.node("Unsqueeze", &[&x.1, "axes0"])).collect();
                    let usr: Vec<&str> = us.iter().map(|x| x.as_str()).collect();
                    let out = flat.fresh();
                    let nm = format!("fn{}", flat.ctr);
                    flat.nodes.push(ONode::new("Concat", &nm, &usr, &[&out]).attr("axis", Attr::Int(0)));
                    res.push((T { shape, data }, out));
                }
                if res.len() < outs.len() {
                    return Err("loopouts".into());
                }
                for (n, v) in outs.iter().zip(res) {
                    env.insert(*n, v);
                }
            }
        }
    }
    g.outputs.iter().map(|&n| get(&env, n)).collect()
}

// ---------------------------------------------------------------- generator

#[derive(Clone, Copy, PartialEq, Debug)]
enum Ty {
    D, // data tensor, shape [n]
    S, // scalar
    M, // small scalar (graph input / constant / iteration number): usable as trip count
    B, // scalar 0/1
    X, // stacked scan output (shape depends on the iteration count): unary ops / outputs only
}

#[derive(Clone)]
struct Var {
    name: Name,
    ty: Ty,
    /// nesting level of the graph that defines it
    level: u32,
}

struct Gen<'a> {
    rng: &'a mut Rng,
    next: Name,
    n: usize,
    /// shape of data tensors: `[n]`, or `[r, n]` in MatMul mode
    dshape: Vec<usize>,
    /// generate MatMul ops with constant weights and twin (structurally identical) branches
    mm: bool,
    max_depth: u32,
}

enum Role {
    Top,
    Branch(usize),
    Body { k: usize, s: usize, need_less: bool },
}

impl<'a> Gen<'a> {
    fn fresh(&mut self) -> Name {
        self.next += 1;
        self.next
    }

    fn pick(&mut self, vis: &[Var], level: u32, f: impl Fn(Ty) -> bool) -> Option<Var> {
        let c: Vec<&Var> = vis.iter().filter(|v| f(v.ty)).collect();
        if c.is_empty() {
            return None;
        }
        // inside subgraphs prefer captured (outer) values half of the time
        let outer: Vec<&&Var> = c.iter().filter(|v| v.level < level).collect();
        if level > 0 && !outer.is_empty() && self.rng.chance(1, 2) {
            return Some((**outer[self.rng.usize_below(outer.len())]).clone());
        }
        Some(c[self.rng.usize_below(c.len())].clone())
    }

    fn small_const(&mut self, g: &mut G, vis: &mut Vec<Var>, level: u32, lo: i64, hi: i64) -> Name {
        let n = self.fresh();
        g.consts.push((n, T::scalar(self.rng.range_i64(lo, hi) as i32)));
        vis.push(Var { name: n, ty: Ty::M, level });
        n
    }

    fn data_const(&mut self, g: &mut G, vis: &mut Vec<Var>, level: u32) -> Name {
        let n = self.fresh();
        let special = self.rng.chance(1, 3);
        let len: usize = self.dshape.iter().product();
        let data: Vec<i32> = (0..len)
            .map(|_| if special { *self.rng.pick(&[0, 1]) } else { self.rng.range_i64(-3, 3) as i32 })
            .collect();
        let data = if special { vec![data[0]; len] } else { data };
        g.consts.push((n, T { shape: self.dshape.clone(), data }));
        vis.push(Var { name: n, ty: Ty::D, level });
        n
    }

    /// Make sure `name` is produced by an operator of `g` (graph outputs must be): wrap in Identity
    /// (or another in-place capable unary op) when it is not.
    fn local_out(&mut self, g: &mut G, local_ops: &HashSet<Name>, name: Name) -> Name {
        if local_ops.contains(&name) && self.rng.chance(2, 3) {
            return name;
        }
        let out = self.fresh();
        g.ops.push(Op::P { k: K::Id, ins: vec![name], out });
        out
    }

    /// Copy of `g` with every name it defines replaced by a fresh one (free names are kept) and
    /// every non-scalar constant re-randomised: same structure, same node ids after loading.
    fn twin(&mut self, g: &G, map: &mut HashMap<Name, Name>) -> G {
        let mut h = G::default();
        for &i in &g.inputs {
            let f = self.fresh();
            map.insert(i, f);
            h.inputs.push(f);
        }
        for (c, t) in &g.consts {
            let f = self.fresh();
            map.insert(*c, f);
            let t2 = if t.shape.is_empty() {
                t.clone()
            } else {
                T { shape: t.shape.clone(), data: t.data.iter().map(|_| self.rng.range_i64(-2, 2) as i32).collect() }
            };
            h.consts.push((f, t2));
        }
        let m = |map: &HashMap<Name, Name>, n: Name| *map.get(&n).unwrap_or(&n);
        for op in &g.ops {
            match op {
                Op::P { k, ins, out } => {
                    let ins = ins.iter().map(|&n| m(map, n)).collect();
                    let f = self.fresh();
                    map.insert(*out, f);
                    h.ops.push(Op::P { k: *k, ins, out: f });
                }
                Op::If { cond, t, e, outs } => {
                    let cond = m(map, *cond);
                    let t2 = self.twin(t, map);
                    let e2 = self.twin(e, map);
                    let outs2: Vec<Name> = outs.iter().map(|&o| { let f = self.fresh(); map.insert(o, f); f }).collect();
                    h.ops.push(Op::If { cond, t: t2, e: e2, outs: outs2 });
                }
                Op::Lp { trip, cond, car, body, outs } => {
                    let trip = trip.map(|n| m(map, n));
                    let cond = cond.map(|n| m(map, n));
                    let car = car.iter().map(|&n| m(map, n)).collect();
                    let b2 = self.twin(body, map);
                    let outs2: Vec<Name> = outs.iter().map(|&o| { let f = self.fresh(); map.insert(o, f); f }).collect();
                    h.ops.push(Op::Lp { trip, cond, car, body: b2, outs: outs2 });
                }
            }
        }
        h.outputs = g.outputs.iter().map(|&n| m(map, n)).collect();
        h
    }

    fn gen_graph(&mut self, role: Role, parent_vis: &[Var], level: u32) -> G {
        let mut g = G::default();
        let mut vis: Vec<Var> = parent_vis.to_vec();
        let mut local_ops: HashSet<Name> = HashSet::new();
        let mut iter_name = None;
        let mut cond_in = None;
        match &role {
            Role::Top => {
                for _ in 0..2 + self.rng.usize_below(2) {
                    let n = self.fresh();
                    g.inputs.push(n);
                    vis.push(Var { name: n, ty: Ty::D, level });
                }
                for _ in 0..2 {
                    let n = self.fresh();
                    g.inputs.push(n);
                    vis.push(Var { name: n, ty: Ty::M, level });
                }
                for _ in 0..2 {
                    let n = self.fresh();
                    g.inputs.push(n);
                    vis.push(Var { name: n, ty: Ty::B, level });
                }
            }
            Role::Branch(_) => {}
            Role::Body { k, .. } => {
                let it = self.fresh();
                let ci = self.fresh();
                g.inputs.push(it);
                g.inputs.push(ci);
                vis.push(Var { name: it, ty: Ty::M, level });
                vis.push(Var { name: ci, ty: Ty::B, level });
                iter_name = Some(it);
                cond_in = Some(ci);
                for _ in 0..*k {
                    let n = self.fresh();
                    g.inputs.push(n);
                    vis.push(Var { name: n, ty: Ty::D, level });
                }
            }
        }
        if self.rng.chance(1, 2) {
            self.data_const(&mut g, &mut vis, level);
        }
        let nops = 1 + self.rng.usize_below(if level == 0 { 6 } else { 4 });
        for _ in 0..nops {
            let r = self.rng.below(100);
            let can_nest = level < self.max_depth;
            // nest more eagerly inside subgraphs so that depth 2-3 programs survive DCE
            let r = if can_nest && level > 0 && r >= 36 && self.rng.chance(1, 3) { self.rng.below(36) } else { r };
            if can_nest && r < 18 {
                // If
                let cond = match self.pick(&vis, level, |t| t == Ty::B) {
                    Some(v) if self.rng.chance(2, 3) => v.name,
                    _ => {
                        let a = self.pick(&vis, level, |t| t == Ty::M || t == Ty::S).map(|v| v.name);
                        let a = match a {
                            Some(a) => a,
                            None => self.small_const(&mut g, &mut vis, level, 0, 4),
                        };
                        let b = self.small_const(&mut g, &mut vis, level, 0, 3);
                        let out = self.fresh();
                        g.ops.push(Op::P { k: K::Less, ins: vec![a, b], out });
                        local_ops.insert(out);
                        vis.push(Var { name: out, ty: Ty::B, level });
                        out
                    }
                };
                let nout = 1 + self.rng.usize_below(2);
                let t = self.gen_graph(Role::Branch(nout), &vis, level + 1);
                let e = if self.mm && self.rng.chance(1, 2) {
                    // same structure (hence the same node ids), different constants / weights
                    let mut map = HashMap::new();
                    self.twin(&t, &mut map)
                } else {
                    self.gen_graph(Role::Branch(nout), &vis, level + 1)
                };
                let outs: Vec<Name> = (0..nout).map(|_| self.fresh()).collect();
                for &o in &outs {
                    local_ops.insert(o);
                    vis.push(Var { name: o, ty: Ty::D, level });
                }
                g.ops.push(Op::If { cond, t, e, outs });
            } else if can_nest && r < 36 {
                // Loop
                let use_trip = self.rng.chance(4, 5);
                let trip = if use_trip {
                    Some(match self.pick(&vis, level, |t| t == Ty::M) {
                        Some(v) if self.rng.chance(1, 2) => v.name,
                        _ => {
                            let lo = if self.rng.chance(1, 8) { 0 } else { 1 };
                            self.small_const(&mut g, &mut vis, level, lo, 3)
                        }
                    })
                } else {
                    None
                };
                let cond = if self.rng.chance(2, 5) { self.pick(&vis, level, |t| t == Ty::B).map(|v| v.name) } else { None };
                let k = self.rng.usize_below(3);
                let s = self.rng.usize_below(3);
                let mut car = Vec::new();
                for _ in 0..k {
                    let v = match self.pick(&vis, level, |t| t == Ty::D) {
                        Some(v) => v.name,
                        None => self.data_const(&mut g, &mut vis, level),
                    };
                    car.push(v);
                }
                let body = self.gen_graph(Role::Body { k, s, need_less: trip.is_none() }, &vis, level + 1);
                let mut outs = Vec::new();
                for _ in 0..k {
                    let o = self.fresh();
                    outs.push(o);
                    local_ops.insert(o);
                    vis.push(Var { name: o, ty: Ty::D, level });
                }
                for _ in 0..s {
                    let o = self.fresh();
                    outs.push(o);
                    local_ops.insert(o);
                    vis.push(Var { name: o, ty: Ty::X, level });
                }
                g.ops.push(Op::Lp { trip, cond, car, body, outs });
            } else if self.mm && r < 52 {
                // MatMul with a fresh constant weight of this graph
                let Some(a) = self.pick(&vis, level, |t| t == Ty::D) else { continue };
                let w = self.fresh();
                let nn = self.n;
                let data: Vec<i32> = (0..nn * nn).map(|_| self.rng.range_i64(-2, 2) as i32).collect();
                g.consts.push((w, T { shape: vec![nn, nn], data }));
                let out = self.fresh();
                g.ops.push(Op::P { k: K::Mm, ins: vec![a.name, w], out });
                local_ops.insert(out);
                vis.push(Var { name: out, ty: Ty::D, level });
            } else if r < 55 {
                // unary, in-place capable
                let k = *self.rng.pick(&[K::Neg, K::Abs, K::Id, K::Id]);
                let Some(a) = self.pick(&vis, level, |t| t != Ty::B) else { continue };
                let out = self.fresh();
                g.ops.push(Op::P { k, ins: vec![a.name], out });
                local_ops.insert(out);
                let ty = if a.ty == Ty::M { Ty::S } else { a.ty };
                vis.push(Var { name: out, ty, level });
            } else {
                // binary
                let k = *self.rng.pick(&[K::Add, K::Add, K::Sub, K::Mul]);
                let a = match self.pick(&vis, level, |t| t == Ty::D) {
                    Some(v) => v,
                    None => {
                        let n = self.data_const(&mut g, &mut vis, level);
                        Var { name: n, ty: Ty::D, level }
                    }
                };
                let b = match self.pick(&vis, level, |t| t == Ty::D || t == Ty::M || t == Ty::S) {
                    Some(v) => v,
                    None => a.clone(),
                };
                let (x, y) = if self.rng.chance(1, 2) { (a.name, b.name) } else { (b.name, a.name) };
                let out = self.fresh();
                g.ops.push(Op::P { k, ins: vec![x, y], out });
                local_ops.insert(out);
                vis.push(Var { name: out, ty: Ty::D, level });
            }
        }
        // outputs
        match role {
            Role::Top => {
                let nout = 1 + self.rng.usize_below(3);
                let mut cands: Vec<Name> = vis.iter().filter(|v| local_ops.contains(&v.name)).map(|v| v.name).collect();
                // sometimes also request a graph input (possibly captured by a subgraph)
                if self.rng.chance(1, 3) {
                    cands.push(g.inputs[self.rng.usize_below(g.inputs.len())]);
                }
                self.rng.shuffle(&mut cands);
                cands.truncate(nout);
                // always include the last produced value so that the program is not dead code
                if let Some(last) = vis.iter().rev().find(|v| local_ops.contains(&v.name)) {
                    if !cands.contains(&last.name) {
                        cands.push(last.name);
                    }
                }
                g.outputs = cands;
            }
            Role::Branch(nout) => {
                for _ in 0..nout {
                    let v = match self.pick(&vis, level, |t| t == Ty::D) {
                        Some(v) => v.name,
                        None => self.data_const(&mut g, &mut vis, level),
                    };
                    let o = self.local_out(&mut g, &local_ops, v);
                    if g.outputs.contains(&o) {
                        let o2 = self.fresh();
                        g.ops.push(Op::P { k: K::Id, ins: vec![o], out: o2 });
                        g.outputs.push(o2);
                    } else {
                        g.outputs.push(o);
                    }
                }
            }
            Role::Body { k, s, need_less } => {
                // condition output
                let co = self.fresh();
                if need_less || self.rng.chance(1, 3) {
                    let kk = self.small_const(&mut g, &mut vis, level, 0, 3);
                    g.ops.push(Op::P { k: K::Less, ins: vec![iter_name.unwrap(), kk], out: co });
                } else {
                    g.ops.push(Op::P { k: K::Id, ins: vec![cond_in.unwrap()], out: co });
                }
                g.outputs.push(co);
                for _ in 0..k + s {
                    let v = match self.pick(&vis, level, |t| t == Ty::D) {
                        Some(v) => v.name,
                        None => self.data_const(&mut g, &mut vis, level),
                    };
                    let o = self.local_out(&mut g, &local_ops, v);
                    if g.outputs.contains(&o) {
                        let o2 = self.fresh();
                        g.ops.push(Op::P { k: K::Id, ins: vec![o], out: o2 });
                        g.outputs.push(o2);
                    } else {
                        g.outputs.push(o);
                    }
                }
            }
        }
        g
    }
}


// ---------------------------------------------------------------- dead-code elimination, shrinking

/// Names a graph needs from its enclosing scopes (after DCE every op is live).
fn free_names(g: &G, out: &mut HashSet<Name>) {
    let mut defs: HashSet<Name> = g.inputs.iter().copied().collect();
    defs.extend(g.consts.iter().map(|c| c.0));
    for op in &g.ops {
        match op {
            Op::P { out, .. } => {
                defs.insert(*out);
            }
            Op::If { outs, .. } | Op::Lp { outs, .. } => defs.extend(outs.iter().copied()),
        }
    }
    let mut used: HashSet<Name> = g.outputs.iter().copied().collect();
    for op in &g.ops {
        match op {
            Op::P { ins, .. } => used.extend(ins.iter().copied()),
            Op::If { cond, t, e, .. } => {
                used.insert(*cond);
                free_names(t, &mut used);
                free_names(e, &mut used);
            }
            Op::Lp { trip, cond, car, body, .. } => {
                used.extend(trip.iter().copied());
                used.extend(cond.iter().copied());
                used.extend(car.iter().copied());
                free_names(body, &mut used);
            }
        }
    }
    out.extend(used.difference(&defs).copied());
}

/// Remove operators none of whose outputs is needed (rten's planner never runs them, the
/// reference semantics evaluates every operator).
fn dce(g: &mut G) {
    let mut needed: HashSet<Name> = g.outputs.iter().copied().collect();
    let mut keep = Vec::new();
    for mut op in std::mem::take(&mut g.ops).into_iter().rev() {
        let live = match &op {
            Op::P { out, .. } => needed.contains(out),
            Op::If { outs, .. } | Op::Lp { outs, .. } => outs.iter().any(|o| needed.contains(o)),
        };
        if !live {
            continue;
        }
        match &mut op {
            Op::P { ins, .. } => needed.extend(ins.iter().copied()),
            Op::If { cond, t, e, .. } => {
                needed.insert(*cond);
                dce(t);
                dce(e);
                free_names(t, &mut needed);
                free_names(e, &mut needed);
            }
            Op::Lp { trip, cond, car, body, .. } => {
                needed.extend(trip.iter().copied());
                needed.extend(cond.iter().copied());
                needed.extend(car.iter().copied());
                dce(body);
                free_names(body, &mut needed);
            }
        }
        keep.push(op);
    }
    keep.reverse();
    g.ops = keep;
    g.consts.retain(|c| needed.contains(&c.0));
}

fn count_ops(g: &G) -> usize {
    g.ops
        .iter()
        .map(|op| match op {
            Op::P { .. } => 1,
            Op::If { t, e, .. } => 1 + count_ops(t) + count_ops(e),
            Op::Lp { body, .. } => 1 + count_ops(body),
        })
        .sum()
}

/// All programs obtained by one shrinking step applied somewhere in `g`.
fn shrink_candidates(g: &G, top: bool) -> Vec<G> {
    let mut res = Vec::new();
    if top && g.outputs.len() > 1 {
        for i in 0..g.outputs.len() {
            let mut h = g.clone();
            h.outputs.remove(i);
            res.push(h);
        }
    }
    for i in 0..g.ops.len() {
        // replace a primitive by an Identity of one of its inputs / rewire
        match &g.ops[i] {
            Op::P { k, ins, out } if *k != K::Id && *k != K::Less && *k != K::Mm => {
                for x in ins {
                    let mut h = g.clone();
                    h.ops[i] = Op::P { k: K::Id, ins: vec![*x], out: *out };
                    res.push(h);
                }
            }
            Op::If { cond, t, e, outs } => {
                for t2 in shrink_candidates(t, false) {
                    let mut h = g.clone();
                    h.ops[i] = Op::If { cond: *cond, t: t2, e: e.clone(), outs: outs.clone() };
                    res.push(h);
                }
                for e2 in shrink_candidates(e, false) {
                    let mut h = g.clone();
                    h.ops[i] = Op::If { cond: *cond, t: t.clone(), e: e2, outs: outs.clone() };
                    res.push(h);
                }
            }
            Op::Lp { trip, cond, car, body, outs } => {
                for b2 in shrink_candidates(body, false) {
                    let mut h = g.clone();
                    h.ops[i] = Op::Lp { trip: *trip, cond: *cond, car: car.clone(), body: b2, outs: outs.clone() };
                    res.push(h);
                }
            }
            _ => {}
        }
        // bypass an Identity: substitute its input for its output everywhere after it in this graph
        if let Op::P { k: K::Id, ins, out } = &g.ops[i] {
            if !g.outputs.contains(out) {
                let mut h = g.clone();
                h.ops.remove(i);
                subst(&mut h, *out, ins[0]);
                res.push(h);
            }
        }
    }
    res
}

fn subst(g: &mut G, from: Name, to: Name) {
    let f = |n: &mut Name| {
        if *n == from {
            *n = to
        }
    };
    for op in &mut g.ops {
        match op {
            Op::P { ins, .. } => ins.iter_mut().for_each(f),
            Op::If { cond, t, e, .. } => {
                f(cond);
                subst(t, from, to);
                subst(e, from, to);
            }
            Op::Lp { trip, cond, car, body, .. } => {
                trip.iter_mut().for_each(f);
                cond.iter_mut().for_each(f);
                car.iter_mut().for_each(f);
                subst(body, from, to);
            }
        }
    }
}

// ---------------------------------------------------------------- hand-made scenarios

fn d(n: usize, v: &[i32]) -> T {
    T { shape: vec![n], data: v.to_vec() }
}

/// Targeted programs (names are chosen by hand, all unique).
fn scenarios() -> Vec<(&'static str, G, Vec<T>)> {
    let mut v = Vec::new();
    // s1: capture of a capture. `5` is computed in the top graph and only used by the If (=> moved
    // by value into the If's environment); the branch uses `5` itself (Add) *before* its Loop whose
    // body uses `5` again in a non-in-place position (=> the branch moves `5` on into the Loop's
    // environment, keyed by the branch's own capture node).
    let body = G {
        inputs: vec![20, 21, 22],
        consts: vec![],
        ops: vec![
            Op::P { k: K::Id, ins: vec![21], out: 23 },
            Op::P { k: K::Sub, ins: vec![22, 5], out: 24 },
        ],
        outputs: vec![23, 24],
    };
    let then_g = G {
        inputs: vec![],
        consts: vec![(10, T::scalar(2))],
        ops: vec![
            Op::P { k: K::Add, ins: vec![5, 1], out: 11 },
            Op::Lp { trip: Some(10), cond: None, car: vec![11], body, outs: vec![12] },
        ],
        outputs: vec![12],
    };
    let else_g = G { inputs: vec![], consts: vec![], ops: vec![Op::P { k: K::Id, ins: vec![1], out: 30 }], outputs: vec![30] };
    let top = G {
        inputs: vec![1, 2, 3],
        consts: vec![],
        ops: vec![
            Op::P { k: K::Mul, ins: vec![1, 2], out: 5 },
            Op::If { cond: 3, t: then_g, e: else_g, outs: vec![6] },
        ],
        outputs: vec![6],
    };
    v.push(("s1_capture_of_capture_loop", top, vec![d(2, &[1, 2]), d(2, &[3, 4]), T::scalar(1)]));

    // s2: same shape of problem with If nested in a Loop body: the body uses the captured `5`
    // itself and its If is the last user.
    let inner_t = G { inputs: vec![], consts: vec![], ops: vec![Op::P { k: K::Sub, ins: vec![44, 5], out: 50 }], outputs: vec![50] };
    let inner_e = G { inputs: vec![], consts: vec![], ops: vec![Op::P { k: K::Mul, ins: vec![5, 44], out: 51 }], outputs: vec![51] };
    let body = G {
        inputs: vec![40, 41, 42],
        consts: vec![(43, T::scalar(1))],
        ops: vec![
            Op::P { k: K::Add, ins: vec![42, 5], out: 44 },
            Op::P { k: K::Less, ins: vec![40, 43], out: 45 },
            Op::If { cond: 45, t: inner_t, e: inner_e, outs: vec![46] },
            Op::P { k: K::Id, ins: vec![41], out: 47 },
        ],
        outputs: vec![47, 46],
    };
    let top = G {
        inputs: vec![1, 2, 3],
        consts: vec![],
        ops: vec![
            Op::P { k: K::Mul, ins: vec![1, 2], out: 5 },
            Op::Lp { trip: Some(3), cond: None, car: vec![1], body, outs: vec![6] },
        ],
        outputs: vec![6],
    };
    v.push(("s2_capture_of_capture_if_in_loop", top, vec![d(2, &[1, 2]), d(2, &[3, 4]), T::scalar(3)]));

    // s3: by-value capture taken in place in iteration 1 but needed again in iteration 2.
    let body = G {
        inputs: vec![60, 61, 62],
        consts: vec![],
        ops: vec![
            Op::P { k: K::Neg, ins: vec![5], out: 63 },
            Op::P { k: K::Add, ins: vec![63, 62], out: 64 },
            Op::P { k: K::Id, ins: vec![61], out: 65 },
        ],
        outputs: vec![65, 64, 63],
    };
    let top = G {
        inputs: vec![1, 2, 3],
        consts: vec![],
        ops: vec![
            Op::P { k: K::Mul, ins: vec![1, 2], out: 5 },
            Op::Lp { trip: Some(3), cond: None, car: vec![1], body, outs: vec![6, 7] },
        ],
        outputs: vec![6, 7],
    };
    v.push(("s3_inplace_capture_across_iterations", top, vec![d(2, &[1, 2]), d(2, &[3, 4]), T::scalar(3)]));

    // s4: captured value re-used after the If and requested as an output (by reference).
    let t = G { inputs: vec![], consts: vec![], ops: vec![Op::P { k: K::Neg, ins: vec![5], out: 70 }], outputs: vec![70] };
    let e = G { inputs: vec![], consts: vec![], ops: vec![Op::P { k: K::Abs, ins: vec![5], out: 71 }], outputs: vec![71] };
    let top = G {
        inputs: vec![1, 2, 3],
        consts: vec![],
        ops: vec![
            Op::P { k: K::Sub, ins: vec![1, 2], out: 5 },
            Op::If { cond: 3, t, e, outs: vec![6] },
            Op::P { k: K::Add, ins: vec![5, 6], out: 7 },
        ],
        outputs: vec![7, 5, 1],
    };
    v.push(("s4_capture_reused_after_if", top.clone(), vec![d(2, &[1, 2]), d(2, &[3, 5]), T::scalar(1)]));
    v.push(("s4_capture_reused_after_if_else", top, vec![d(2, &[1, 2]), d(2, &[3, 5]), T::scalar(0)]));

    // s5: zero iterations, carried values only / with a scan output.
    let body = G {
        inputs: vec![80, 81, 82],
        consts: vec![],
        ops: vec![Op::P { k: K::Id, ins: vec![81], out: 83 }, Op::P { k: K::Add, ins: vec![82, 5], out: 84 }],
        outputs: vec![83, 84],
    };
    let top = G {
        inputs: vec![1, 2, 3],
        consts: vec![],
        ops: vec![
            Op::P { k: K::Mul, ins: vec![1, 2], out: 5 },
            Op::Lp { trip: Some(3), cond: None, car: vec![5], body: body.clone(), outs: vec![6] },
        ],
        outputs: vec![6],
    };
    v.push(("s5_zero_iterations", top, vec![d(2, &[1, 2]), d(2, &[3, 4]), T::scalar(0)]));
    let mut body2 = body;
    body2.ops.push(Op::P { k: K::Neg, ins: vec![82], out: 85 });
    body2.outputs.push(85);
    let top = G {
        inputs: vec![1, 2, 3],
        consts: vec![],
        ops: vec![
            Op::P { k: K::Mul, ins: vec![1, 2], out: 5 },
            Op::Lp { trip: Some(3), cond: None, car: vec![5], body: body2, outs: vec![6, 7] },
        ],
        outputs: vec![6, 7],
    };
    v.push(("s5_zero_iterations_scan", top.clone(), vec![d(2, &[1, 2]), d(2, &[3, 4]), T::scalar(0)]));
    v.push(("s5_two_iterations_scan", top, vec![d(2, &[1, 2]), d(2, &[3, 4]), T::scalar(2)]));

    // s6: a branch whose nested If has a constant condition and captures a value of the
    // *grandparent* only (the middle graph does not mention `1`): constant propagation inside the
    // middle graph (`partial_run` -> `prune_plan`) must not run the nested If at load time.
    // (panicked with "Invalid plan did not produce input value v1" before fix c276359)
    let t2 = G { inputs: vec![], consts: vec![], ops: vec![Op::P { k: K::Neg, ins: vec![1], out: 113 }], outputs: vec![113] };
    let e2 = G { inputs: vec![], consts: vec![], ops: vec![Op::P { k: K::Abs, ins: vec![1], out: 114 }], outputs: vec![114] };
    let p = G {
        inputs: vec![],
        consts: vec![(110, T::scalar(1)), (111, T::scalar(2))],
        ops: vec![
            Op::P { k: K::Less, ins: vec![110, 111], out: 112 },
            Op::If { cond: 112, t: t2, e: e2, outs: vec![115] },
            Op::P { k: K::Id, ins: vec![115], out: 116 },
        ],
        outputs: vec![116],
    };
    let q = G { inputs: vec![], consts: vec![], ops: vec![Op::P { k: K::Id, ins: vec![1], out: 130 }], outputs: vec![130] };
    let top = G {
        inputs: vec![1, 3],
        consts: vec![],
        ops: vec![Op::If { cond: 3, t: p, e: q, outs: vec![6] }],
        outputs: vec![6],
    };
    v.push(("s6_grandparent_capture_const_cond", top.clone(), vec![d(2, &[1, -2]), T::scalar(1)]));
    v.push(("s6_grandparent_capture_const_cond_else", top, vec![d(2, &[1, -2]), T::scalar(0)]));

    // s8 (suggested by b-C25): two-level capture through If -> If where the innermost branch reads
    // the top-level temp `5` in a NON-in-place position. (a) the middle graph uses `5` itself as well
    // (then `5` is named twice in the outer If's capture_names => count 2 => never moved by value);
    // (b) the middle graph does not mention `5` (then it has no node for it and cannot re-capture it).
    for direct in [true, false] {
        let g2t = G { inputs: vec![], consts: vec![], ops: vec![Op::P { k: K::Sub, ins: vec![1, 5], out: 202 }], outputs: vec![202] };
        let g2e = G { inputs: vec![], consts: vec![], ops: vec![Op::P { k: K::Id, ins: vec![1], out: 203 }], outputs: vec![203] };
        let mut ops = Vec::new();
        if direct {
            ops.push(Op::P { k: K::Add, ins: vec![5, 1], out: 200 });
        } else {
            ops.push(Op::P { k: K::Neg, ins: vec![1], out: 200 });
        }
        ops.push(Op::If { cond: 3, t: g2t, e: g2e, outs: vec![204] });
        ops.push(Op::P { k: K::Add, ins: vec![200, 204], out: 205 });
        let g1 = G { inputs: vec![], consts: vec![], ops, outputs: vec![205] };
        let g1e = G { inputs: vec![], consts: vec![], ops: vec![Op::P { k: K::Id, ins: vec![1], out: 206 }], outputs: vec![206] };
        let top = G {
            inputs: vec![1, 2, 3],
            consts: vec![],
            ops: vec![Op::P { k: K::Mul, ins: vec![1, 2], out: 5 }, Op::If { cond: 3, t: g1, e: g1e, outs: vec![6] }],
            outputs: vec![6],
        };
        v.push((
            if direct { "s8a_two_level_capture_if_if_direct" } else { "s8b_two_level_capture_if_if_indirect" },
            top,
            vec![d(2, &[1, 2]), d(2, &[3, 4]), T::scalar(1)],
        ));
    }

    // s9 (reported by b-C25): a branch whose OUTPUT is directly an outer-scope value, with no
    // operator in between. The ONNX loader creates a value node for the output but only marks
    // names used by the subgraph's *operators* as captures => "Source node not found for output".
    let t = G { inputs: vec![], consts: vec![], ops: vec![], outputs: vec![5] };
    let e = G { inputs: vec![], consts: vec![], ops: vec![Op::P { k: K::Id, ins: vec![1], out: 30 }], outputs: vec![30] };
    let top = G {
        inputs: vec![1, 2, 3],
        consts: vec![],
        ops: vec![Op::P { k: K::Mul, ins: vec![1, 2], out: 5 }, Op::If { cond: 3, t, e, outs: vec![6] }],
        outputs: vec![6],
    };
    v.push(("s9_branch_returns_capture", top, vec![d(2, &[1, 2]), d(2, &[3, 4]), T::scalar(1)]));

    // s10: twin branches (same structure => same node ids) with different MatMul weights, LHS with
    // two rows: with prepacked weights each branch must use its OWN weight cache.
    for c in [1, 0] {
        let t = G {
            inputs: vec![],
            consts: vec![(300, T { shape: vec![2, 2], data: vec![1, 2, 0, 1] })],
            ops: vec![Op::P { k: K::Mm, ins: vec![1, 300], out: 301 }],
            outputs: vec![301],
        };
        let e = G {
            inputs: vec![],
            consts: vec![(310, T { shape: vec![2, 2], data: vec![-1, 0, 2, -2] })],
            ops: vec![Op::P { k: K::Mm, ins: vec![1, 310], out: 311 }],
            outputs: vec![311],
        };
        // nested once more inside a loop body, with its own twin If
        let top = G {
            inputs: vec![1, 3],
            consts: vec![],
            ops: vec![Op::If { cond: 3, t, e, outs: vec![6] }],
            outputs: vec![6],
        };
        v.push((
            if c == 1 { "s10_twin_branches_matmul_then" } else { "s10_twin_branches_matmul_else" },
            top,
            vec![T { shape: vec![2, 2], data: vec![1, 2, 3, 4] }, T::scalar(c)],
        ));
    }

    // s11: Loop edge cases, one per line of `Loop::run_subgraph`'s trip-count / condition handling
    // (they tie `loopCore`, hence by `c24_loopCore_eq_loopSpec` the ONNX-text fold, to the real
    // operator): absent trip count; trip 0; negative trip; trip beyond the i32 range; condition
    // false at start; condition false after k; a truthy condition that is not 1; trip cuts first.
    {
        let mk = |trip: Option<i32>, use_cond_input: bool, less_k: Option<i32>, scan: bool| -> G {
            let mut bconsts = vec![(403, d(2, &[1, 1]))];
            let mut bops = Vec::new();
            match less_k {
                Some(k) => {
                    bconsts.push((404, T::scalar(k)));
                    bops.push(Op::P { k: K::Less, ins: vec![400, 404], out: 405 });
                }
                None => bops.push(Op::P { k: K::Id, ins: vec![401], out: 405 }),
            }
            bops.push(Op::P { k: K::Add, ins: vec![402, 403], out: 406 });
            let mut bouts = vec![405, 406];
            let mut outs = vec![6];
            if scan {
                bops.push(Op::P { k: K::Id, ins: vec![400], out: 407 });
                bouts.push(407);
                outs.push(7);
            }
            let body = G { inputs: vec![400, 401, 402], consts: bconsts, ops: bops, outputs: bouts };
            let mut consts = Vec::new();
            if let Some(t) = trip {
                consts.push((410, T::scalar(t)));
            }
            G {
                inputs: vec![1, 3],
                consts,
                ops: vec![Op::Lp {
                    trip: trip.map(|_| 410),
                    cond: if use_cond_input { Some(3) } else { None },
                    car: vec![1],
                    body,
                    outs: outs.clone(),
                }],
                outputs: outs,
            }
        };
        let x = d(2, &[10, 20]);
        v.push(("s11a_loop_absent_trip_cond_false_after_3", mk(None, false, Some(2), true), vec![x.clone(), T::scalar(1)]));
        v.push(("s11b_loop_trip_zero", mk(Some(0), false, Some(2), false), vec![x.clone(), T::scalar(1)]));
        v.push(("s11c_loop_cond_false_at_start", mk(Some(3), true, None, false), vec![x.clone(), T::scalar(0)]));
        v.push(("s11d_loop_negative_trip", mk(Some(-1), false, Some(2), false), vec![x.clone(), T::scalar(1)]));
        v.push(("s11e_loop_trip_beyond_i32", mk(Some(i32::MAX), false, Some(2), true), vec![x.clone(), T::scalar(1)]));
        v.push(("s11f_loop_truthy_cond_5_trip_2", mk(Some(2), true, None, true), vec![x.clone(), T::scalar(5)]));
        v.push(("s11g_loop_trip_4_cond_false_after_2", mk(Some(4), true, Some(1), true), vec![x.clone(), T::scalar(1)]));
        v.push(("s11h_loop_trip_2_cuts_before_cond", mk(Some(2), false, Some(3), true), vec![x, T::scalar(1)]));
    }

    // s12: a value produced by a fusable operator (Identity) is captured only TRANSITIVELY: by a
    // branch nested two levels deep, while the intermediate branch does not mention it. The
    // optimizer's guard must see transitive capture names (`OperatorNode::capture_names`).
    {
        let in_t = G { inputs: vec![], consts: vec![], ops: vec![Op::P { k: K::Mul, ins: vec![1, 500], out: 510 }], outputs: vec![510] };
        let in_e = G { inputs: vec![], consts: vec![], ops: vec![Op::P { k: K::Sub, ins: vec![500, 1], out: 511 }], outputs: vec![511] };
        let mid_t = G {
            inputs: vec![],
            consts: vec![],
            ops: vec![Op::If { cond: 3, t: in_t, e: in_e, outs: vec![512] }, Op::P { k: K::Neg, ins: vec![512], out: 513 }],
            outputs: vec![513],
        };
        let mid_e = G { inputs: vec![], consts: vec![], ops: vec![Op::P { k: K::Abs, ins: vec![1], out: 514 }], outputs: vec![514] };
        let top = G {
            inputs: vec![1, 2, 3],
            consts: vec![],
            ops: vec![Op::P { k: K::Id, ins: vec![2], out: 500 }, Op::If { cond: 3, t: mid_t, e: mid_e, outs: vec![6] }],
            outputs: vec![6],
        };
        v.push(("s12_transitive_capture_of_identity_output", top, vec![d(2, &[1, 2]), d(2, &[3, 5]), T::scalar(1)]));
    }

    // s7: two outputs that are Identity of the same constant (optimizer: b-C01's finding).
    let top = G {
        inputs: vec![1],
        consts: vec![(8, d(3, &[0, 0, 0]))],
        ops: vec![Op::P { k: K::Id, ins: vec![8], out: 9 }, Op::P { k: K::Id, ins: vec![9], out: 18 }],
        outputs: vec![9, 18],
    };
    v.push(("s7_two_outputs_same_constant", top, vec![d(3, &[1, 2, 3])]));
    v
}

// ---------------------------------------------------------------- running rten

fn to_rt(t: &T) -> RTensor<i32> {
    RTensor::from_data(&t.shape, t.data.clone())
}

/// `… operator "NAME" output mismatch: operator returned K outputs but expected N` → `NAME K/N`
/// (innermost = last occurrence).
fn output_mismatch_detail(msg: &str) -> Option<String> {
    let key = "\" output mismatch: operator returned ";
    let at = msg.rfind(key)?;
    let name_start = msg[..at].rfind('"')? + 1;
    let name = &msg[name_start..at];
    let rest = &msg[at + key.len()..];
    let mut it = rest.split_whitespace();
    let k = it.next()?;
    let n = it.nth(3)?; // "outputs" "but" "expected" N
    let n: String = n.chars().take_while(|c| c.is_ascii_digit()).collect();
    Some(format!("{name} {k}/{n}"))
}

fn classify_run_err(msg: &str) -> String {
    let m = msg.to_lowercase();
    if m.contains("outputs but expected") {
        match output_mismatch_detail(msg) {
            Some(d) => format!("err:output_mismatch {d}"),
            None => format!("err:output_mismatch ? {}", msg.replace(['\n', '\t'], " ")),
        }
    } else if m.contains("planning") {
        "err:plan".into()
    } else {
        "err:op".into()
    }
}

/// Run `bytes` as a model; answer string.
fn run_model(bytes: &[u8], opt: bool, owned: bool, prepack: bool, in_names: &[String], ins: &[T], out_names: &[String]) -> String {
    let bytes = bytes.to_vec();
    let r = hcommon::catch(move || -> String {
        let model = match ModelOptions::with_all_ops().enable_optimization(opt).prepack_weights(prepack).load(bytes) {
            Ok(m) => m,
            Err(e) => {
                let m = e.to_string().replace(['\n', '\t'], " ");
                // a zero-iteration loop with scan outputs whose inputs are constants is run by
                // constant propagation at load time: same deviation, reported at load.
                if m.contains("outputs but expected") {
                    return classify_run_err(&m);
                }
                return format!("err:load {m}");
            }
        };
        let tensors: Vec<RTensor<i32>> = ins.iter().map(to_rt).collect();
        let mut inputs = Vec::new();
        for (n, t) in in_names.iter().zip(&tensors) {
            let Ok(id) = model.node_id(n) else { return "err:input_id".into() };
            if owned {
                inputs.push((id, t.clone().into()));
            } else {
                inputs.push((id, t.view().into()));
            }
        }
        let mut outs = Vec::new();
        for n in out_names {
            let Ok(id) = model.node_id(n) else { return "err:output_id".into() };
            outs.push(id);
        }
        match model.run(inputs, &outs, None) {
            Ok(vals) => {
                let mut parts = Vec::new();
                for v in vals {
                    match v {
                        Value::Int32Tensor(t) => parts.push(T { shape: t.shape().to_vec(), data: t.to_vec() }.show()),
                        _ => parts.push("nonint".into()),
                    }
                }
                format!("ok {}", parts.join(";"))
            }
            Err(e) => classify_run_err(&e.to_string()),
        }
    });
    match r {
        Ok(s) => s,
        Err(m) => format!("panic {m}"),
    }
}

struct CaseResult {
    ans: String,
    fail: Option<String>,
}

struct Evald {
    req: String,
    ans: String,
    fail: Option<String>,
    ev: Events,
}

fn eval_case(tag: &str, g: &G, ins: &[T]) -> Evald {
    // reference interpretation + inlined model
    let mut flat = Flat::default();
    let mut ev = Events::default();
    let args: Vec<(T, String)> = g.inputs.iter().zip(ins).map(|(n, t)| (t.clone(), vn(*n))).collect();
    let refr = eval_graph(g, &Env::new(), args, &mut flat, &mut ev, 0);
    let refr = if ev.zscan.is_empty() || refr.is_err() { refr } else { Err("zero_iter_scan".to_string()) };

    // request line; the tag records that the reference run met zero-iteration loops with scan
    // outputs (known deviation from ONNX, see findings/C24.json) and which ones
    let tag = if !ev.zscan.is_empty() {
        format!("{tag}-zscan[{}]", ev.zscan.iter().map(|z| z.replace(' ', ":")).collect::<Vec<_>>().join(","))
    } else {
        tag.to_string()
    };
    let mut toks: Vec<String> = vec!["run".into(), tag];
    g.tokens(&mut toks);
    toks.push("ARGS".into());
    for t in ins {
        toks.push(t.tokens());
    }
    // Observation-only scenario (not a property check, request not compared with the model): a
    // branch whose output is directly an outer-scope value. rten rejects the model at planning
    // time in every configuration, as onnxruntime does ("add an Identity node"); the property is
    // about running control-flow subgraphs, so a consistent clean rejection is only recorded.
    let observe_rejected = toks[1].starts_with("s9_");
    let req = if observe_rejected { format!("# {}", toks.join(" ")) } else { toks.join(" ") };

    let mut ctr = 0usize;
    let nested = g.onnx(&mut ctr).into_model_bytes(21);
    let in_names: Vec<String> = g.inputs.iter().map(|&n| vn(n)).collect();
    let out_names: Vec<String> = g.outputs.iter().map(|&n| vn(n)).collect();
    let mut answers = Vec::new();
    // (optimisation, owned inputs, prepacked weights)
    for (opt, owned, prepack) in
        [(false, false, false), (false, true, false), (true, false, false), (true, true, false), (false, false, true), (true, true, true)]
    {
        let tag = format!("{opt} prepack={prepack}");
        answers.push(((tag, owned), run_model(&nested, opt, owned, prepack, &in_names, ins, &out_names)));
    }
    let ans = answers[0].1.clone();
    let mut fail: Option<String> = None;
    if observe_rejected {
        // still a failure if some configuration panics or *runs* the model to a wrong value
        for ((opt, owned), a) in &answers {
            let rejected = a == "err:plan" || (a.starts_with("err:load") && a.contains("Source node not found for output"));
            if !rejected && fail.is_none() {
                fail = Some(format!("model with a branch output that is an outer-scope value was not rejected cleanly: opt={opt} owned={owned} gives `{a}`"));
            }
        }
        return Evald { req, ans, fail, ev };
    }
    for ((opt, owned), a) in &answers {
        if a.starts_with("panic") && fail.is_none() {
            fail = Some(format!("panic in nested run opt={opt} owned={owned}: {a}"));
        }
    }
    if fail.is_none() && ev.zscan.is_empty() {
        for ((opt, owned), a) in &answers[1..] {
            if *a != ans {
                fail = Some(format!("configurations disagree: opt=false owned=false gives `{ans}` but opt={opt} owned={owned} gives `{a}`"));
                break;
            }
        }
    }

    // oracle: inlined model through rten + reference interpreter
    match &refr {
        Ok(vals) => {
            let want = format!("ok {}", vals.iter().map(|v| v.0.show()).collect::<Vec<_>>().join(";"));
            // flat model: outputs via Identity so that aliases / duplicates are fine
            let mut fnodes = flat.nodes;
            let mut fouts = Vec::new();
            for (i, v) in vals.iter().enumerate() {
                let o = format!("out{i}");
                fnodes.push(ONode::new("Identity", &format!("outn{i}"), &[&v.1], &[&o]));
                fouts.push(o);
            }
            let fg = OGraph {
                name: "flat".into(),
                nodes: fnodes,
                initializers: flat.inits,
                inputs: g.inputs.iter().map(|&n| ValueInfo::new(&vn(n), dt::INT32, None)).collect(),
                outputs: fouts.iter().map(|o| ValueInfo::new(o, dt::INT32, None)).collect(),
                value_infos: vec![],
            };
            let fl = run_model(&fg.into_model_bytes(21), false, false, false, &in_names, ins, &fouts);
            if fail.is_none() && fl != want {
                // the oracle itself is inconsistent: report, but as a harness problem
                fail = Some(format!("inlined model through rten gives `{fl}` but the reference interpreter gives `{want}`"));
            }
            if fail.is_none() && ans != fl {
                fail = Some(format!("nested model gives `{ans}` but the inlined/unrolled model gives `{fl}`"));
            }
            // graph outputs that are graph inputs must be returned unchanged
            if fail.is_none() && ans.starts_with("ok ") {
                let parts: Vec<&str> = ans[3..].split(';').collect();
                for (i, o) in g.outputs.iter().enumerate() {
                    if let Some(p) = g.inputs.iter().position(|x| x == o) {
                        if parts.get(i).copied() != Some(ins[p].show().as_str()) {
                            fail = Some(format!("graph input v{o} requested as output was changed"));
                        }
                    }
                }
            }
        }
        Err(e) if e == "zero_iter_scan" => {
            // documented deviation: rten returns an error instead of empty scan outputs. Every
            // configuration must fail at ONE OF the zero-iteration scan loops of the reference run,
            // with exactly its output counts (plan order / load-time constant propagation decide
            // which one is met first).
            if fail.is_none() {
                for ((opt, owned), a) in &answers {
                    let ok = ev.zscan.iter().any(|z| *a == format!("err:output_mismatch {z}"));
                    if !ok {
                        fail = Some(format!(
                            "zero-iteration loop with scan outputs: expected err:output_mismatch at one of [{}], but opt={opt} owned={owned} gives `{a}`",
                            ev.zscan.join(", ")
                        ));
                        break;
                    }
                }
            }
        }
        Err(e) => {
            if fail.is_none() {
                fail = Some(format!("harness generated an invalid program: {e}"));
            }
        }
    }

    Evald { req, ans, fail, ev }
}

/// Class of a failure message (used to keep the same failure while shrinking).
fn fail_class(m: &str) -> String {
    let m = m.to_string();
    for key in ["Outputs are not unique", "Invalid plan did not produce", "panic", "inlined/unrolled model gives", "reference interpreter", "configurations disagree", "zero-iteration", "invalid program"] {
        if m.contains(key) {
            return key.to_string();
        }
    }
    m.chars().take(24).collect()
}

fn shrink(tag: &str, g: &G, ins: &[T], class: &str) -> G {
    let mut cur = g.clone();
    loop {
        let mut progressed = false;
        let cur_len = eval_case(tag, &cur, ins).req.len();
        for mut cand in shrink_candidates(&cur, true) {
            dce(&mut cand);
            let r = eval_case(tag, &cand, ins);
            if r.req.len() >= cur_len {
                continue;
            }
            if r.fail.as_deref().map(fail_class).as_deref() == Some(class) {
                cur = cand;
                progressed = true;
                break;
            }
        }
        if !progressed {
            return cur;
        }
    }
}

fn run_case(out: &mut Out, tag: &str, g: &G, ins: &[T]) -> CaseResult {
    let Evald { req, ans, fail, ev } = eval_case(tag, g, ins);
    if let (Some(f), Ok(_)) = (&fail, std::env::var("C24_SHRINK")) {
        let class = fail_class(f);
        let small = shrink(tag, g, ins, &class);
        let r = eval_case(tag, &small, ins);
        eprintln!("SHRUNK [{class}] {}\n   -> {} | {:?}", r.req, r.ans, r.fail);
    }
    out.bucket(&format!("depth{}", ev.max_depth));
    out.bucket(if ev.ifs > 0 { "has_if" } else { "no_if" });
    out.bucket(if ev.loops > 0 { "has_loop" } else { "no_loop" });
    if ev.zero_iter > 0 {
        out.bucket("zero_iteration_loop");
    }
    if ev.zero_iter_scan > 0 {
        out.bucket("zero_iteration_loop_with_scan");
    }
    if ev.cond_false_start > 0 {
        out.bucket("cond_false_at_start");
    }
    if ev.scan > 0 {
        out.bucket("scan_outputs");
    }
    if ev.then_taken > 0 && ev.else_taken > 0 {
        out.bucket("both_branches_taken");
    }
    if ev.iters >= 8 {
        out.bucket("iters>=8");
    }
    out.bucket(if ans.starts_with("ok") { "ans_ok" } else if ans.starts_with("panic") { "ans_panic" } else { "ans_err" });
    let nontrivial = ev.ifs + ev.loops > 0;
    out.case(&req, &ans, fail.as_deref(), nontrivial);
    CaseResult { ans, fail }
}

fn main() {
    let args = hcommon::parse_args();
    hcommon::quiet_panics();
    let mut out = Out::new(&args.out);
    let mut rng = Rng::new(args.seed);

    for (tag, mut g, ins) in scenarios() {
        dce(&mut g);
        out.bucket("scenario");
        let r = run_case(&mut out, tag, &g, &ins);
        if std::env::var("C24_VERBOSE").is_ok() {
            eprintln!("{tag}: {} {:?}", r.ans, r.fail);
        }
    }

    let cases = if args.thorough { 30000 } else { 2500 };
    for i in 0..cases {
        let n = 1 + rng.usize_below(3);
        let max_depth = if args.thorough { 1 + rng.below(3) as u32 } else { 1 + rng.below(3) as u32 };
        // a third of the programs: 2-D data, MatMul with constant weights, twin branches
        let mm = rng.chance(1, 3);
        let dshape = if mm { vec![2 + rng.usize_below(2), n] } else { vec![n] };
        let mut gen = Gen { rng: &mut rng, next: 0, n, dshape: dshape.clone(), mm, max_depth };
        let mut g = gen.gen_graph(Role::Top, &[], 0);
        dce(&mut g);
        // inputs: D.. then 2 M then 2 B (in the order gen_graph declared them)
        let nd = g.inputs.len() - 4;
        let mut ins = Vec::new();
        for _ in 0..nd {
            let len: usize = dshape.iter().product();
            ins.push(T { shape: dshape.clone(), data: (0..len).map(|_| rng.range_i64(-4, 4) as i32).collect() });
        }
        for _ in 0..2 {
            let lo = if rng.chance(1, 6) { 0 } else { 1 };
            ins.push(T::scalar(rng.range_i64(lo, 3) as i32));
        }
        for _ in 0..2 {
            ins.push(T::scalar(rng.chance(3, 4) as i32));
        }
        let _ = i;
        if mm {
            // skip programs whose MatMul operands leave the range where f32 is exact
            let args: Vec<(T, String)> = g.inputs.iter().zip(&ins).map(|(n, t)| (t.clone(), vn(*n))).collect();
            let pre = eval_graph(&g, &Env::new(), args, &mut Flat::default(), &mut Events::default(), 0);
            if matches!(&pre, Err(e) if e == "mm_range") {
                out.bucket("skipped_mm_range");
                continue;
            }
            out.bucket("matmul_mode");
        }
        run_case(&mut out, if mm { "mm" } else { "rnd" }, &g, &ins);
    }
    out.note("each case: nested ONNX model run with optimisation off/on x borrowed/owned inputs, compared with the inlined/unrolled model run through rten and with a reference interpreter; answers compared with the Lean naive semantics");
    out.finish("nested If/Loop model == inlined/unrolled model (bit-identical int32), all configurations agree, inputs requested as outputs unchanged");
}
