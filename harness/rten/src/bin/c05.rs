//! C05: loading untrusted model bytes is safe, bounded and well-formed.
//!
//! Every case builds a complete model file (ONNX protobuf or `.rten` FlatBuffers container),
//! loads it through the PUBLIC loaders (`ModelOptions::load`, `load_file`, `load_mmap`) and
//! reports the outcome class.  Cases are executed in a CHILD process (this binary re-invoked
//! with `--child`): the child catches panics per case, a counting global allocator aborts above
//! 2 GiB, and the parent watches for progress, so `crash` / `hang` / `alloc` are observables too.
//!
//! Requests compared with the Lean model (lean/RtenVerif/Driver/C05.lean):
//!   onnx <dtype> <dims|-> raw=<n|-> ext=<none|loc|meta|fail|<mem|mmap|file>:len:off:buflen>  (loader = entry point used) f=<n> i32=<n> i64=<n> f64=<n>
//!   rten <rel|ovf> inline <ty> <dims|-> n=<n>
//!   rten <rel|ovf> stored <ty> <dims|-> tdo=<n|-> off=<n> slen=<n>
//!   hdr  <rel|ovf> <version> <model_offset> <model_len> <tensor_data_offset> <file_len>
//!   onnxall <tensor> | <tensor> | …      (several initializers: first error, or `ok d l;d l;…`)
//!   rtenall <mode> tdo=<n> slen=<n> | inline <ty> <dims> n=<n> | stored <ty> <dims> off=<n> | …
//!   constop <outputs> <attr,attr,…|-> | <tensor>   (Constant node; `value` attrs carry <tensor>)
//!   attrconst <-|n>                    (attribute promoted to a constant input: scalar or n-vector)
//!   nest <subgraph|raw> <depth>      (ONNX file with <depth> levels of embedded messages;
//!                                     answer `err:parse` | `past-parse`, C38's nesting limit)
//! answers: `ok <dims|-> <len>` | `err:<class>` | `panic` (hdr: `ok` | `err:header` | `panic`).
//! Lines starting with `#` (file mutations, random bytes, load-time work probes) are not
//! compared; for them only the property oracle applies: no panic (reported with `[at file:line]`) /
//! crash / hang — the 2 GiB cap firing (`alloc`) and slow `# probe` loads are OBSERVATIONS, not failures:
//! the property promises termination with a model or an error, docs/security.md disclaims resource limits —
//! and every constant of a loaded model has `product(shape) == data length` with a
//! readable last element.
#[path = "../onnx_enc.rs"]
mod onnx_enc;
use hcommon::{catch, Out, Rng};
use onnx_enc::{f_bytes, f_i64, f_str, varint};
use rten::verif as rv;
use rten::{Model, ModelOptions};
use rten_model_file::header::Header;
use rten_model_file::schema as sg;
use rten_tensor::prelude::*;
use rten_tensor::TensorView;
use std::alloc::{GlobalAlloc, Layout as AllocLayout, System};
use std::io::Write;
use std::sync::atomic::{AtomicI32, AtomicUsize, Ordering};

// ---------------------------------------------------------------------------------------------
// Counting allocator: abort (after leaving a marker) when more than LIMIT bytes are live.

struct Counting;
static LIVE: AtomicUsize = AtomicUsize::new(0);
static PEAK: AtomicUsize = AtomicUsize::new(0);
static MARK_FD: AtomicI32 = AtomicI32::new(-1);
const LIMIT: usize = 2 << 30;

fn over_limit(size: usize) -> ! {
    let fd = MARK_FD.load(Ordering::Relaxed);
    if fd >= 0 {
        use std::os::fd::FromRawFd;
        let mut f = unsafe { std::fs::File::from_raw_fd(fd) };
        let _ = f.write_all(b"alloc\n");
        let _ = f.flush();
        std::mem::forget(f);
    }
    let _ = size;
    std::process::abort()
}

unsafe impl GlobalAlloc for Counting {
    unsafe fn alloc(&self, l: AllocLayout) -> *mut u8 {
        let live = LIVE.fetch_add(l.size(), Ordering::Relaxed) + l.size();
        if live > LIMIT {
            over_limit(l.size());
        }
        PEAK.fetch_max(live, Ordering::Relaxed);
        System.alloc(l)
    }
    unsafe fn dealloc(&self, p: *mut u8, l: AllocLayout) {
        LIVE.fetch_sub(l.size(), Ordering::Relaxed);
        System.dealloc(p, l)
    }
    unsafe fn alloc_zeroed(&self, l: AllocLayout) -> *mut u8 {
        let live = LIVE.fetch_add(l.size(), Ordering::Relaxed) + l.size();
        if live > LIMIT {
            over_limit(l.size());
        }
        PEAK.fetch_max(live, Ordering::Relaxed);
        System.alloc_zeroed(l)
    }
    unsafe fn realloc(&self, p: *mut u8, l: AllocLayout, new: usize) -> *mut u8 {
        if new > l.size() {
            let live = LIVE.fetch_add(new - l.size(), Ordering::Relaxed) + new - l.size();
            if live > LIMIT {
                over_limit(new);
            }
            PEAK.fetch_max(live, Ordering::Relaxed);
        } else {
            LIVE.fetch_sub(l.size() - new, Ordering::Relaxed);
        }
        System.realloc(p, l, new)
    }
}

#[global_allocator]
static GLOBAL: Counting = Counting;

// ---------------------------------------------------------------------------------------------
// Panic capture with location: `hcommon::catch` keeps only the message, so the child installs a
// hook that remembers `file:line` of the most recent panic and `catchl` appends it.

static LAST_PANIC_AT: std::sync::Mutex<String> = std::sync::Mutex::new(String::new());

fn short_location(file: &str, line: u32) -> String {
    // last three path components: `rten-shape-inference/src/sym_expr.rs`, `src/model/rten_loader.rs`
    let parts: Vec<&str> = file.split('/').filter(|p| !p.is_empty()).collect();
    let tail = if parts.len() > 3 { &parts[parts.len() - 3..] } else { &parts[..] };
    format!("{}:{line}", tail.join("/"))
}

fn install_location_hook(loud: bool) {
    std::panic::set_hook(Box::new(move |info| {
        let at = info.location().map(|l| short_location(l.file(), l.line())).unwrap_or_else(|| "?".into());
        if loud {
            eprintln!("panic at {at}: {info}");
        }
        if let Ok(mut g) = LAST_PANIC_AT.lock() {
            *g = at;
        }
    }));
}

/// `hcommon::catch` + ` [at file:line]` of the panic.
fn catchl<T>(f: impl FnOnce() -> T) -> Result<T, String> {
    catch(f).map_err(|m| {
        let at = LAST_PANIC_AT.lock().map(|g| g.clone()).unwrap_or_default();
        format!("{m} [at {at}]")
    })
}

// ---------------------------------------------------------------------------------------------
// Cases

#[derive(Clone, Copy, PartialEq, Debug)]
enum Fmt {
    Onnx,
    Rten,
}

#[derive(Clone, Copy, PartialEq, Debug)]
enum Answer {
    /// `ok <dims> <len>` of the constant named "c" / `err:<class>` / `panic`
    Constant,
    /// `ok` unless the error is "invalid header"
    Header,
    /// not compared: outcome class only
    Class,
    /// `err:parse` if the loader reports a parse error, else `past-parse`
    Parse,
    /// constants `c`, `c1`, … `c<n-1>`: `ok d l;d l;…` or the first error
    All(usize),
    /// the single constant without a name
    Unnamed,
}

struct Case {
    req: String,
    fmt: Fmt,
    bytes: Vec<u8>,
    ext: Vec<(String, Vec<u8>)>,
    answer: Answer,
    buckets: Vec<String>,
    nontrivial: bool,
    /// also exercise `load_file` / `load_mmap`
    via_file: bool,
    /// entry point of the reported load: 0 = `load` (MemLoader), 1 = `load_file` (FileLoader),
    /// 2 = `load_mmap` (MmapLoader)
    loader: u8,
}

fn overflow_checks_on() -> bool {
    static CACHE: std::sync::OnceLock<bool> = std::sync::OnceLock::new();
    *CACHE.get_or_init(overflow_checks_probe)
}

fn overflow_checks_probe() -> bool {
    let prev = std::panic::take_hook();
    std::panic::set_hook(Box::new(|_| {}));
    let r = overflow_checks_probe_inner();
    std::panic::set_hook(prev);
    r
}

fn overflow_checks_probe_inner() -> bool {
    catch(|| {
        let x: u8 = std::hint::black_box(255);
        std::hint::black_box(x + std::hint::black_box(1))
    })
    .is_err()
}

fn mode_word() -> &'static str {
    if overflow_checks_on() {
        "ovf"
    } else {
        "rel"
    }
}

fn rten_kw() -> &'static str {
    if std::env::var("C05_OLD").is_ok() {
        "rtenold"
    } else {
        "rten"
    }
}

fn dims_str<T: std::fmt::Display>(d: &[T]) -> String {
    if d.is_empty() {
        "-".into()
    } else {
        hcommon::join(d.iter(), ",")
    }
}

/// Multiplicative inverse of an odd number modulo 2^64.
fn inv_odd(a: u64) -> u64 {
    let mut x = a; // correct to 3 bits
    for _ in 0..6 {
        x = x.wrapping_mul(2u64.wrapping_sub(a.wrapping_mul(x)));
    }
    x
}

/// Returns (dims, kind, product if it is small).
fn gen_dims_i64(rng: &mut Rng) -> (Vec<i64>, &'static str, Option<u64>) {
    let small = |rng: &mut Rng, lo: i64| -> Vec<i64> {
        let rank = rng.usize_below(5);
        (0..rank).map(|_| rng.range_i64(lo, 4)).collect()
    };
    let prod = |d: &[i64]| -> Option<u64> {
        let mut p: u128 = 1;
        for &x in d {
            if x < 0 {
                return None;
            }
            p = p.checked_mul(x as u128)?;
            if p > 1 << 20 {
                return None;
            }
        }
        Some(p as u64)
    };
    match rng.below(12) {
        0..=3 => {
            let d = small(rng, 1);
            let p = prod(&d);
            (d, "small", p)
        }
        4 => {
            let mut d = small(rng, 1);
            let i = rng.usize_below(d.len() + 1);
            d.insert(i, 0);
            (d, "zero", Some(0))
        }
        5 => {
            let mut d = small(rng, 1);
            let i = rng.usize_below(d.len() + 1);
            d.insert(i, *rng.pick(&[-1, -2, i64::MIN, -4294967296, i64::MIN + 1]));
            (d, "negative", None)
        }
        6 | 7 => {
            let table: [&[i64]; 14] = [
                &[1 << 32, 1 << 32],
                &[1 << 62, 4],
                &[1 << 62, 2],
                &[i64::MAX],
                &[i64::MAX, 2],
                &[1 << 31, 1 << 31, 4],
                &[1 << 16, 1 << 16, 1 << 16, 1 << 16],
                &[(1 << 32) + 1, 1 << 32],
                &[1 << 61, 8],
                &[1 << 63 - 1, 1],
                &[3037000500, 3037000500],
                &[1 << 40, 1 << 23],
                &[1 << 40, 1 << 22, 2],
                &[2, 1 << 62],
            ];
            (rng.pick(&table).to_vec(), "huge", None)
        }
        8 | 9 => {
            // product ≡ k (mod 2^64) for a small k: the wrapped element count matches real data
            let k = rng.below(7);
            loop {
                let a = rng.next_u64() | 1;
                let a = a >> rng.below(40);
                let a = a | 1;
                let b = k.wrapping_mul(inv_odd(a));
                if a < (1 << 63) && b < (1 << 63) && a > 1 {
                    let mut d = vec![a as i64, b as i64];
                    if rng.chance(1, 3) {
                        d.insert(rng.usize_below(3), 1);
                    }
                    return (d, "wrap", Some(k));
                }
            }
        }
        10 => {
            let table: [&[i64]; 6] = [
                &[0, 1 << 62, 8],
                &[1 << 62, 8, 0],
                &[1 << 32, 0, 1 << 32],
                &[0, i64::MAX],
                &[1 << 40, 0],
                &[0, 1 << 32, 1 << 32, 1 << 32],
            ];
            (rng.pick(&table).to_vec(), "zero+huge", Some(0))
        }
        _ => {
            let rank = 1 + rng.usize_below(3);
            let d: Vec<i64> = (0..rank).map(|_| rng.range_i64(0, 40)).collect();
            let p = prod(&d);
            (d, "medium", p)
        }
    }
}

fn gen_dims_u32(rng: &mut Rng) -> (Vec<u32>, &'static str, Option<u64>) {
    let prod = |d: &[u32]| -> Option<u64> {
        let mut p: u128 = 1;
        for &x in d {
            p = p.checked_mul(x as u128)?;
            if p > 1 << 20 {
                return None;
            }
        }
        Some(p as u64)
    };
    match rng.below(10) {
        0..=3 => {
            let rank = rng.usize_below(5);
            let d: Vec<u32> = (0..rank).map(|_| rng.range_i64(1, 4) as u32).collect();
            let p = prod(&d);
            (d, "small", p)
        }
        4 => {
            let rank = rng.usize_below(4);
            let mut d: Vec<u32> = (0..rank).map(|_| rng.range_i64(1, 4) as u32).collect();
            let i = rng.usize_below(d.len() + 1);
            d.insert(i, 0);
            (d, "zero", Some(0))
        }
        5 | 6 => {
            let m = u32::MAX;
            let table: [&[u32]; 14] = [
                &[1 << 16, 1 << 16, 1 << 16, 1 << 16],
                &[1 << 31, 1 << 31, 4],
                &[1 << 31, 1 << 31],
                &[1 << 31, 1 << 31, 2],
                &[1 << 31, 1 << 30],
                &[m, m],
                &[m, m, m],
                &[m],
                &[1 << 31, 1 << 31, 1 << 2, 3],
                &[1 << 20, 1 << 20, 1 << 20, 1 << 4],
                &[1 << 30, 1 << 30, 1 << 3],
                &[1 << 31, 1 << 31, 1 << 1, 1 << 1, 5],
                &[65536, 65536, 65536, 65535],
                &[1 << 21, 1 << 21, 1 << 21],
            ];
            (rng.pick(&table).to_vec(), "huge", None)
        }
        7 => {
            let m = u32::MAX;
            let table: [&[u32]; 10] = [
                &[1 << 31, 1 << 31, 0],
                &[0, 1 << 31, 1 << 30],
                &[1 << 30, 1 << 30, 2, 0],
                &[1 << 31, 0, 1 << 31, 1],
                &[0, m, m, m],
                &[m, m, m, 0],
                &[1 << 16, 1 << 16, 0, 1 << 16, 1 << 16],
                &[0, 1 << 31, 1 << 31, 4],
                &[1 << 31, 1 << 31, 4, 0],
                &[m, 0],
            ];
            (rng.pick(&table).to_vec(), "zero+huge", Some(0))
        }
        _ => {
            let rank = 1 + rng.usize_below(3);
            let d: Vec<u32> = (0..rank).map(|_| rng.range_i64(0, 40) as u32).collect();
            let p = prod(&d);
            (d, "medium", p)
        }
    }
}

/// Element count to back a constant with, relative to the shape's product `p`.
fn gen_count(rng: &mut Rng, p: Option<u64>) -> u64 {
    match p {
        Some(p) if p <= 1 << 16 => match rng.below(10) {
            0..=4 => p,
            5 => p.saturating_sub(1),
            6 => p + 1,
            7 => 0,
            8 => (p * 2).min(1 << 16),
            _ => rng.below(9),
        },
        _ => match rng.below(4) {
            0 => 0,
            1 => 1,
            _ => rng.below(9),
        },
    }
}

// ---- ONNX encoding of one TensorProto with full control over the fields ----

#[derive(Default, Clone)]
struct TP {
    name: String,
    dims: Vec<i64>,
    dtype: Option<i64>,
    raw: Option<Vec<u8>>,
    floats: Vec<f32>,
    int32s: Vec<i32>,
    int64s: Vec<i64>,
    doubles: Vec<f64>,
    data_location: Option<i64>,
    ext_kv: Vec<(String, String)>,
}

impl TP {
    fn encode(&self) -> Vec<u8> {
        let mut o = Vec::new();
        for d in &self.dims {
            f_i64(&mut o, 1, *d);
        }
        if let Some(dt) = self.dtype {
            f_i64(&mut o, 2, dt);
        }
        if !self.floats.is_empty() {
            let mut p = Vec::new();
            for x in &self.floats {
                p.extend_from_slice(&x.to_le_bytes());
            }
            f_bytes(&mut o, 4, &p);
        }
        if !self.int32s.is_empty() {
            let mut p = Vec::new();
            for x in &self.int32s {
                varint(&mut p, *x as i64 as u64);
            }
            f_bytes(&mut o, 5, &p);
        }
        if !self.int64s.is_empty() {
            let mut p = Vec::new();
            for x in &self.int64s {
                varint(&mut p, *x as u64);
            }
            f_bytes(&mut o, 7, &p);
        }
        f_str(&mut o, 8, &self.name);
        if let Some(r) = &self.raw {
            f_bytes(&mut o, 9, r);
        }
        if !self.doubles.is_empty() {
            let mut p = Vec::new();
            for x in &self.doubles {
                p.extend_from_slice(&x.to_le_bytes());
            }
            f_bytes(&mut o, 10, &p);
        }
        for (k, v) in &self.ext_kv {
            let mut e = Vec::new();
            f_str(&mut e, 1, k);
            f_str(&mut e, 2, v);
            f_bytes(&mut o, 13, &e);
        }
        if let Some(l) = self.data_location {
            f_i64(&mut o, 14, l);
        }
        o
    }
}

/// ModelProto with initializers `tps`, `y = Identity(c)`, output `y`.  With `as_const_op` the
/// first tensor is not an initializer but the `value` attribute of a `Constant` node whose
/// output is `c` (`load_constant_from_constant_op` → the same `load_constant`).
fn onnx_model(tps: &[TP], as_const_op: bool) -> Vec<u8> {
    let mut g = Vec::new();
    let mut tps = tps;
    if as_const_op {
        let mut attr = Vec::new();
        f_str(&mut attr, 1, "value");
        f_bytes(&mut attr, 5, &tps[0].encode());
        f_i64(&mut attr, 20, 4); // AttributeType::TENSOR
        let mut node = Vec::new();
        f_str(&mut node, 2, "c");
        f_str(&mut node, 3, "const_node");
        f_str(&mut node, 4, "Constant");
        f_bytes(&mut node, 5, &attr);
        f_bytes(&mut g, 1, &node);
        tps = &tps[1..];
    }
    f_bytes(&mut g, 1, &onnx_enc::Node::new("Identity", "id", &["c"], &["y"]).encode());
    f_str(&mut g, 2, "g");
    for t in tps {
        f_bytes(&mut g, 5, &t.encode());
    }
    f_bytes(&mut g, 12, &onnx_enc::ValueInfo::new("y", 1, None).encode());
    let mut o = Vec::new();
    f_i64(&mut o, 1, 8);
    f_str(&mut o, 2, "rten-verif");
    f_bytes(&mut o, 7, &g);
    let mut os = Vec::new();
    f_str(&mut os, 1, "");
    f_i64(&mut os, 2, 21);
    f_bytes(&mut o, 8, &os);
    o
}

const LOADERS: [&str; 3] = ["mem", "file", "mmap"];

const ONNX_DTYPES: [(&str, i64, u64); 8] = [
    ("float", 1, 4),
    ("int32", 6, 4),
    ("uint8", 2, 1),
    ("int8", 3, 1),
    ("int64", 7, 8),
    ("bool", 9, 1),
    ("double", 11, 8),
    ("float16", 10, 2),
];

/// One adversarial TensorProto named `name` (external data, if any, in `<extfile>`):
/// (tensor, external buffers, request fragment `<dtype> <dims> raw=… ext=… f=… i32=… i64=… f64=…`, buckets).
fn gen_onnx_tensor(rng: &mut Rng, k: usize, name: &str, extfile: &str, kind: &str) -> (TP, Vec<(String, Vec<u8>)>, String, Vec<String>) {
    let mut buckets = vec![];
    // data type
    let (dt_name, dt_code, size): (&str, Option<i64>, u64) = match k % 11 {
        i @ 0..=7 => (ONNX_DTYPES[i].0, Some(ONNX_DTYPES[i].1), ONNX_DTYPES[i].2),
        8 => ("unsupported", Some(*rng.pick(&[0i64, 4, 5, 8, 12, 13, 16, 99, -1])), 1),
        9 => ("missing", None, 1),
        _ => {
            let i = rng.usize_below(8);
            (ONNX_DTYPES[i].0, Some(ONNX_DTYPES[i].1), ONNX_DTYPES[i].2)
        }
    };
    let (dims, dkind, p) = gen_dims_i64(rng);
    let n = gen_count(rng, p);
    let mut tp = TP { name: name.into(), dims: dims.clone(), dtype: dt_code, ..Default::default() };
    let mut ext_bufs = vec![];
    let mut ext_s = "none".to_string();
    let slack = |rng: &mut Rng| if size > 1 && rng.chance(1, 6) { 1 + rng.below(size - 1) } else { 0 };
    let fill_typed = |tp: &mut TP, rng: &mut Rng, n: usize| match dt_name {
        "float" => tp.floats = (0..n).map(|i| i as f32).collect(),
        "int64" => tp.int64s = (0..n).map(|i| if i % 3 == 0 { i64::MAX - i as i64 } else { i as i64 }).collect(),
        "double" => tp.doubles = (0..n).map(|i| i as f64 * 0.5).collect(),
        _ => tp.int32s = (0..n).map(|i| (i as i32) ^ (rng.below(2) as i32)).collect(),
    };
    let src_kind = match rng.below(16) {
        0..=5 => "raw",
        6..=8 => "typed",
        9..=11 => "ext",
        12 => "raw+typed",
        13 => "raw+ext",
        14 => "extfail",
        _ => "loc",
    };
    match src_kind {
        "raw" | "raw+typed" | "raw+ext" => {
            let len = n * size + slack(rng);
            tp.raw = Some((0..len).map(|i| (i * 7 + 1) as u8).collect());
            if src_kind == "raw+typed" {
                let m = rng.usize_below(6);
                fill_typed(&mut tp, rng, m);
            }
            if src_kind == "raw+ext" {
                tp.data_location = Some(1);
                tp.ext_kv = vec![("location".into(), extfile.into()), ("offset".into(), "0".into()), ("length".into(), "4".into())];
                ext_bufs.push((extfile.to_string(), vec![1u8; 16]));
                ext_s = format!("{kind}:4:0:16");
            }
        }
        "typed" => {
            fill_typed(&mut tp, rng, n as usize);
            // junk in the fields this dtype does not read
            if rng.chance(1, 3) {
                match dt_name {
                    "float" => tp.int32s = vec![7; rng.usize_below(5)],
                    _ => tp.floats = vec![1.5; rng.usize_below(5)],
                }
                if dt_name != "int64" {
                    tp.int64s = vec![9; rng.usize_below(4)];
                }
            }
        }
        "ext" => {
            let off = *rng.pick(&[0u64, 0, 0, 4, 8, 1, 2, 3, 6, 16]);
            let len = n * size + slack(rng);
            let tail = if off + len == 0 { 1 + rng.below(4) } else { rng.below(5) };
            let buf: Vec<u8> = (0..off + len + tail).map(|i| (i * 3 + 2) as u8).collect();
            tp.data_location = Some(1);
            tp.ext_kv = vec![
                ("location".into(), extfile.into()),
                ("offset".into(), off.to_string()),
                ("length".into(), len.to_string()),
            ];
            if rng.chance(1, 5) {
                tp.ext_kv.push(("checksum".into(), "abc".into()));
            }
            ext_s = format!("{kind}:{len}:{off}:{}", off + len + tail);
            ext_bufs.push((extfile.to_string(), buf));
            if rng.chance(1, 4) {
                // typed data present as well: external data wins
                fill_typed(&mut tp, rng, 2);
            }
        }
        "extfail" => {
            tp.data_location = Some(1);
            match rng.below(5) {
                0 => {
                    // buffer too short
                    tp.ext_kv = vec![("location".into(), extfile.into()), ("offset".into(), "8".into()), ("length".into(), "64".into())];
                    ext_bufs.push((extfile.to_string(), vec![0u8; 16]));
                    ext_s = format!("{kind}:64:8:16");
                }
                1 => {
                    // unknown file
                    tp.ext_kv = vec![("location".into(), "nope.data".into()), ("offset".into(), "0".into()), ("length".into(), "4".into())];
                    ext_s = "fail".into();
                }
                2 => {
                    tp.ext_kv = vec![("location".into(), extfile.into()), ("offset".into(), "-1".into()), ("length".into(), "4".into())];
                    ext_s = "meta".into();
                }
                3 => {
                    tp.ext_kv = vec![("location".into(), extfile.into()), ("length".into(), "4".into())];
                    ext_s = "meta".into();
                }
                _ => {
                    tp.ext_kv = vec![("location".into(), extfile.into()), ("offset".into(), "18446744073709551615".into()), ("length".into(), "18446744073709551615".into())];
                    ext_bufs.push((extfile.to_string(), vec![0u8; 16]));
                    ext_s = format!("{kind}:18446744073709551615:18446744073709551615:16");
                }
            }
        }
        _ => {
            tp.data_location = Some(*rng.pick(&[2i64, 7, -1]));
            ext_s = "loc".into();
            fill_typed(&mut tp, rng, n as usize);
        }
    }
    let raw_s = tp.raw.as_ref().map(|r| r.len().to_string()).unwrap_or("-".into());
    let frag = format!(
        "{dt_name} {} raw={raw_s} ext={ext_s} f={} i32={} i64={} f64={}",
        dims_str(&dims),
        tp.floats.len(),
        tp.int32s.len(),
        tp.int64s.len(),
        tp.doubles.len()
    );
    buckets.push(format!("onnx:dtype:{dt_name}"));
    buckets.push(format!("onnx:dims:{dkind}"));
    buckets.push(format!("onnx:src:{src_kind}"));
    (tp, ext_bufs, frag, buckets)
}

fn case_onnx(rng: &mut Rng, k: usize) -> Case {
    let loader = [0u8, 0, 1, 2][rng.usize_below(4)];
    let (tp, ext_bufs, frag, mut buckets) = gen_onnx_tensor(rng, k, "c", "w.data", LOADERS[loader as usize]);
    buckets.push(format!("onnx:loader:{}", LOADERS[loader as usize]));
    let as_const_op = k % 7 == 6;
    buckets.push(format!("onnx:as:{}", if as_const_op { "constant-op" } else { "initializer" }));
    // a second, valid initializer so the rest of the model is non-trivial
    let k2 = TP { name: "k".into(), dims: vec![2], dtype: Some(1), raw: Some(vec![0; 8]), ..Default::default() };
    Case {
        req: format!("onnx {frag}"),
        fmt: Fmt::Onnx,
        bytes: onnx_model(&[tp, k2], as_const_op),
        ext: ext_bufs,
        answer: Answer::Constant,
        buckets,
        nontrivial: true,
        via_file: k % 16 == 3,
        loader,
    }
}

/// Several adversarial initializers in one graph: the load fails with the FIRST rejected one.
fn case_onnx_all(rng: &mut Rng, k: usize) -> Case {
    let n = 2 + rng.usize_below(2);
    let mut tps = vec![];
    let mut exts = vec![];
    let mut frags = vec![];
    let loader = [0u8, 0, 1, 2][rng.usize_below(4)];
    let mut buckets = vec![format!("onnxall:{n}"), format!("onnx:loader:{}", LOADERS[loader as usize])];
    for i in 0..n {
        // bias towards acceptable tensors so that later ones are reached
        let kk = if rng.chance(2, 3) { rng.usize_below(8) } else { k + i };
        let (mut tp, e, frag, _) = gen_onnx_tensor(rng, kk, &format!("c{i}"), &format!("w{i}.data"), LOADERS[loader as usize]);
        if i == 0 {
            tp.name = "c".into();
        }
        tps.push(tp);
        exts.extend(e);
        frags.push(frag);
    }
    buckets.push("onnxall".into());
    Case {
        req: format!("onnxall {}", frags.join(" | ")),
        fmt: Fmt::Onnx,
        bytes: onnx_model(&tps, false),
        ext: exts,
        answer: Answer::All(n),
        buckets,
        nontrivial: true,
        via_file: false,
        loader,
    }
}

/// `Constant` nodes with every flavour of value attribute (also several / none / unsupported).
fn case_constop(rng: &mut Rng, k: usize) -> Case {
    let kk = rng.usize_below(11);
    let loader = [0u8, 0, 1, 2][rng.usize_below(4)];
    let (tp, ext_bufs, frag, _) = gen_onnx_tensor(rng, kk, "ignored", "w.data", LOADERS[loader as usize]);
    let nattrs = match rng.below(8) {
        0 => 0,
        1 | 2 => 2,
        3 => 3,
        _ => 1,
    };
    let mut toks = vec![];
    let mut node = Vec::new();
    let outputs = if rng.chance(1, 10) { *rng.pick(&[0usize, 2]) } else { 1 };
    for i in 0..outputs {
        f_str(&mut node, 2, if i == 0 { "c" } else { "c_extra" });
    }
    f_str(&mut node, 3, "const_node");
    f_str(&mut node, 4, "Constant");
    let mut used_value = false;
    for _ in 0..nattrs {
        let mut attr = Vec::new();
        match rng.below(10) {
            0 | 1 => {
                f_str(&mut attr, 1, "value_int");
                f_i64(&mut attr, 3, *rng.pick(&[0i64, -1, i64::MAX, i64::MIN, 7]));
                f_i64(&mut attr, 20, 2);
                toks.push("int".to_string());
            }
            2 => {
                f_str(&mut attr, 1, "value_float");
                onnx_enc::f_f32(&mut attr, 2, 1.5);
                f_i64(&mut attr, 20, 1);
                toks.push("float".to_string());
            }
            3 | 4 => {
                let n = *rng.pick(&[0usize, 1, 2, 5, 300]);
                f_str(&mut attr, 1, "value_ints");
                // unpacked (proto2) encoding, the only one rten-onnx's AttributeProto accepts
                for i in 0..n {
                    f_i64(&mut attr, 8, i as i64 - 2);
                }
                f_i64(&mut attr, 20, 7);
                toks.push(format!("ints:{n}"));
            }
            5 => {
                let n = *rng.pick(&[0usize, 1, 3, 64]);
                f_str(&mut attr, 1, "value_floats");
                for i in 0..n {
                    onnx_enc::f_f32(&mut attr, 7, i as f32);
                }
                f_i64(&mut attr, 20, 6);
                toks.push(format!("floats:{n}"));
            }
            6 | 7 if !used_value => {
                f_str(&mut attr, 1, "value");
                let mut t = tp.clone();
                t.name = "inner".into();
                f_bytes(&mut attr, 5, &t.encode());
                f_i64(&mut attr, 20, 4);
                toks.push("value".to_string());
                used_value = true;
            }
            8 => {
                f_str(&mut attr, 1, *rng.pick(&["value_string", "sparse_value", "value_strings", "foo"]));
                f_bytes(&mut attr, 4, b"abc");
                f_i64(&mut attr, 20, 3);
                toks.push("other".to_string());
            }
            9 => {
                // attribute without a name: skipped by the loader
                f_i64(&mut attr, 3, 5);
                toks.push("unnamed".to_string());
            }
            _ => {
                f_str(&mut attr, 1, "value");
                f_i64(&mut attr, 20, 4);
                toks.push("notensor".to_string());
            }
        }
        f_bytes(&mut node, 5, &attr);
    }
    let mut g = Vec::new();
    f_bytes(&mut g, 1, &node);
    f_bytes(&mut g, 1, &onnx_enc::Node::new("Identity", "id", &["c"], &["y"]).encode());
    f_str(&mut g, 2, "g");
    f_bytes(&mut g, 12, &onnx_enc::ValueInfo::new("y", 1, None).encode());
    let mut o = Vec::new();
    f_i64(&mut o, 1, 8);
    f_bytes(&mut o, 7, &g);
    let mut os = Vec::new();
    f_str(&mut os, 1, "");
    f_i64(&mut os, 2, 21);
    f_bytes(&mut o, 8, &os);
    let attrs = if toks.is_empty() { "-".to_string() } else { toks.join(",") };
    Case {
        req: format!("constop {outputs} {attrs} | {frag}"),
        fmt: Fmt::Onnx,
        bytes: o,
        ext: if used_value { ext_bufs } else { vec![] },
        answer: Answer::Constant,
        buckets: vec![format!("constop:attrs:{nattrs}"), format!("constop:first:{}", toks.first().map(|t| t.split(':').next().unwrap().to_string()).unwrap_or("none".into()))],
        nontrivial: true,
        via_file: k % 16 == 9,
        loader,
    }
}

/// Attributes that the ONNX registry promotes to constant operator inputs
/// (`constant_from_attr_value`): the constant has no name.
fn case_attrconst(rng: &mut Rng, k: usize) -> Case {
    use onnx_enc::{dt, Attr, Graph, Node, ValueInfo};
    let (node, opset, spec): (Node, i64, String) = match k % 4 {
        0 => (Node::new("Clip", "op", &["x"], &["y"]).attr("min", Attr::Float(-0.5)), 6, "-".into()),
        1 => (Node::new("TopK", "op", &["x"], &["y", "yi"]).attr("k", Attr::Int(*rng.pick(&[1i64, 3, i64::MAX]))), 1, "-".into()),
        2 => {
            let n = rng.usize_below(4);
            (Node::new("Unsqueeze", "op", &["x"], &["y"]).attr("axes", Attr::Ints((0..n as i64).collect())), 11, n.to_string())
        }
        _ => {
            let n = *rng.pick(&[0usize, 1, 4, 40]);
            (Node::new("Upsample", "op", &["x"], &["y"]).attr("scales", Attr::Floats(vec![1.0; n])), 7, n.to_string())
        }
    };
    let g = Graph {
        nodes: vec![node],
        inputs: vec![ValueInfo::fixed("x", dt::FLOAT, &[1, 3, 4, 4])],
        outputs: vec![ValueInfo::new("y", dt::FLOAT, None)],
        ..Default::default()
    };
    Case {
        req: format!("attrconst {spec}"),
        fmt: Fmt::Onnx,
        bytes: g.into_model_bytes(opset),
        ext: vec![],
        answer: Answer::Unnamed,
        buckets: vec![format!("attrconst:{}", ["clip.min", "topk.k", "unsqueeze.axes", "upsample.scales"][k % 4])],
        nontrivial: true,
        via_file: false,
        loader: 0,
    }
}

// ---- .rten files ----

#[derive(Clone)]
enum RData {
    /// inline union member: 0 = FloatData, 1 = Int32Data, 2 = Int8Data, 3 = UInt8Data, 4 = NONE; element count
    Inline(u8, usize),
    /// `data_offset`, `dtype` (0 = Float32, 1 = Int32, 2 = Int8, 3 = UInt8, 4 = field absent)
    Stored(u64, u8),
}

#[derive(Clone)]
struct RConst {
    name: String,
    dims: Vec<u32>,
    data: RData,
}

#[derive(Clone, Copy, PartialEq)]
enum ROp {
    Identity,
    Add,
    Relu,
    MatMul,
    ConcatAxis(i32),
    Shape,
}

/// FlatBuffers model: constants (node ids 0..), a value node per operator output, operators.
/// `ops`: (op, input node ids). Returns the finished buffer.
fn rten_flatbuffer(consts: &[RConst], ops: &[(ROp, Vec<i32>)], schema_version: i32, bad_output: Option<u32>) -> Vec<u8> {
    let mut b = flatbuffers::FlatBufferBuilder::with_capacity(1024);
    let mut nodes = vec![];
    for c in consts {
        let shape = b.create_vector(&c.dims[..]);
        let mut args = sg::ConstantNodeArgs { shape: Some(shape), data_type: sg::ConstantData::NONE, data: None, dtype: None, data_offset: None };
        match &c.data {
            RData::Inline(ty, n) => match ty {
                0 => {
                    let v: Vec<f32> = (0..*n).map(|i| i as f32).collect();
                    let v = b.create_vector(&v[..]);
                    args.data = Some(sg::FloatData::create(&mut b, &sg::FloatDataArgs { data: Some(v) }).as_union_value());
                    args.data_type = sg::ConstantData::FloatData;
                    args.dtype = Some(sg::ConstantDataType::Float32);
                }
                1 => {
                    let v: Vec<i32> = (0..*n).map(|i| i as i32).collect();
                    let v = b.create_vector(&v[..]);
                    args.data = Some(sg::Int32Data::create(&mut b, &sg::Int32DataArgs { data: Some(v) }).as_union_value());
                    args.data_type = sg::ConstantData::Int32Data;
                    args.dtype = Some(sg::ConstantDataType::Int32);
                }
                2 => {
                    let v: Vec<i8> = (0..*n).map(|i| i as i8).collect();
                    let v = b.create_vector(&v[..]);
                    args.data = Some(sg::Int8Data::create(&mut b, &sg::Int8DataArgs { data: Some(v) }).as_union_value());
                    args.data_type = sg::ConstantData::Int8Data;
                    args.dtype = Some(sg::ConstantDataType::Int8);
                }
                3 => {
                    let v: Vec<u8> = (0..*n).map(|i| i as u8).collect();
                    let v = b.create_vector(&v[..]);
                    args.data = Some(sg::UInt8Data::create(&mut b, &sg::UInt8DataArgs { data: Some(v) }).as_union_value());
                    args.data_type = sg::ConstantData::UInt8Data;
                    args.dtype = Some(sg::ConstantDataType::UInt8);
                }
                _ => {
                    args.dtype = Some(sg::ConstantDataType::Float32);
                }
            },
            RData::Stored(off, dt) => {
                args.data_offset = Some(*off);
                args.dtype = match dt {
                    0 => Some(sg::ConstantDataType::Float32),
                    1 => Some(sg::ConstantDataType::Int32),
                    2 => Some(sg::ConstantDataType::Int8),
                    3 => Some(sg::ConstantDataType::UInt8),
                    _ => None,
                };
            }
        }
        let cn = sg::ConstantNode::create(&mut b, &args);
        let name = b.create_string(&c.name);
        let node = sg::Node::create(&mut b, &sg::NodeArgs { name: Some(name), data_type: sg::NodeKind::ConstantNode, data: Some(cn.as_union_value()) });
        nodes.push(node);
    }
    let mut last_out = 0u32;
    for (i, (op, ins)) in ops.iter().enumerate() {
        // value node for the output
        let vn = sg::ValueNode::create(&mut b, &sg::ValueNodeArgs { shape: None, dtype: None });
        let name = b.create_string(&format!("y{i}"));
        let node = sg::Node::create(&mut b, &sg::NodeArgs { name: Some(name), data_type: sg::NodeKind::ValueNode, data: Some(vn.as_union_value()) });
        nodes.push(node);
        let out_id = (nodes.len() - 1) as i32;
        last_out = out_id as u32;
        let inputs = b.create_vector(&ins[..]);
        let outputs = b.create_vector(&[out_id][..]);
        let (ty, attrs_type, attrs) = match op {
            ROp::Identity => (sg::OperatorType::Identity, sg::OperatorAttrs::NONE, None),
            ROp::Add => (sg::OperatorType::Add, sg::OperatorAttrs::NONE, None),
            ROp::Relu => (sg::OperatorType::Relu, sg::OperatorAttrs::NONE, None),
            ROp::MatMul => (sg::OperatorType::MatMul, sg::OperatorAttrs::NONE, None),
            ROp::Shape => (sg::OperatorType::Shape, sg::OperatorAttrs::NONE, None),
            ROp::ConcatAxis(axis) => {
                let a = sg::ConcatAttrs::create(&mut b, &sg::ConcatAttrsArgs { axis: *axis });
                (sg::OperatorType::Concat, sg::OperatorAttrs::ConcatAttrs, Some(a.as_union_value()))
            }
        };
        let on = sg::OperatorNode::create(&mut b, &sg::OperatorNodeArgs { type_: ty, attrs_type, attrs, inputs: Some(inputs), outputs: Some(outputs) });
        let name = b.create_string(&format!("op{i}"));
        let node = sg::Node::create(&mut b, &sg::NodeArgs { name: Some(name), data_type: sg::NodeKind::OperatorNode, data: Some(on.as_union_value()) });
        nodes.push(node);
    }
    let nodes_v = b.create_vector(&nodes[..]);
    let inputs_v = b.create_vector::<u32>(&[]);
    let outputs_v = b.create_vector(&[bad_output.unwrap_or(last_out)][..]);
    let graph = sg::Graph::create(&mut b, &sg::GraphArgs { nodes: Some(nodes_v), inputs: Some(inputs_v), outputs: Some(outputs_v), captures: None });
    let model = sg::Model::create(&mut b, &sg::ModelArgs { schema_version, graph: Some(graph), metadata: None });
    b.finish(model, None);
    b.finished_data().to_vec()
}

/// V2 container: header + flatbuffer + tensor data.
fn rten_v2(fb: &[u8], tensor_data: &[u8]) -> Vec<u8> {
    let h = Header { version: 2, model_offset: 32, model_len: fb.len() as u64, tensor_data_offset: 32 + fb.len() as u64 };
    let mut f = h.to_buf().to_vec();
    f.extend_from_slice(fb);
    f.extend_from_slice(tensor_data);
    f
}

const RTYPES: [(&str, u64); 4] = [("f32", 4), ("i32", 4), ("i8", 1), ("u8", 1)];

fn case_rten_inline(rng: &mut Rng, k: usize) -> Case {
    let tyi = k % 5;
    let (dims, dkind, p) = gen_dims_u32(rng);
    let n = gen_count(rng, p) as usize;
    let ty_name = if tyi < 4 { RTYPES[tyi].0 } else { "other" };
    // member order of the union in the builder: 0 f32, 1 i32, 2 i8, 3 u8
    let c = RConst { name: "c".into(), dims: dims.clone(), data: RData::Inline(tyi as u8, n) };
    let k2 = RConst { name: "k".into(), dims: vec![2], data: RData::Inline(0, 2) };
    let fb = rten_flatbuffer(&[c, k2], &[(ROp::Identity, vec![0])], 1, None);
    let v2 = rng.chance(1, 2);
    let bytes = if v2 { rten_v2(&fb, &[]) } else { fb };
    let n_req = if tyi < 4 { n } else { 0 };
    Case {
        req: format!("{} {} inline {ty_name} {} n={n_req}", rten_kw(), mode_word(), dims_str(&dims)),
        fmt: Fmt::Rten,
        bytes,
        ext: vec![],
        answer: Answer::Constant,
        buckets: vec![format!("rten:inline:{ty_name}"), format!("rten:dims:{dkind}"), format!("rten:{}", if v2 { "v2" } else { "v1" })],
        nontrivial: true,
        via_file: k % 16 == 5,
        loader: 0,
    }
}

fn case_rten_stored(rng: &mut Rng, k: usize) -> Case {
    let tyi = k % 5;
    let (ty_name, size) = if tyi < 4 { RTYPES[tyi] } else { ("other", 1) };
    let (dims, dkind, p) = gen_dims_u32(rng);
    let n = gen_count(rng, p);
    // tensor data segment: [pad][n*size bytes][tail]
    let pad = *rng.pick(&[0u64, 0, 0, 4, 8, 1, 2, 3]);
    let tail = *rng.pick(&[0u64, 0, 1, 4, 7]);
    let data_len = pad + n * size + tail;
    let tdata: Vec<u8> = (0..data_len).map(|i| (i * 5 + 3) as u8).collect();
    let okind = rng.below(12);
    let off: u64 = match okind {
        0..=6 => pad,
        7 => data_len,
        8 => data_len + 1 + rng.below(8),
        9 => u64::MAX - rng.below(64),
        10 => (1u64 << 63) + rng.below(4),
        _ => rng.below(data_len + 2),
    };
    let dt_field = match tyi {
        0 => 0u8,
        1 => 1,
        2 => 2,
        3 => 3,
        _ => 4,
    };
    let c = RConst { name: "c".into(), dims: dims.clone(), data: RData::Stored(off, dt_field) };
    let k2 = RConst { name: "k".into(), dims: vec![2], data: RData::Inline(0, 2) };
    let fb = rten_flatbuffer(&[c, k2], &[(ROp::Identity, vec![0])], 1, None);
    let v1 = rng.chance(1, 12);
    let (bytes, tdo_s) = if v1 {
        (fb, "-".to_string())
    } else {
        let mut f = rten_v2(&fb, &tdata);
        let mut tdo = 32 + fb_len(&f);
        // occasionally move tensor_data_offset inside its valid range
        if rng.chance(1, 8) {
            tdo = *rng.pick(&[32u64, f.len() as u64, tdo.saturating_sub(4), (tdo + 4).min(f.len() as u64)]);
            f[24..32].copy_from_slice(&tdo.to_le_bytes());
        }
        (f, tdo.to_string())
    };
    let slen = bytes.len();
    Case {
        req: format!("{} {} stored {ty_name} {} tdo={tdo_s} off={off} slen={slen}", rten_kw(), mode_word(), dims_str(&dims)),
        fmt: Fmt::Rten,
        bytes,
        ext: vec![],
        answer: Answer::Constant,
        buckets: vec![
            format!("rten:stored:{ty_name}"),
            format!("rten:dims:{dkind}"),
            format!("rten:off:{}", match okind { 0..=6 => "start", 7 => "end", 8 => "past", 9 | 10 => "huge", _ => "random" }),
        ],
        nontrivial: true,
        via_file: k % 16 == 7,
        loader: 0,
    }
}

/// Several `.rten` constants (inline and stored) in one V2 file.
fn case_rten_all(rng: &mut Rng, k: usize) -> Case {
    let n = 2 + rng.usize_below(2);
    let mut consts = vec![];
    let mut frags = vec![];
    let tdata: Vec<u8> = (0..64u32).map(|i| i as u8).collect();
    for i in 0..n {
        let tyi = rng.usize_below(4);
        let (ty_name, size) = RTYPES[tyi];
        let (dims, p) = if rng.chance(2, 3) {
            let d: Vec<u32> = (0..rng.usize_below(3)).map(|_| rng.range_i64(1, 3) as u32).collect();
            let p: u64 = d.iter().map(|&x| x as u64).product();
            (d, Some(p))
        } else {
            let (d, _, p) = gen_dims_u32(rng);
            (d, p)
        };
        let name = if i == 0 { "c".to_string() } else { format!("c{i}") };
        if rng.chance(1, 2) {
            let cnt = if rng.chance(3, 4) { p.unwrap_or(1).min(64) as usize } else { gen_count(rng, p).min(64) as usize };
            consts.push(RConst { name, dims: dims.clone(), data: RData::Inline(tyi as u8, cnt) });
            frags.push(format!("inline {ty_name} {} n={cnt}", dims_str(&dims)));
        } else {
            let off = *rng.pick(&[0u64, 0, 4, 8, 16, 1, 60, 64, 65, u64::MAX - 3]);
            let _ = size;
            consts.push(RConst { name, dims: dims.clone(), data: RData::Stored(off, tyi as u8) });
            frags.push(format!("stored {ty_name} {} off={off}", dims_str(&dims)));
        }
    }
    let fb = rten_flatbuffer(&consts, &[(ROp::Identity, vec![0])], 1, None);
    let f = rten_v2(&fb, &tdata);
    let tdo = 32 + fb.len();
    let slen = f.len();
    let _ = k;
    Case {
        req: format!("rtenall {} tdo={tdo} slen={slen} | {}", mode_word(), frags.join(" | ")),
        fmt: Fmt::Rten,
        bytes: f,
        ext: vec![],
        answer: Answer::All(n),
        buckets: vec!["rtenall".into()],
        nontrivial: true,
        via_file: false,
        loader: 0,
    }
}

/// model_len field of a V2 file
fn fb_len(file: &[u8]) -> u64 {
    u64::from_le_bytes(file[16..24].try_into().unwrap())
}

fn valid_rten(rng: &mut Rng, v2: bool) -> Vec<u8> {
    let n1 = 6usize;
    let mut tdata = vec![];
    let mut consts = vec![];
    if v2 {
        for i in 0..n1 * 4 {
            tdata.push(i as u8);
        }
        consts.push(RConst { name: "a".into(), dims: vec![2, 3], data: RData::Stored(0, 0) });
        tdata.extend_from_slice(&[1, 2, 3, 4, 5, 6, 0, 0]);
        consts.push(RConst { name: "q".into(), dims: vec![6], data: RData::Stored(24, 3) });
    } else {
        consts.push(RConst { name: "a".into(), dims: vec![2, 3], data: RData::Inline(0, 6) });
        consts.push(RConst { name: "q".into(), dims: vec![6], data: RData::Inline(3, 6) });
    }
    consts.push(RConst { name: "b".into(), dims: vec![3, 2], data: RData::Inline(0, 6) });
    consts.push(RConst { name: "i".into(), dims: vec![2, 3], data: RData::Inline(1, 6) });
    let ops = vec![
        (ROp::MatMul, vec![0, 2]),
        (ROp::Relu, vec![4]),
        (ROp::ConcatAxis(if rng.chance(1, 2) { 0 } else { 1 }), vec![0, 0]),
        (ROp::Shape, vec![3]),
        (ROp::Add, vec![6, 6]),
    ];
    let fb = rten_flatbuffer(&consts, &ops, 1, None);
    if v2 {
        rten_v2(&fb, &tdata)
    } else {
        fb
    }
}

fn valid_onnx(rng: &mut Rng) -> (Vec<u8>, Vec<(String, Vec<u8>)>) {
    use onnx_enc::{dt, Attr, Graph, Node, Tensor, ValueInfo};
    let mut inits = vec![
        Tensor::f32s("w", &[3, 2], &[1.0, 2.0, 3.0, 4.0, 5.0, 6.0]),
        Tensor::f32s("bias", &[2], &[0.5, -0.5]),
        Tensor::i64s("shape", &[2], &[1, -1]),
        Tensor::i64s("c", &[3], &[7, 8, 9]),
    ];
    let mut ext = vec![];
    if rng.chance(1, 3) {
        inits.push(Tensor { name: "e".into(), dtype: dt::FLOAT, dims: vec![2], data: onnx_enc::TensorData::External("w.data".into(), Some(0), Some(8)) });
        ext.push(("w.data".to_string(), vec![0u8; 8]));
    }
    let g = Graph {
        nodes: vec![
            Node::new("MatMul", "mm", &["x", "w"], &["t"]),
            Node::new("Add", "add", &["t", "bias"], &["u"]),
            Node::new("Relu", "relu", &["u"], &["v"]),
            Node::new("Reshape", "rs", &["v", "shape"], &["y"]),
            Node::new("Identity", "id", &["c"], &["z"]),
            Node::new("Transpose", "tr", &["w"], &["wt"]).attr("perm", Attr::Ints(vec![1, 0])),
        ],
        initializers: inits,
        inputs: vec![ValueInfo::fixed("x", dt::FLOAT, &[1, 3])],
        outputs: vec![ValueInfo::new("y", dt::FLOAT, None), ValueInfo::new("z", dt::INT64, None), ValueInfo::new("wt", dt::FLOAT, None)],
        ..Default::default()
    };
    (g.into_model_bytes(21), ext)
}

fn mutate(rng: &mut Rng, b: &mut Vec<u8>, lo: usize) -> &'static str {
    if b.len() <= lo {
        b.resize(lo + 4, 0);
    }
    let n = b.len();
    match rng.below(9) {
        0 => {
            let k = 1 + rng.usize_below(4);
            for _ in 0..k {
                let i = lo + rng.usize_below(n - lo);
                b[i] ^= 1 << rng.below(8);
            }
            "bitflip"
        }
        1 => {
            let i = lo + rng.usize_below(n - lo);
            b[i] = *rng.pick(&[0u8, 0xff, 0x80, 0x7f, 1]);
            "byteset"
        }
        2 => {
            let t = lo + rng.usize_below(n - lo);
            b.truncate(t);
            "truncate"
        }
        3 => {
            // overwrite an aligned u32 (offsets, vtable entries, lengths)
            let i = (lo + rng.usize_below(n - lo)) & !3;
            if i + 4 <= n {
                let v: u32 = *rng.pick(&[0u32, 1, 4, 0xffff_ffff, 0x7fff_ffff, 0x8000_0000, n as u32, (n as u32).wrapping_sub(4), 0xffff_fffc, 8, 16]);
                b[i..i + 4].copy_from_slice(&v.to_le_bytes());
            }
            "u32set"
        }
        4 => {
            let i = (lo + rng.usize_below(n - lo)) & !1;
            if i + 2 <= n {
                let v: u16 = *rng.pick(&[0u16, 2, 4, 0xffff, 0x7fff, 6, 0x100]);
                b[i..i + 2].copy_from_slice(&v.to_le_bytes());
            }
            "u16set"
        }
        5 => {
            let i = lo + rng.usize_below(n - lo);
            let k = 1 + rng.usize_below(8);
            for _ in 0..k {
                b.insert(i, rng.next_u64() as u8);
            }
            "insert"
        }
        6 => {
            let i = lo + rng.usize_below(n - lo);
            let k = (1 + rng.usize_below(8)).min(n - i);
            b.drain(i..i + k);
            "delete"
        }
        7 => {
            // copy a chunk over another place
            let k = 1 + rng.usize_below(16.min(n - lo));
            let s = lo + rng.usize_below(n - lo - k + 1);
            let d = lo + rng.usize_below(n - lo - k + 1);
            let chunk = b[s..s + k].to_vec();
            b[d..d + k].copy_from_slice(&chunk);
            "splice"
        }
        _ => {
            // protobuf-style huge varint at a random place
            let i = lo + rng.usize_below(n - lo);
            let mut v = vec![];
            varint(&mut v, *rng.pick(&[u64::MAX, u64::MAX - 10, 1 << 63, (1 << 63) - 1, 1 << 32, 0x7fff_ffff]));
            for (j, x) in v.into_iter().enumerate() {
                if i + j < b.len() {
                    b[i + j] = x;
                }
            }
            "varint"
        }
    }
}

fn sample_files() -> Vec<Vec<u8>> {
    let repo = std::env::var("VERIF_REPO").unwrap_or("/repo".into());
    ["model-load-file-test.rten", "model-load-mmap-test.rten"]
        .iter()
        .filter_map(|f| std::fs::read(format!("{repo}/{f}")).ok())
        .collect()
}

fn case_fuzz(rng: &mut Rng, k: usize) -> Case {
    if k % 40 == 7 {
        return case_bad_ids(rng, k);
    }
    let samples = sample_files();
    let base_kind = k % 6;
    let (mut bytes, ext, fmt, base): (Vec<u8>, Vec<(String, Vec<u8>)>, Fmt, &str) = match base_kind {
        0 | 1 => {
            let (b, e) = valid_onnx(rng);
            (b, e, Fmt::Onnx, "onnx")
        }
        2 => (valid_rten(rng, true), vec![], Fmt::Rten, "rten-v2"),
        3 => (valid_rten(rng, false), vec![], Fmt::Rten, "rten-v1"),
        4 if !samples.is_empty() => (samples[k / 6 % samples.len()].clone(), vec![], Fmt::Rten, "rten-sample"),
        4 => (valid_rten(rng, true), vec![], Fmt::Rten, "rten-v2"),
        _ => {
            // random bytes with a plausible prefix
            let n = rng.usize_below(96);
            let mut b: Vec<u8> = (0..n).map(|_| rng.next_u64() as u8).collect();
            let fmt = match rng.below(4) {
                0 => {
                    let mut p = b"RTEN".to_vec();
                    p.extend_from_slice(&2u32.to_le_bytes());
                    if rng.chance(1, 2) {
                        p.extend_from_slice(&32u64.to_le_bytes());
                    }
                    p.append(&mut b);
                    b = p;
                    Fmt::Rten
                }
                1 => {
                    let mut p = vec![0x08, 0x08, 0x3a];
                    p.append(&mut b);
                    b = p;
                    Fmt::Onnx
                }
                2 => Fmt::Rten,
                _ => Fmt::Onnx,
            };
            (b, vec![], fmt, "random")
        }
    };
    let mut muts = vec![];
    if base != "random" {
        let nm = if k % 50 == 0 { 0 } else { 1 + rng.usize_below(3) };
        for _ in 0..nm {
            // mostly keep the header of V2 files intact so that mutations land in the flatbuffer
            let lo = if base.starts_with("rten") && bytes.starts_with(b"RTEN") && rng.chance(5, 6) { 32 } else { 0 };
            muts.push(mutate(rng, &mut bytes, lo));
        }
    }
    let mkind = if muts.is_empty() { "none".to_string() } else { muts.join("+") };
    Case {
        req: format!("# fuzz {base} {mkind} k={k} len={}", bytes.len()),
        fmt,
        bytes,
        ext,
        answer: Answer::Class,
        buckets: vec![format!("fuzz:{base}"), format!("fuzz:mut:{}", muts.first().copied().unwrap_or("none"))],
        nontrivial: true,
        via_file: k % 8 == 1,
        loader: 0,
    }
}

/// Valid flatbuffers whose node references are out of range.
fn case_bad_ids(rng: &mut Rng, k: usize) -> Case {
    let consts = vec![
        RConst { name: "a".into(), dims: vec![2], data: RData::Inline(0, 2) },
        RConst { name: "b".into(), dims: vec![2], data: RData::Inline(0, 2) },
    ];
    let bad = *rng.pick(&[4u32, 5, 100, i32::MAX as u32, i32::MAX as u32 + 1, u32::MAX, u32::MAX - 1, 0, 1, 3]);
    let (what, fb) = match rng.below(3) {
        0 => ("graph-output", rten_flatbuffer(&consts, &[(ROp::Add, vec![0, 1])], 1, Some(bad))),
        1 => ("op-input", rten_flatbuffer(&consts, &[(ROp::Add, vec![0, bad as i32])], 1, None)),
        _ => ("op-input+output", rten_flatbuffer(&consts, &[(ROp::Add, vec![bad as i32, 1]), (ROp::Relu, vec![bad as i32])], 1, Some(bad))),
    };
    let bytes = if rng.chance(1, 2) { rten_v2(&fb, &[]) } else { fb };
    Case {
        req: format!("# ids {what} id={bad} k={k}"),
        fmt: Fmt::Rten,
        bytes,
        ext: vec![],
        answer: Answer::Class,
        buckets: vec![format!("ids:{what}")],
        nontrivial: true,
        via_file: false,
        loader: 0,
    }
}

fn case_header(rng: &mut Rng, k: usize) -> Case {
    let mut f = valid_rten(rng, true);
    let flen0 = f.len() as u64;
    let mlen = fb_len(&f);
    // optionally truncate the file first (keeping at least the header)
    if rng.chance(1, 4) {
        let t = 32 + rng.usize_below(f.len() - 31);
        f.truncate(t);
    }
    let flen = f.len() as u64;
    let version = *rng.pick(&[2u32, 2, 2, 2, 1, 3, 0, u32::MAX]);
    let mo = *rng.pick(&[32u64, 32, 32, 31, 0, flen, flen + 1, u64::MAX, 33, 36, flen - 1, 1 << 63, u64::MAX - 31]);
    let ml = *rng.pick(&[mlen, mlen, mlen, mlen + 1, flen, flen - 32, u64::MAX, u64::MAX - 31, u64::MAX - 32, 0, 1 << 63, flen0, (1u64 << 63) - 32]);
    let tdo = *rng.pick(&[32 + mlen, 32 + mlen, 32, 31, flen, flen + 1, u64::MAX, 0, 1 << 63]);
    let h = Header { version, model_offset: mo, model_len: ml, tensor_data_offset: tdo };
    f[..32].copy_from_slice(&h.to_buf());
    let _ = k;
    Case {
        req: format!("hdr {} {version} {mo} {ml} {tdo} {flen}", mode_word()),
        fmt: Fmt::Rten,
        bytes: f,
        ext: vec![],
        answer: Answer::Header,
        buckets: vec!["hdr".into()],
        nontrivial: true,
        via_file: k % 8 == 2,
        loader: 0,
    }
}

/// Load-time work probes: small files that ask the loader (constant propagation in the graph
/// optimizer) for a lot of work or memory.
fn case_probe(_rng: &mut Rng, k: usize) -> Case {
    use onnx_enc::{dt, Attr, Graph, Node, Tensor, ValueInfo};
    let (name, g): (&str, Graph) = match k % 4 {
        3 => (
            "range_0_2^31",
            Graph {
                nodes: vec![Node::new("Range", "r", &["a", "b", "c"], &["y"])],
                initializers: vec![Tensor::i32s("a", &[], &[0]), Tensor::i32s("b", &[], &[i32::MAX]), Tensor::i32s("c", &[], &[1])],
                outputs: vec![ValueInfo::new("y", dt::INT32, None)],
                ..Default::default()
            },
        ),
        0 => (
            "constant_of_shape_2^31x2^31",
            Graph {
                nodes: vec![Node::new("ConstantOfShape", "cos", &["s"], &["y"])],
                initializers: vec![Tensor::i64s("s", &[2], &[1 << 31, 1 << 31])],
                outputs: vec![ValueInfo::new("y", dt::FLOAT, None)],
                ..Default::default()
            },
        ),
        1 => (
            "expand_to_2^20x2^20",
            Graph {
                nodes: vec![Node::new("Expand", "e", &["x", "s"], &["y"])],
                initializers: vec![Tensor::f32s("x", &[1], &[1.0]), Tensor::i64s("s", &[2], &[1 << 20, 1 << 20])],
                outputs: vec![ValueInfo::new("y", dt::FLOAT, None)],
                ..Default::default()
            },
        ),
        _ => (
            "tile_2^31",
            Graph {
                nodes: vec![Node::new("Tile", "t", &["x", "r"], &["y"])],
                initializers: vec![Tensor::f32s("x", &[4], &[1.0, 2.0, 3.0, 4.0]), Tensor::i64s("r", &[1], &[1 << 31])],
                outputs: vec![ValueInfo::new("y", dt::FLOAT, None)],
                ..Default::default()
            },
        ),
    };
    Case {
        req: format!("# probe {name}"),
        fmt: Fmt::Onnx,
        bytes: g.into_model_bytes(21),
        ext: vec![],
        answer: Answer::Class,
        buckets: vec!["probe".into()],
        nontrivial: true,
        via_file: false,
        loader: 0,
    }
}

/// ONNX files whose embedded messages nest `depth` levels below the top-level `ModelProto`,
/// following the recursive part of the schema: ModelProto.graph(7) -> GraphProto.node(1) ->
/// NodeProto.attribute(5) -> AttributeProto.g(6) -> GraphProto.node(1) -> ...
/// `subgraph`: every node is a well-formed `If`-style node (op_type, name, attribute name and
/// type GRAPH); `raw`: nothing but the nested length-delimited headers; `unknown`: the same
/// headers with a field number the decoder skips (no recursion expected).
/// Built in linear time (sizes inside-out, bytes outside-in): depth 200000 is ~1 MB.
fn nested_onnx(kind: &str, depth: usize) -> Vec<u8> {
    // message type at level k (1-based): 1 = GraphProto (via ModelProto.graph), then node,
    // attribute, g, node, ...
    let field_no = |k: usize| -> u64 {
        if kind == "unknown" {
            return 15;
        }
        if k == 1 {
            7
        } else {
            [1u64, 5, 6][(k - 2) % 3]
        }
    };
    // extra (sibling) fields of the message AT level k, emitted after its child
    let extras = |k: usize| -> Vec<u8> {
        let mut e = Vec::new();
        if kind != "subgraph" || k == 0 {
            return e;
        }
        match if k == 1 { 2 } else { (k - 2) % 3 } {
            0 => {
                // NodeProto
                f_str(&mut e, 3, "n");
                f_str(&mut e, 4, "If");
            }
            1 => {
                // AttributeProto
                f_str(&mut e, 1, "then_branch");
                f_i64(&mut e, 20, 5);
            }
            _ => {
                // GraphProto
                f_str(&mut e, 2, "g");
            }
        }
        e
    };
    let varint_len = |mut v: u64| -> usize {
        let mut n = 1;
        while v >= 0x80 {
            v >>= 7;
            n += 1;
        }
        n
    };
    // size[k] = number of content bytes of the message at level k
    let mut size = vec![0usize; depth + 1];
    if depth > 0 {
        size[depth] = extras(depth).len();
        for k in (1..depth).rev() {
            let child = size[k + 1];
            size[k] = 1 + varint_len(child as u64) + child + extras(k).len();
        }
    }
    let mut o = Vec::new();
    f_i64(&mut o, 1, 8); // ir_version
    for k in 1..=depth {
        varint(&mut o, field_no(k) << 3 | 2);
        varint(&mut o, size[k] as u64);
    }
    for k in (1..=depth).rev() {
        o.extend_from_slice(&extras(k));
    }
    let mut os = Vec::new();
    f_str(&mut os, 1, "");
    f_i64(&mut os, 2, 21);
    f_bytes(&mut o, 8, &os);
    o
}

const NEST_DEPTHS: [usize; 8] = [1, 50, 99, 100, 101, 300, 3000, 200000];
const NEST_DEPTHS_MORE: [usize; 10] = [2, 3, 4, 97, 98, 102, 103, 1000, 20000, 60000];

fn case_nest(_rng: &mut Rng, k: usize) -> Case {
    let kind = ["subgraph", "raw", "unknown"][k % 3];
    let i = k / 3;
    let depth = if i < NEST_DEPTHS.len() { NEST_DEPTHS[i] } else { NEST_DEPTHS_MORE[(i - NEST_DEPTHS.len()) % NEST_DEPTHS_MORE.len()] };
    let compared = kind != "unknown";
    Case {
        req: format!("{}nest {kind} {depth}", if compared { "" } else { "# " }),
        fmt: Fmt::Onnx,
        bytes: nested_onnx(kind, depth),
        ext: vec![],
        answer: if compared { Answer::Parse } else { Answer::Class },
        buckets: vec![format!("nest:{kind}"), format!("nest:depth:{}", if depth <= 100 { "<=100" } else if depth <= 3000 { "101..3000" } else { ">3000" })],
        nontrivial: true,
        via_file: true,
        loader: 0,
    }
}

// ---- plan ----

#[derive(Clone, Copy)]
enum Cat {
    Onnx,
    RtenInline,
    RtenStored,
    Header,
    Fuzz,
    Nest,
    OnnxAll,
    RtenAll,
    ConstOp,
    AttrConst,
    Probe,
}

fn plan(thorough: bool) -> Vec<(Cat, usize)> {
    let m = if thorough { 12 } else { 1 };
    vec![
        (Cat::Onnx, 9000 * m),
        (Cat::RtenInline, 3000 * m),
        (Cat::RtenStored, 6000 * m),
        (Cat::Header, 1500 * m),
        (Cat::Fuzz, 12000 * m),
        (Cat::Nest, if thorough { 3 * 18 } else { 3 * 8 }),
        (Cat::OnnxAll, 2000 * m),
        (Cat::RtenAll, 1500 * m),
        (Cat::ConstOp, 2500 * m),
        (Cat::AttrConst, 200 * m),
        (Cat::Probe, if thorough { 4 } else { 3 }),
    ]
}

fn total_cases(thorough: bool) -> usize {
    plan(thorough).iter().map(|p| p.1).sum()
}

fn gen_case(seed: u64, thorough: bool, idx: usize) -> Case {
    let mut rng = Rng::new(seed.wrapping_mul(0x9E37_79B9).wrapping_add(idx as u64 * 0x1_0000_0001 + 17));
    let mut k = idx;
    for (cat, n) in plan(thorough) {
        if k < n {
            return match cat {
                Cat::Onnx => case_onnx(&mut rng, k),
                Cat::RtenInline => case_rten_inline(&mut rng, k),
                Cat::RtenStored => case_rten_stored(&mut rng, k),
                Cat::Header => case_header(&mut rng, k),
                Cat::Fuzz => case_fuzz(&mut rng, k),
                Cat::Nest => case_nest(&mut rng, k),
                Cat::OnnxAll => case_onnx_all(&mut rng, k),
                Cat::RtenAll => case_rten_all(&mut rng, k),
                Cat::ConstOp => case_constop(&mut rng, k),
                Cat::AttrConst => case_attrconst(&mut rng, k),
                Cat::Probe => case_probe(&mut rng, k),
            };
        }
        k -= n;
    }
    unreachable!()
}

// ---------------------------------------------------------------------------------------------
// Running one case (child side)

fn classify_err(msg: &str) -> String {
    let pats: [(&str, &str); 17] = [
        ("initializer has invalid shape", "shape"),
        ("unsupported data location", "location"),
        ("invalid external data", "extmeta"),
        ("missing external data", "extmeta"),
        ("unsupported external data key", "extmeta"),
        ("external data error", "extdata"),
        ("unsupported data type", "dtype"),
        ("missing data type", "dtype"),
        ("incorrect alignment", "align"),
        ("not 2-byte aligned", "align"),
        ("does not match shape", "mismatch"),
        ("invalid tensor data offset", "offset"),
        ("tensor data section missing", "nodata"),
        ("invalid header", "header"),
        ("operator error", "opinvalid"),
        ("parse error", "parse"),
        ("unknown model file type", "filetype"),
    ];
    for (p, c) in pats {
        if msg.contains(p) {
            return format!("err:{c}");
        }
    }
    "err:other".into()
}

fn check_view<T: Copy>(name: &str, t: TensorView<T>) -> Result<(Vec<usize>, usize), String> {
    let shape = t.shape().to_vec();
    let mut p: u128 = 1;
    for &d in &shape {
        p = p.saturating_mul(d as u128);
    }
    let len = t.len();
    if p != len as u128 {
        return Err(format!("constant {name}: product of shape {shape:?} is {p} but len() is {len}"));
    }
    if len > isize::MAX as usize / std::mem::size_of::<T>().max(1) {
        return Err(format!("constant {name}: {len} elements do not fit in memory"));
    }
    let Some(data) = t.data() else {
        return Err(format!("constant {name}: not contiguous"));
    };
    if data.len() != len {
        return Err(format!("constant {name}: shape {shape:?} has {len} elements but the data has {}", data.len()));
    }
    if len > 0 {
        // read the last element through the indexing API and through the backing slice
        let last: Vec<usize> = shape.iter().map(|d| d - 1).collect();
        let a = t.get(last.as_slice()).copied();
        let b = std::hint::black_box(data[len - 1]);
        if a.is_none() {
            return Err(format!("constant {name}: last index {last:?} is rejected"));
        }
        let _ = b;
        if len <= 4096 && t.iter().count() != len {
            return Err(format!("constant {name}: iterator yields a different number of elements"));
        }
    }
    Ok((shape, data.len()))
}

/// Oracle over every constant of a loaded model; returns (name, shape, data len) of each.
fn check_model(model: &Model) -> Result<Vec<(String, Vec<usize>, usize)>, String> {
    let mut all = vec![];
    for (_id, node) in model.verif_graph().iter() {
        if let rv::Node::Constant(c) = node {
            let name = c.name().unwrap_or("").to_string();
            let r = match c.as_view() {
                rten::ValueView::FloatTensor(t) => check_view(&name, t)?,
                rten::ValueView::Int32Tensor(t) => check_view(&name, t)?,
                rten::ValueView::Int8Tensor(t) => check_view(&name, t)?,
                rten::ValueView::UInt8Tensor(t) => check_view(&name, t)?,
                _ => continue,
            };
            all.push((name, r.0, r.1));
        }
    }
    Ok(all)
}

fn value_len(v: &rten::Value) -> Option<usize> {
    Some(match v {
        rten::Value::FloatTensor(t) => t.len(),
        rten::Value::Int32Tensor(t) => t.len(),
        rten::Value::Int8Tensor(t) => t.len(),
        rten::Value::UInt8Tensor(t) => t.len(),
        _ => return None,
    })
}

struct Res {
    ans: String,
    propfail: Option<String>,
    extra_buckets: Vec<String>,
}

fn run_case(case: &Case, idx: usize, tmp: &str) -> Res {
    let mut fails: Vec<String> = vec![];
    let mut extra = vec![];
    // 1. the load whose outcome is reported: all ops, optimizer off (constants stay as loaded)
    let mut opts = ModelOptions::with_all_ops();
    opts.enable_optimization(false);
    for (p, b) in &case.ext {
        opts.external_data(p, b.clone());
    }
    let bytes = case.bytes.clone();
    let r = if case.loader == 0 {
        catchl(|| opts.load(bytes))
    } else {
        // the file based entry points, with the external data files next to the model
        let dir = format!("{tmp}/c{idx}");
        let _ = std::fs::create_dir_all(&dir);
        let path = format!("{dir}/m.{}", if case.fmt == Fmt::Onnx { "onnx" } else { "rten" });
        let _ = std::fs::write(&path, &case.bytes);
        for (p, b) in &case.ext {
            let _ = std::fs::write(format!("{dir}/{p}"), b);
        }
        let r = if case.loader == 1 { catchl(|| opts.load_file(&path)) } else { catchl(|| unsafe { opts.load_mmap(&path) }) };
        let _ = std::fs::remove_dir_all(&dir);
        r
    };
    let mut class;
    let mut ans = match &r {
        Ok(Ok(model)) => {
            class = "ok";
            match catchl(|| check_model(model)) {
                Ok(Ok(all)) => {
                    let find = |n: &str| all.iter().find(|c| c.0 == n).map(|c| format!("{} {}", dims_str(&c.1), c.2));
                    match case.answer {
                        Answer::All(n) => {
                            let parts: Vec<String> = (0..n)
                                .map(|i| find(&if i == 0 { "c".to_string() } else { format!("c{i}") }).unwrap_or("missing".into()))
                                .collect();
                            format!("ok {}", parts.join(";"))
                        }
                        Answer::Unnamed => {
                            let un: Vec<String> = all.iter().filter(|c| c.0.is_empty()).map(|c| format!("{} {}", dims_str(&c.1), c.2)).collect();
                            if un.len() == 1 { format!("ok {}", un[0]) } else { format!("ok unnamed-constants={}", un.len()) }
                        }
                        _ => match find("c") {
                            Some(x) => format!("ok {x}"),
                            None => "ok".to_string(),
                        },
                    }
                }
                Ok(Err(m)) => {
                    fails.push(m);
                    "ok".to_string()
                }
                Err(m) => {
                    fails.push(format!("reading the constants of the loaded model panicked: {m}"));
                    "ok".to_string()
                }
            }
        }
        Ok(Err(e)) => {
            class = "err";
            classify_err(&e.to_string())
        }
        Err(m) => {
            class = "panic";
            fails.push(format!("load panicked: {m}"));
            "panic".to_string()
        }
    };
    // run the model (no inputs needed for the Identity-of-constant models)
    if let (Ok(Ok(model)), Answer::Constant) = (&r, case.answer) {
        if let Ok(y) = model.node_id("y") {
            match catchl(|| model.run(vec![], &[y], None)) {
                Ok(Ok(out)) => {
                    if let (Some(v), true) = (out.first(), ans.starts_with("ok ")) {
                        let want: usize = ans.rsplit(' ').next().unwrap().parse().unwrap_or(usize::MAX);
                        let got = value_len(v);
                        if got != Some(want) {
                            fails.push(format!("Identity(c) returned {got:?} elements, constant has {want}"));
                        }
                    }
                }
                Ok(Err(_)) => {}
                Err(m) => fails.push(format!("running Identity on the constant panicked: {m}")),
            }
        }
    }
    // models from mutated files: try to run them without inputs.  A panic here is not a C05
    // failure (running is C02/C04 territory) but is reported in the histogram.
    if let (Ok(Ok(model)), Answer::Class) = (&r, case.answer) {
        let outs = model.output_ids().to_vec();
        if !case.req.starts_with("# probe") {
            match catchl(|| model.run(vec![], &outs, None).map(|_| ())) {
                Ok(Ok(())) => extra.push("run:ok".into()),
                Ok(Err(_)) => extra.push("run:err".into()),
                Err(m) => extra.push(format!("run:panic:{}", m.chars().take(60).collect::<String>().replace(',', ";"))),
            }
        }
    }
    drop(r);
    match case.answer {
        Answer::Header => {
            ans = if ans == "err:header" { ans } else if class == "panic" { "panic".into() } else { "ok".into() };
        }
        Answer::Class => {
            extra.push(format!("fuzz:out:{}", if class == "err" { ans.as_str() } else { class }));
            ans = class.to_string();
        }
        Answer::Parse => {
            ans = if class == "panic" { "panic".into() } else if ans == "err:parse" { ans } else { "past-parse".into() };
        }
        Answer::Constant | Answer::All(_) | Answer::Unnamed => {}
    }
    extra.push(format!("out:{}", ans.split(' ').next().unwrap()));
    // 2. default options (optimizer + shape inference on)
    {
        let mut opts = ModelOptions::with_all_ops();
        for (p, b) in &case.ext {
            opts.external_data(p, b.clone());
        }
        let bytes = case.bytes.clone();
        match catchl(|| opts.load(bytes).map(|m| catchl(|| check_model(&m)))) {
            Ok(Ok(Ok(Ok(_)))) => {
                if class == "err" {
                    class = "err/ok-opt";
                }
            }
            Ok(Ok(Ok(Err(m)))) => fails.push(format!("(optimized load) {m}")),
            Ok(Ok(Err(m))) => fails.push(format!("(optimized load) reading constants panicked: {m}")),
            Ok(Err(_)) => {}
            Err(m) => fails.push(format!("load with default options panicked: {m}")),
        }
    }
    // 3. the file based loaders
    if case.via_file {
        let ext = if case.fmt == Fmt::Onnx { "onnx" } else { "rten" };
        let path = format!("{tmp}/case_{idx}.{ext}");
        if std::fs::write(&path, &case.bytes).is_ok() {
            for (p, b) in &case.ext {
                let _ = std::fs::write(format!("{tmp}/{p}"), b);
            }
            let opts = ModelOptions::with_all_ops();
            match catchl(|| opts.load_file(&path).map(|m| catchl(|| check_model(&m)))) {
                Ok(Ok(Ok(Err(m)))) => fails.push(format!("(load_file) {m}")),
                Ok(Ok(Err(m))) => fails.push(format!("(load_file) reading constants panicked: {m}")),
                Err(m) => fails.push(format!("load_file panicked: {m}")),
                _ => {}
            }
            match catchl(|| unsafe { opts.load_mmap(&path) }.map(|m| catchl(|| check_model(&m)))) {
                Ok(Ok(Ok(Err(m)))) => fails.push(format!("(load_mmap) {m}")),
                Ok(Ok(Err(m))) => fails.push(format!("(load_mmap) reading constants panicked: {m}")),
                Err(m) => fails.push(format!("load_mmap panicked: {m}")),
                _ => {}
            }
            let _ = std::fs::remove_file(&path);
            for (p, _) in &case.ext {
                let _ = std::fs::remove_file(format!("{tmp}/{p}"));
            }
            extra.push("via:file+mmap".into());
        }
    }
    let _ = class;
    Res { ans, propfail: if fails.is_empty() { None } else { Some(fails.join("; ")) }, extra_buckets: extra }
}

fn arg_after(name: &str) -> Option<String> {
    let a: Vec<String> = std::env::args().collect();
    a.iter().position(|x| x == name).and_then(|i| a.get(i + 1).cloned())
}

fn child_main(seed: u64, thorough: bool) {
    install_location_hook(std::env::var("C05_LOUD").is_ok());
    let from: usize = arg_after("--from").unwrap().parse().unwrap();
    let res_path = arg_after("--res").unwrap();
    let tmp = arg_after("--tmp").unwrap();
    let mark = std::fs::File::create(format!("{res_path}.mark")).unwrap();
    {
        use std::os::fd::IntoRawFd;
        MARK_FD.store(mark.into_raw_fd(), Ordering::Relaxed);
    }
    let mut f = std::fs::File::create(&res_path).unwrap();
    let total = total_cases(thorough);
    let total = if std::env::var("C05_ONE").is_ok() { from + 1 } else { total };
    for idx in from..total {
        let case = gen_case(seed, thorough, idx);
        if let Ok(p) = std::env::var("C05_DUMP") {
            let _ = std::fs::write(&p, &case.bytes);
        }
        // announce the case before running it: a crash is attributed to the announced index
        writeln!(f, "start\t{idx}").unwrap();
        let r = run_case(&case, idx, &tmp);
        writeln!(
            f,
            "done\t{idx}\t{}\t{}\t{}",
            r.ans,
            r.propfail.unwrap_or_default().replace(['\t', '\n'], " "),
            r.extra_buckets.join(",")
        )
        .unwrap();
    }
    writeln!(f, "end\tpeak_bytes={}", PEAK.load(Ordering::Relaxed)).unwrap();
}

// ---------------------------------------------------------------------------------------------
// Parent

fn main() {
    let args = hcommon::parse_args();
    if std::env::args().any(|a| a == "--child") {
        child_main(args.seed, args.thorough);
        return;
    }
    let total = total_cases(args.thorough);
    let tmp = format!("{}/tmp", args.out);
    std::fs::create_dir_all(&tmp).unwrap();
    let exe = std::env::current_exe().unwrap();
    // idx -> (ans, propfail, buckets)
    let mut results: Vec<Option<(String, String, String)>> = vec![None; total];
    let mut from = 0usize;
    let mut rounds = 0;
    let mut peak = String::new();
    let stall = std::time::Duration::from_secs(if args.thorough { 60 } else { 20 });
    while from < total {
        rounds += 1;
        let res_path = format!("{tmp}/res_{from}.txt");
        let mut child = std::process::Command::new(&exe)
            .args(["--child", "--seed", &args.seed.to_string(), "--tier", if args.thorough { "thorough" } else { "quick" }])
            .args(["--from", &from.to_string(), "--res", &res_path, "--tmp", &tmp])
            .stdout(std::process::Stdio::null())
            .stderr(std::process::Stdio::null())
            .spawn()
            .expect("spawn child");
        let mut last_size = 0u64;
        let mut last_change = std::time::Instant::now();
        let mut hung = false;
        let status = loop {
            if let Some(st) = child.try_wait().unwrap() {
                break Some(st);
            }
            std::thread::sleep(std::time::Duration::from_millis(20));
            let sz = std::fs::metadata(&res_path).map(|m| m.len()).unwrap_or(0);
            if sz != last_size {
                last_size = sz;
                last_change = std::time::Instant::now();
            } else if last_change.elapsed() > stall {
                let _ = child.kill();
                let _ = child.wait();
                hung = true;
                break None;
            }
        };
        let text = std::fs::read_to_string(&res_path).unwrap_or_default();
        let mut started: Option<usize> = None;
        let mut next = from;
        let mut finished = false;
        for line in text.lines() {
            let parts: Vec<&str> = line.split('\t').collect();
            match parts[0] {
                "start" => started = parts.get(1).and_then(|x| x.parse().ok()),
                "done" if parts.len() >= 5 => {
                    let idx: usize = parts[1].parse().unwrap();
                    results[idx] = Some((parts[2].to_string(), parts[3].to_string(), parts[4].to_string()));
                    started = None;
                    next = idx + 1;
                }
                "end" => {
                    finished = true;
                    peak = parts.get(1).unwrap_or(&"").to_string();
                }
                _ => {}
            }
        }
        let alloc = std::fs::read_to_string(format!("{res_path}.mark")).map(|s| s.contains("alloc")).unwrap_or(false);
        let _ = std::fs::remove_file(&res_path);
        let _ = std::fs::remove_file(format!("{res_path}.mark"));
        if finished {
            break;
        }
        // the child died or hung while running `started`
        let bad = started.unwrap_or(next).min(total - 1);
        let what = if hung {
            "hang".to_string()
        } else if alloc {
            "alloc".to_string()
        } else {
            use std::os::unix::process::ExitStatusExt;
            match status.and_then(|s| s.signal()) {
                Some(sig) => format!("crash:signal{sig}"),
                None => format!("crash:exit{}", status.and_then(|s| s.code()).unwrap_or(-1)),
            }
        };
        // What the property text promises is termination with a model or an error and no panic /
        // UB.  Our own 2 GiB cap firing is a resource observation (docs/security.md disclaims
        // resource limits), not a failure; so is a load-time work probe that is merely slow.
        let is_probe = gen_case(args.seed, args.thorough, bad).req.starts_with("# probe");
        let observation = what == "alloc" || (what == "hang" && is_probe);
        let detail = match what.as_str() {
            "hang" => "loading did not finish (no progress for 20 s / 60 s thorough)".to_string(),
            "alloc" => "loading allocated more than 2 GiB for a tiny file".to_string(),
            _ => format!("the process died while loading ({what})"),
        };
        if observation {
            results[bad] = Some((what.clone(), String::new(), format!("observe:{what},out:{what}")));
        } else {
            results[bad] = Some((what, detail, "out:crash".into()));
        }
        from = bad + 1;
        if rounds > 200 {
            break;
        }
    }
    let _ = std::fs::remove_dir_all(&tmp);

    let mut out = Out::new(&args.out);
    for idx in 0..total {
        let case = gen_case(args.seed, args.thorough, idx);
        for b in &case.buckets {
            out.bucket(b);
        }
        match &results[idx] {
            Some((ans, pf, buckets)) => {
                for b in buckets.split(',').filter(|b| !b.is_empty()) {
                    out.bucket(b);
                }
                out.case(&case.req, ans, if pf.is_empty() { None } else { Some(pf) }, case.nontrivial);
            }
            None => {
                out.case(&case.req, "not-run", Some("case was not executed (too many crashes before it)"), false);
            }
        }
    }
    out.note(&format!("child processes: {rounds}; {peak}; overflow checks: {}", overflow_checks_on()));
    out.note("every case is executed in a child process: panics are caught per case, abort/signal/hang/allocation above 2 GiB are attributed to the running case");
    out.note("observations (not failures): `alloc` = the harness' own 2 GiB allocation cap fired while loading; `hang` on a `# probe` line = a load-time work probe made no progress for 20 s / 60 s");
    out.finish("load(bytes) of every generated model file returns Ok or Err (no panic, crash or hang); every constant of a loaded model has product(shape) == data length, fits in memory and its last element is readable; outcome and (shape, length) of the constant under test equal the Lean model's answer");
}
