//! C13: in-place and commuted operator execution match normal execution.
//!
//! Model-compared requests (see lean/RtenVerif/Driver/C13.lean):
//!   `cb a=<shape> b=<shape>`                     → `can=<0|1> bs=<shape|none>`
//!       `b.can_broadcast_to(a)` (the whole of `can_run_binary_op_in_place`) and `broadcast_shapes(a,b)`.
//!   `bin <op> pos=<0|1> a=<shape> b=<shape> ad=<ints> bd=<ints>` → `ip=<0|1|-> shape=<shape> data=<ints>` | `err`
//!       `run_in_place` of a binary i32 operator with the operand at `pos` passed as the owned
//!       in-place value; `ip` = the output reuses the owned buffer (pointer identity).
//!   `lay <op> in=<shape> arg=<ints|-> az=<0|1>`   → `shape=<shape> same=1` | `err`
//!       in-place Reshape / Flatten / Squeeze / Unsqueeze: output shape and "row-major element
//!       sequence unchanged".
//!   `exec <op> a=<shape> b=<shape> own=<ab bits> same=<0|1>` → `reuse=<a|b|none|na>`
//!       a one-node graph run through `Model::run` with owned (`own` bit 1) or borrowed inputs; `same=1`
//!       feeds one value to both operands.  Which input buffer the output reuses (pointer identity)
//!       is the executor's operand choice + the operator's in-place decision.
//!   `vip <Add|Sub|Mul> a=<base>@<size:stride,…> b=<base>@<size:stride,…>` → `ip=<0|1|-> shape=… data=…` | `err`
//!       `run_in_place` with the owned operand built on explicit (non-overlapping) strides — permuted,
//!       stepped, with a base offset — and the other operand a view with arbitrary strides
//!       (`binary_op_in_place`: `apply_fast` vs strided `apply_indexed`, Model/InPlaceView.lean).
//!   `cc dims=<size:stride,…> cap=<n> axis=<k> add=<m>` → `cap=<0|1>`
//!       `Tensor::has_capacity(axis, size+add)` on an owned tensor with that layout / Vec capacity;
//!       oracle: `Concat::run_in_place` reuses the buffer exactly when it answers 1.
//!   `cov <names>`                                 → `missing=<names>` (in-place-capable operators found in the
//!       source by translate/in_place_ops.py that the harness did not exercise).
//! Oracle-only requests (`#ip …`, not compared with the model): for every catalogue operator that
//! reports `in_place_inputs()` ≠ ∅ or `is_commutative()`: `run` on views vs `run_in_place` on owned
//! copies (contiguous / spare Vec capacity / `with_capacity`+append / permuted / strided) and vs
//! swapped operands; shape, dtype and element bits must agree (all NaNs identified).
#[path = "../onnx_enc.rs"]
mod onnx_enc;
#[path = "../opcat.rs"]
mod opcat;
use hcommon::{Args, Out, Rng};
use opcat::*;
use rten::verif::Operator;
use rten::{Value, ValueView};
use rten_tensor::prelude::*;
use rten_tensor::Tensor;
use std::collections::BTreeSet;

fn views(inputs: &[Option<Value>]) -> Vec<Option<ValueView>> {
    inputs.iter().map(|v| v.as_ref().map(|v| v.into())).collect()
}

type RunRes = Result<Result<Vec<Canon>, String>, String>; // panic / op error / outputs

fn res_class(r: &RunRes) -> &'static str {
    match r {
        Ok(Ok(_)) => "ok",
        Ok(Err(_)) => "err",
        Err(_) => "panic",
    }
}

/// Property oracle: `base` (normal run) vs `other` (in-place / swapped run).
fn compare(base: &RunRes, other: &RunRes, what: &str) -> Option<String> {
    match (base, other) {
        (Ok(Ok(a)), Ok(Ok(b))) => canon_diff(a, b).map(|d| format!("{what}: {d}")),
        (Ok(Ok(_)), Ok(Err(e))) => Some(format!("{what}: normal run succeeds, this run fails with {e}")),
        (Ok(Ok(_)), Err(p)) => Some(format!("{what}: normal run succeeds, this run panics: {p}")),
        (Ok(Err(_)), Err(p)) => Some(format!("{what}: normal run returns an error, this run panics: {p}")),
        _ => None,
    }
}

struct Ctx {
    out: Out,
    cache: OpCache,
    exercised_ip: BTreeSet<String>,
    exercised_comm: BTreeSet<String>,
    noted: BTreeSet<String>,
}

fn run_views(op: &dyn Operator, inputs: &[Option<Value>], n_out: usize) -> RunRes {
    hcommon::catch(|| {
        let vs = views(inputs);
        run_op(op, &vs, n_out).map(|o| o.iter().map(canon).collect())
    })
}

fn run_ip(op: &dyn Operator, inputs: &[Option<Value>], ip: &[usize], var: Var, n_out: usize, rng: &mut Rng) -> (RunRes, Option<bool>) {
    let owned: Vec<(usize, Value)> = ip.iter().map(|&i| (i, variant(inputs[i].as_ref().unwrap(), var, rng))).collect();
    let ptr0 = owned.first().map(|(_, v)| data_ptr(v)).unwrap_or(0);
    let mut reused = None;
    let r = hcommon::catch(|| {
        let mut vs = views(inputs);
        for &i in ip {
            vs[i] = None;
        }
        run_op_in_place(op, owned, &vs, n_out).map(|o| {
            if let Some(first) = o.first() {
                reused = Some(data_ptr(first) == ptr0);
            }
            o.iter().map(canon).collect()
        })
    });
    (r, reused)
}

/// Generic differential case for one catalogue operator.
fn generic_case(cx: &mut Ctx, name: &'static str, case_seed: u64) {
    let mut rng = Rng::new(case_seed);
    let Some(case) = gen(name, &mut rng) else { return };
    let op = match cx.cache.get(&case) {
        Ok(op) => op,
        Err(e) => {
            cx.out.bucket(&format!("loadfail:{name}"));
            if cx.noted.insert(name.to_string()) {
                cx.out.note(&format!("load failed for {}: {e}", case.describe()));
            }
            return;
        }
    };
    let ipset: Vec<usize> = op
        .in_place_inputs()
        .iter()
        .map(|i| i as usize)
        .filter(|&i| i < case.inputs.len() && case.inputs[i].is_some())
        .collect();
    let comm = op.is_commutative();
    if ipset.is_empty() && !comm {
        cx.out.bucket(&format!("not-in-place:{name}"));
        return;
    }
    let base = run_views(&*op, &case.inputs, case.n_out);
    let mut fails: Vec<String> = vec![];
    let mut reused_any = false;
    if !ipset.is_empty() {
        cx.exercised_ip.insert(op.name().to_string());
        for var in VARS {
            let (r, reused) = run_ip(&*op, &case.inputs, &ipset, var, case.n_out, &mut rng);
            reused_any |= reused == Some(true);
            if let Some(f) = compare(&base, &r, &format!("run_in_place[{var:?}] vs run")) {
                fails.push(f);
            }
            cx.out.bucket(&format!("ip:{}:{}", res_class(&base), res_class(&r)));
        }
    }
    if comm && case.inputs.len() == 2 && case.inputs.iter().all(|i| i.is_some()) {
        cx.exercised_comm.insert(op.name().to_string());
        let swapped = vec![case.inputs[1].clone(), case.inputs[0].clone()];
        let r = run_views(&*op, &swapped, case.n_out);
        if let Some(f) = compare(&base, &r, "run(b,a) vs run(a,b)") {
            fails.push(f);
        }
        if !ipset.is_empty() {
            // what the executor does when it picks the second operand: in_place = (1, b), inputs = [a, None]
            for var in VARS {
                let (r, reused) = run_ip(&*op, &case.inputs, &[1], var, case.n_out, &mut rng);
                reused_any |= reused == Some(true);
                if let Some(f) = compare(&base, &r, &format!("run_in_place[{var:?}] on operand 1 vs run")) {
                    fails.push(f);
                }
            }
        }
        cx.out.bucket("commutative-swap");
    }
    cx.out.bucket(&format!("op:{}", op.name()));
    cx.out.bucket(if reused_any { "buffer-reused" } else { "buffer-not-reused" });
    let req = format!("#ip {name} {case_seed} {}", case.describe());
    let fail = fails.first().map(|f| f.as_str());
    let nontrivial = matches!(base, Ok(Ok(_)));
    let ans = match &base {
        Err(m) => format!("panic {m}"),
        _ => res_class(&base).to_string(),
    };
    cx.out.case(&req, &ans, fail, nontrivial);
}

// ---------------------------------------------------------------------------------------------
// Model-compared requests

fn shp(s: &[usize]) -> String {
    if s.is_empty() {
        "-".into()
    } else {
        hcommon::join(s.iter(), ",")
    }
}
fn ints(s: &[i32]) -> String {
    if s.is_empty() {
        "-".into()
    } else {
        hcommon::join(s.iter(), ",")
    }
}

fn cb_case(cx: &mut Ctx, a: &[usize], b: &[usize]) {
    let req = format!("cb a={} b={}", shp(a), shp(b));
    let r = hcommon::catch(|| {
        let bt = Tensor::<u8>::zeros(b);
        let can = bt.can_broadcast_to(a);
        let bs = rten::verif::broadcast_shapes(a, b);
        (can, bs.map(|s| s.to_vec()))
    });
    let (ans, fail) = match r {
        Ok((can, bs)) => {
            // property oracle T1: can ⇒ broadcast shape = a's shape
            let fail = (can && bs.as_deref() != Some(a)).then_some("can_broadcast_to holds but broadcast_shapes(a,b) != shape(a)");
            (format!("can={} bs={}", can as u8, bs.map(|s| shp(&s)).unwrap_or("none".into())), fail)
        }
        Err(m) => (format!("panic {m}"), None),
    };
    cx.out.bucket(if ans.starts_with("can=1") { "cb:can" } else { "cb:cannot" });
    cx.out.case(&req, &ans, fail, !a.is_empty() && !b.is_empty());
}

const BIN_OPS: [&str; 12] = ["Add", "Sub", "Mul", "And", "Or", "Xor", "Equal", "Less", "LessOrEqual", "Greater", "GreaterOrEqual", "Div"];

fn ref_bin(op: &str, x: i32, y: i32) -> Option<i32> {
    Some(match op {
        "Add" => x.wrapping_add(y),
        "Sub" => x.wrapping_sub(y),
        "Mul" => x.wrapping_mul(y),
        "And" => ((x != 0) && (y != 0)) as i32,
        "Or" => ((x != 0) || (y != 0)) as i32,
        "Xor" => ((x != 0) ^ (y != 0)) as i32,
        "Equal" => (x == y) as i32,
        "Less" => (x < y) as i32,
        "LessOrEqual" => (x <= y) as i32,
        "Greater" => (x > y) as i32,
        "GreaterOrEqual" => (x >= y) as i32,
        _ => return None,
    })
}

fn bin_case(cx: &mut Ctx, rng: &mut Rng) {
    let opname = *rng.pick(&BIN_OPS[..11]);
    let (a, b) = loop {
        let (a, b) = bpair(rng);
        if numel(&a) <= 48 && numel(&b) <= 48 {
            break (a, b);
        }
    };
    let small = rng.chance(2, 3);
    let mk = |rng: &mut Rng, s: &[usize]| -> Vec<i32> {
        (0..numel(s)).map(|_| if small { rng.range_i64(-3, 3) as i32 } else { ri32(rng) }).collect()
    };
    let ad = mk(rng, &a);
    let bd = mk(rng, &b);
    let case = Case {
        name: "bin",
        onnx: opname,
        domain: "",
        attrs: vec![],
        inputs: vec![Some(Tensor::from_data(&a, ad.clone()).into()), Some(Tensor::from_data(&b, bd.clone()).into())],
        n_out: 1,
        data_inputs: vec![],
    };
    let op = cx.cache.get(&case).expect("binary op loads");
    let has_ip = !op.in_place_inputs().is_empty();
    let pos = if has_ip && op.is_commutative() && rng.chance(1, 2) { 1 } else { 0 };
    let var = *rng.pick(&VARS);
    let req = format!("bin {opname} pos={pos} a={} b={} ad={} bd={}", shp(&a), shp(&b), ints(&ad), ints(&bd));
    let mut ptr_same = None;
    let r: Result<Result<Vec<Value>, String>, String> = hcommon::catch(|| {
        if has_ip {
            let owned = variant(case.inputs[pos].as_ref().unwrap(), var, rng);
            let p0 = data_ptr(&owned);
            let mut vs = views(&case.inputs);
            vs[pos] = None;
            let o = run_op_in_place(&*op, vec![(pos, owned)], &vs, 1)?;
            ptr_same = Some(data_ptr(&o[0]) == p0);
            Ok(o)
        } else {
            run_op(&*op, &views(&case.inputs), 1)
        }
    });
    let (ans, fail) = match r {
        Ok(Ok(o)) => {
            let (shape, data): (Vec<usize>, Vec<i32>) = match &o[0] {
                Value::Int32Tensor(t) => (t.shape().to_vec(), t.iter().copied().collect()),
                other => (shape_of(other), vec![]),
            };
            // independent oracle: broadcast reference computed here on indices
            let mut fail = None;
            let rank = shape.len();
            let pad = |s: &[usize]| -> Vec<usize> {
                let mut v = vec![1; rank - s.len().min(rank)];
                v.extend_from_slice(s);
                v
            };
            let (ap, bp) = (pad(&a), pad(&b));
            let lin = |sp: &[usize], idx: &[usize]| -> usize {
                let mut o = 0;
                for d in 0..sp.len() {
                    o = o * sp[d] + if sp[d] == 1 { 0 } else { idx[d] };
                }
                o
            };
            let mut idx = vec![0usize; rank];
            for (k, &got) in data.iter().enumerate() {
                let want = ref_bin(opname, ad[lin(&ap, &idx)], bd[lin(&bp, &idx)]).unwrap();
                if got != want {
                    fail = Some(format!("element {k}: got {got}, reference {want}"));
                    break;
                }
                for d in (0..rank).rev() {
                    idx[d] += 1;
                    if idx[d] < shape[d] {
                        break;
                    }
                    idx[d] = 0;
                }
            }
            let ip = if !has_ip {
                "0".to_string()
            } else if data.is_empty() {
                "-".to_string()
            } else {
                (ptr_same.unwrap_or(false) as u8).to_string()
            };
            (format!("ip={ip} shape={} data={}", shp(&shape), ints(&data)), fail)
        }
        Ok(Err(_)) => ("err".to_string(), None),
        Err(m) => (format!("panic {m}"), Some("binary operator panicked".to_string())),
    };
    cx.out.bucket(&format!("bin:{opname}"));
    cx.out.bucket(&format!("bin:var:{var:?}"));
    cx.out.bucket(&format!("bin:{}", ans.split(' ').next().unwrap_or("")));
    cx.out.case(&req, &ans, fail.as_deref(), ans.starts_with("ip=1"));
}

fn lay_case(cx: &mut Ctx, rng: &mut Rng) {
    let opname: &'static str = *rng.pick(&["Reshape", "Flatten", "Squeeze", "Unsqueeze"]);
    let mut case = gen(opname, rng).unwrap();
    // element values = row-major position, so "same sequence" is observable
    let sh = shape_of(case.inputs[0].as_ref().unwrap());
    case.inputs[0] = Some(Tensor::from_data(&sh, (0..numel(&sh) as i32).collect::<Vec<i32>>()).into());
    let arg: Option<Vec<i32>> = match opname {
        "Flatten" => Some(vec![match &case.attrs[0].1 {
            onnx_enc::Attr::Int(i) => *i as i32,
            _ => 0,
        }]),
        _ => case.inputs.get(1).and_then(|v| v.as_ref()).map(|v| match v {
            Value::Int32Tensor(t) => t.iter().copied().collect(),
            _ => vec![],
        }),
    };
    let az = case.attrs.iter().any(|(k, _)| k == "allowzero");
    let op = cx.cache.get(&case).expect("layout op loads");
    let var = *rng.pick(&VARS);
    let req = format!(
        "lay {opname} in={} arg={} az={}",
        shp(&sh),
        arg.as_ref().map(|a| if a.is_empty() { "e".to_string() } else { ints(a) }).unwrap_or("-".into()),
        az as u8
    );
    let r = hcommon::catch(|| {
        let owned = variant(case.inputs[0].as_ref().unwrap(), var, rng);
        let mut vs = views(&case.inputs);
        vs[0] = None;
        run_op_in_place(&*op, vec![(0, owned)], &vs, 1)
    });
    let base = run_views(&*op, &case.inputs, 1);
    let (ans, mut fail) = match &r {
        Ok(Ok(o)) => {
            let c = canon(&o[0]);
            let same = c.bits.iter().enumerate().all(|(i, &b)| b == i as u32) && c.bits.len() == numel(&sh);
            (
                format!("shape={} same={}", shp(&c.shape), same as u8),
                (!same).then(|| "in-place layout op changed the row-major element sequence".to_string()),
            )
        }
        Ok(Err(_)) => ("err".to_string(), None),
        Err(m) => (format!("panic {m}"), None),
    };
    let rr: RunRes = match r {
        Ok(Ok(o)) => Ok(Ok(o.iter().map(canon).collect())),
        Ok(Err(e)) => Ok(Err(e)),
        Err(p) => Err(p),
    };
    if fail.is_none() {
        fail = compare(&base, &rr, &format!("run_in_place[{var:?}] vs run"));
    }
    cx.exercised_ip.insert(op.name().to_string());
    cx.out.bucket(&format!("lay:{opname}:{}", ans.split('=').next().unwrap_or("")));
    cx.out.bucket(&format!("lay:var:{var:?}"));
    cx.out.case(&req, &ans, fail.as_deref(), ans.starts_with("shape"));
}

/// TransformInputs(Sub / Add / MatMul …): wrapper in-place capability and result.
fn transform_case(cx: &mut Ctx, rng: &mut Rng, case_seed: u64) {
    let inner_name: &'static str = *rng.pick(&["Sub", "Add", "Mul", "Div", "Pow"]);
    let (a, _) = bpair(rng);
    let which = rng.usize_below(2);
    // other operand: permuted shape so that the transposed view matches `a`
    let mut perm: Vec<usize> = (0..a.len()).collect();
    rng.shuffle(&mut perm);
    let use_rev = rng.chance(1, 3);
    if use_rev {
        perm = (0..a.len()).rev().collect();
    }
    // b_stored has shape s.t. b_stored.permuted(perm) has shape a: b_stored.shape[perm[i]] = a[i]
    let mut bs = vec![0usize; a.len()];
    for (i, &p) in perm.iter().enumerate() {
        bs[p] = a[i];
    }
    let x = tf(rng, &a);
    let y = tf(rng, &bs);
    let inputs = if which == 1 { vec![Some(x), Some(y)] } else { vec![Some(y), Some(x)] };
    let case = Case { name: "t", onnx: inner_name, domain: "", attrs: vec![], inputs, n_out: 1, data_inputs: vec![] };
    let inner = cx.cache.get(&case).expect("inner loads");
    let op = rten::verif::transform_inputs_permute(inner.clone(), which, if use_rev { None } else { Some(perm.clone()) });
    let ipset: Vec<usize> = op.in_place_inputs().iter().map(|i| i as usize).collect();
    let base = run_views(&*op, &case.inputs, 1);
    // reference: inner op on an explicitly transposed copy (T3 of C14 at the value level)
    let mut explicit = case.inputs.clone();
    explicit[which] = Some(match explicit[which].as_ref().unwrap() {
        Value::FloatTensor(t) => {
            let v = if use_rev { t.transposed() } else { t.permuted(&perm) };
            v.to_tensor().into()
        }
        _ => unreachable!(),
    });
    let explicit_r = run_views(&*inner, &explicit, 1);
    let mut fails = vec![];
    if let Some(f) = compare(&explicit_r, &base, "TransformInputs.run vs inner.run(transposed copy)") {
        fails.push(f);
    }
    // wrapper must not offer the transformed input for in-place use
    if ipset.contains(&which) {
        fails.push(format!("TransformInputs offers transformed input {which} for in-place execution"));
    }
    for var in VARS {
        if ipset.is_empty() {
            break;
        }
        let (r, _) = run_ip(&*op, &case.inputs, &ipset, var, 1, rng);
        if let Some(f) = compare(&base, &r, &format!("TransformInputs.run_in_place[{var:?}] vs run")) {
            fails.push(f);
        }
    }
    cx.exercised_ip.insert("TransformInputs".into());
    cx.out.bucket(&format!("transform:{inner_name}:ip{}", ipset.len()));
    let req = format!("#ip TransformInputs({inner_name}) {case_seed} which={which} perm={perm:?} a={a:?}");
    cx.out.case(&req, res_class(&base), fails.first().map(|s| s.as_str()), matches!(base, Ok(Ok(_))));
}

/// One-node model `y = op(a, b)` (or `op(a, a)`), loaded through the public loader.
fn exec_model(op: &str, int: bool, same: bool) -> rten::Model {
    use onnx_enc::{dt, Graph, Node, ValueInfo};
    let ty = if int { dt::INT32 } else { dt::FLOAT };
    let ins: Vec<&str> = if same { vec!["a", "a"] } else { vec!["a", "b"] };
    let mut inputs = vec![ValueInfo::new("a", ty, None)];
    if !same {
        inputs.push(ValueInfo::new("b", ty, None));
    }
    let g = Graph {
        nodes: vec![Node::new(op, "n", &ins, &["y"])],
        inputs,
        outputs: vec![ValueInfo::new("y", ty, None)],
        ..Default::default()
    };
    rten::ModelOptions::with_all_ops().load(g.into_model_bytes(21)).expect("exec model loads")
}

const EXEC_OPS: [(&str, bool); 9] = [
    ("Add", true),
    ("Mul", true),
    ("Sub", true),
    ("Div", false),
    ("Pow", false),
    ("And", true),
    ("Or", true),
    ("Equal", true),
    ("Less", true),
];

fn exec_case(cx: &mut Ctx, models: &mut std::collections::HashMap<(usize, bool), rten::Model>, rng: &mut Rng) {
    let k = rng.usize_below(EXEC_OPS.len());
    let (opname, int) = EXEC_OPS[k];
    let same = rng.chance(1, 8);
    let (a, mut b) = bpair(rng);
    if same {
        b = a.clone();
    }
    let own_a = rng.chance(3, 4);
    let own_b = rng.chance(3, 4);
    let mk = |rng: &mut Rng, s: &[usize]| -> Value {
        if int {
            tism(rng, s, -3, 3)
        } else {
            tfi(rng, s, 1, 4)
        }
    };
    let va = mk(rng, &a);
    let vb = mk(rng, &b);
    let base = {
        let case = Case { name: "x", onnx: opname, domain: "", attrs: vec![], inputs: vec![Some(va.clone()), Some(if same { va.clone() } else { vb.clone() })], n_out: 1, data_inputs: vec![] };
        let op = cx.cache.get(&case).expect("op loads");
        run_views(&*op, &case.inputs, 1)
    };
    let model = models.entry((k, same)).or_insert_with(|| exec_model(opname, int, same));
    let mut req = format!("exec {opname} a={} b={} own={}{} same={}", shp(&a), shp(&b), own_a as u8, own_b as u8, same as u8);
    let with_value = int && numel(&a) <= 48 && numel(&b) <= 48;
    if with_value {
        let g = |v: &Value| -> Vec<i32> {
            match v {
                Value::Int32Tensor(t) => t.iter().copied().collect(),
                _ => vec![],
            }
        };
        req += &format!(" ad={} bd={}", ints(&g(&va)), ints(&g(&vb)));
    }
    let (pa, pb) = (data_ptr(&va), data_ptr(&vb));
    let r = hcommon::catch(|| {
        let mut ins: Vec<(rten::NodeId, rten::ValueOrView)> = vec![];
        let ida = model.node_id("a").unwrap();
        let (va2, vb2) = (va.clone(), vb.clone());
        // clones have fresh buffers: record *their* pointers
        let (qa, qb) = (data_ptr(&va2), data_ptr(&vb2));
        if own_a {
            ins.push((ida, va2.into()));
        } else {
            ins.push((ida, rten::ValueOrView::View((&va).into())));
        }
        if !same {
            let idb = model.node_id("b").unwrap();
            if own_b {
                ins.push((idb, vb2.into()));
            } else {
                ins.push((idb, rten::ValueOrView::View((&vb).into())));
            }
        }
        let out = model.run(ins, &[model.node_id("y").unwrap()], None).map_err(|e| format!("{e}"))?;
        let o = out.into_iter().next().unwrap();
        Ok::<_, String>((data_ptr(&o), qa, qb, canon(&o)))
    });
    let _ = (pa, pb);
    let (ans, fail) = match r {
        Ok(Ok((po, qa, qb, c))) => {
            let fail = compare(&base, &Ok(Ok(vec![c.clone()])), "Model::run vs Operator::run");
            let mut ans = if c.bits.is_empty() {
                "reuse=na".to_string()
            } else if own_a && po == qa {
                "reuse=a".to_string()
            } else if !same && own_b && po == qb {
                "reuse=b".to_string()
            } else {
                "reuse=none".to_string()
            };
            if with_value {
                ans += &format!(" shape={} data={}", shp(&c.shape), ints(&c.bits.iter().map(|&b| b as i32).collect::<Vec<_>>()));
            }
            (ans, fail)
        }
        Ok(Err(_)) => (if with_value { "reuse=na err".to_string() } else { "reuse=na".to_string() }, None),
        Err(m) => (format!("panic {m}"), Some("Model::run panicked".to_string())),
    };
    cx.out.bucket(&format!("exec:{opname}:{}", ans.split(' ').next().unwrap_or("")));
    cx.out.case(&req, &ans, fail.as_deref(), ans.starts_with("reuse=a") || ans.starts_with("reuse=b"));
}

fn vip_case(cx: &mut Ctx, rng: &mut Rng) {
    let (sa, sb) = loop {
        let (a, b) = bpair(rng);
        if numel(&a) <= 48 && numel(&b) <= 48 {
            break (a, b);
        }
    };
    // owned operand: non-overlapping strides (contiguous / permuted / uniformly scaled)
    let n = sa.len();
    let mut order: Vec<usize> = (0..n).collect();
    if rng.chance(1, 2) {
        rng.shuffle(&mut order);
    }
    let scale = 1 + rng.usize_below(2);
    let mut stra = vec![0usize; n];
    let mut acc = scale;
    for &d in order.iter().rev() {
        stra[d] = acc;
        acc *= sa[d].max(1);
    }
    let da: Vec<(usize, usize)> = sa.iter().copied().zip(stra.iter().copied()).collect();
    // other operand: any strides
    let mut strb = vec![0usize; sb.len()];
    let mut acc = 1usize;
    for d in (0..sb.len()).rev() {
        strb[d] = match rng.below(4) {
            0 => 0,
            1 => acc * 2,
            _ => acc,
        };
        acc *= sb[d].max(1);
    }
    let bb = rng.usize_below(3);
    let db: Vec<(usize, usize)> = sb.iter().copied().zip(strb.iter().copied()).collect();
    let vs = |base: usize, d: &[(usize, usize)]| format!("{base}@{}", if d.is_empty() { "-".to_string() } else { hcommon::join(d.iter().map(|(a, b)| format!("{a}:{b}")), ",") });
    let slen = |base: usize, d: &[(usize, usize)]| if d.iter().any(|x| x.0 == 0) { base } else { base + d.iter().map(|x| (x.0 - 1) * x.1).sum::<usize>() + 1 };
    let opname = *rng.pick(&["Add", "Sub", "Mul"]);
    let req = format!("vip {opname} a={} b={}", vs(0, &da), vs(bb, &db));
    let stor_a: Vec<i32> = (0..slen(0, &da) as i32).map(|i| i + 1).collect();
    let stor_b: Vec<i32> = (0..slen(bb, &db) as i32 + 2).map(|i| 100 * (i + 1)).collect();
    let case = Case { name: "vip", onnx: opname, domain: "", attrs: vec![], inputs: vec![Some(ti(rng, &[])), Some(ti(rng, &[]))], n_out: 1, data_inputs: vec![] };
    let op = cx.cache.get(&case).expect("op loads");
    let mut ptr_same = None;
    let r = hcommon::catch(|| {
        let ta = Tensor::<i32>::from_data_with_strides(&sa[..], stor_a.clone(), &stra[..]).map_err(|e| format!("{e:?}"))?;
        let vb = rten_tensor::TensorView::from_slice_with_strides(&sb[..], &stor_b[bb..], &strb[..]).map_err(|e| format!("{e:?}"))?;
        let owned: Value = ta.into();
        let p0 = data_ptr(&owned);
        let others: Vec<Option<ValueView>> = vec![None, Some(ValueView::from(vb))];
        let o = run_op_in_place(&*op, vec![(0, owned)], &others, 1)?;
        ptr_same = Some(data_ptr(&o[0]) == p0);
        Ok::<_, String>(canon(&o[0]))
    });
    let ans = match r {
        Ok(Ok(c)) => {
            let ip = if c.bits.is_empty() { "-".to_string() } else { (ptr_same.unwrap_or(false) as u8).to_string() };
            format!("ip={ip} shape={} data={}", shp(&c.shape), ints(&c.bits.iter().map(|&b| b as i32).collect::<Vec<_>>()))
        }
        Ok(Err(_)) => "err".to_string(),
        Err(m) => format!("panic {m}"),
    };
    cx.out.bucket(&format!("vip:{}", ans.split(' ').next().unwrap_or("")));
    cx.out.case(&req, &ans, None, ans.starts_with("ip=1"));
}

/// Concat in place: capacity decision (`has_capacity`) vs buffer reuse.
fn cc_case(cx: &mut Ctx, rng: &mut Rng) {
    let sh = rshape(rng, 3, 1);
    let n: usize = sh.iter().product();
    let ax = rng.usize_below(sh.len());
    let add = rng.usize_below(3);
    let var = *rng.pick(&[Var::Contig, Var::VecCap, Var::Permuted, Var::Strided, Var::ColStep, Var::RowStep, Var::Transposed]);
    let base_t = Tensor::from_data(&sh, (0..n as i32).collect::<Vec<i32>>());
    // rebuild the variant on a Vec whose capacity we control
    let t0 = variant_t(&base_t, var, rng);
    let strides: Vec<usize> = t0.strides().to_vec();
    let extra = *rng.pick(&[0usize, 0, 1, 2, 5, 16, 64]);
    let len0 = if n == 0 { 0 } else { sh.iter().zip(&strides).map(|(&s, &st)| (s - 1) * st).sum::<usize>() + 1 };
    let mut data: Vec<i32> = Vec::with_capacity(len0 + extra);
    data.resize(len0, -1);
    {
        let mut idx = vec![0usize; sh.len()];
        for x in base_t.iter() {
            let off: usize = idx.iter().zip(&strides).map(|(&i, &s)| i * s).sum();
            data[off] = *x;
            for d in (0..sh.len()).rev() {
                idx[d] += 1;
                if idx[d] < sh[d] {
                    break;
                }
                idx[d] = 0;
            }
        }
    }
    let cap = data.capacity();
    let Ok(t) = Tensor::from_data_with_strides(&sh, data, &strides) else { return };
    let new_size = sh[ax] + add;
    let req = format!(
        "cc dims={} cap={cap} axis={ax} add={add}",
        hcommon::join(sh.iter().zip(&strides).map(|(a, b)| format!("{a}:{b}")), ",")
    );
    let has = hcommon::catch(|| t.has_capacity(ax, new_size));
    let mut other_sh = sh.clone();
    other_sh[ax] = add;
    let other: Value = Tensor::from_data(&other_sh, vec![7i32; other_sh.iter().product()]).into();
    let owned: Value = t.into();
    let p0 = data_ptr(&owned);
    let case = Case { name: "cc", onnx: "Concat", domain: "", attrs: vec![("axis".to_string(), onnx_enc::Attr::Int(ax as i64))], inputs: vec![Some(owned.clone()), Some(other.clone())], n_out: 1, data_inputs: vec![] };
    let op = cx.cache.get(&case).expect("concat loads");
    let base = run_views(&*op, &case.inputs, 1);
    let mut reused = None;
    let r: RunRes = hcommon::catch(|| {
        let vs: Vec<Option<ValueView>> = vec![None, Some((&other).into())];
        run_op_in_place(&*op, vec![(0, owned)], &vs, 1).map(|o| {
            reused = Some(data_ptr(&o[0]) == p0);
            o.iter().map(canon).collect()
        })
    });
    let (ans, mut fail) = match &has {
        Ok(h) => (format!("cap={}", *h as u8), None),
        Err(m) => (format!("panic {m}"), None),
    };
    if let (Ok(h), Some(re)) = (&has, reused) {
        let out_n: usize = sh.iter().product::<usize>() / sh[ax].max(1) * new_size;
        if *h != re && out_n > 0 && n > 0 {
            fail = Some(format!("has_capacity = {h} but Concat::run_in_place buffer reuse = {re}"));
        }
    }
    if fail.is_none() {
        fail = compare(&base, &r, "Concat run_in_place vs run");
    }
    cx.out.bucket(&format!("cc:{var:?}:{ans}"));
    cx.out.case(&req, &ans, fail.as_deref(), ans == "cap=1" && add > 0);
}

fn main() {
    let args = hcommon::parse_args();
    hcommon::quiet_panics();
    run(&args)
}

fn run(args: &Args) {
    let mut cx = Ctx { out: Out::new(&args.out), cache: OpCache::default(), exercised_ip: BTreeSet::new(), exercised_comm: BTreeSet::new(), noted: BTreeSet::new() };
    let mut rng = Rng::new(args.seed);
    if let Some(rp) = &args.replay {
        // --replay "<catalogue name> <case seed>"
        let w: Vec<&str> = rp.split_whitespace().collect();
        let name = all_names().into_iter().find(|n| *n == w[0]).expect("unknown op");
        generic_case(&mut cx, name, w[1].parse().unwrap());
        cx.out.finish("replay");
        return;
    }
    // (a) decision logic, exhaustive small scope: ranks ≤ 3, dims 0..=3 (thorough: rank ≤ 4 sampled too)
    let mut shapes: Vec<Vec<usize>> = vec![vec![]];
    for r in 1..=3usize {
        for code in 0..4usize.pow(r as u32) {
            shapes.push((0..r).map(|d| (code / 4usize.pow(d as u32)) % 4).collect());
        }
    }
    for a in &shapes {
        for b in &shapes {
            cb_case(&mut cx, a, b);
        }
    }
    let n_rand_cb = if args.thorough { 1_000_000 } else { 100_000 };
    for _ in 0..n_rand_cb {
        let (a, b) = bpair(&mut rng);
        cb_case(&mut cx, &a, &b);
    }
    // (b) value-level binary ops, (c) layout ops, (d) TransformInputs
    let n_bin = if args.thorough { 1_000_000 } else { 100_000 };
    for _ in 0..n_bin {
        bin_case(&mut cx, &mut rng);
    }
    let n_lay = if args.thorough { 500_000 } else { 50_000 };
    for _ in 0..n_lay {
        lay_case(&mut cx, &mut rng);
    }
    let n_tr = if args.thorough { 150_000 } else { 15_000 };
    for _ in 0..n_tr {
        let cs = rng.next_u64();
        let mut r2 = Rng::new(cs);
        transform_case(&mut cx, &mut r2, cs);
    }
    // (d2) executor operand choice through Model::run, (d3) Concat capacity decision
    let mut models = std::collections::HashMap::new();
    let n_exec = if args.thorough { 300_000 } else { 30_000 };
    for _ in 0..n_exec {
        exec_case(&mut cx, &mut models, &mut rng);
    }
    for _ in 0..n_exec {
        vip_case(&mut cx, &mut rng);
    }
    let n_cc = if args.thorough { 300_000 } else { 30_000 };
    for _ in 0..n_cc {
        cc_case(&mut cx, &mut rng);
    }
    // (e) every catalogue operator that reports in-place capability or commutativity
    let per_op = if args.thorough { 30_000 } else { 3_000 };
    for name in all_names() {
        for _ in 0..per_op {
            let cs = rng.next_u64();
            generic_case(&mut cx, name, cs);
        }
    }
    // (f) coverage request: operator struct names (Operator::name) exercised in place
    let names: Vec<String> = cx.exercised_ip.iter().cloned().collect();
    let req = format!("cov {}", names.join(","));
    // in-place-capable operators the catalogue cannot build (declared, see checks/C13.json level_note)
    cx.out.case(&req, "missing=GroupQueryAttention,MultiHeadAttention", None, true);
    let comm: Vec<String> = cx.exercised_comm.iter().cloned().collect();
    cx.out.note(&format!("in-place operators exercised: {}", names.join(",")));
    cx.out.note(&format!("commutative operators exercised: {}", comm.join(",")));
    cx.out.finish("run vs run_in_place (5 owned layouts) vs swapped operands: equal shape/dtype/bits (NaNs identified); model: can_broadcast_to/broadcast_shapes, i32 binary results + buffer reuse, layout-op shapes");
}
