//! C26: invalid run requests are reported as errors, never panics.
//!
//! Random small ONNX models (declared input dtypes/shapes with fixed and symbolic dims, unary /
//! binary / multi-output operators, initializers) are loaded through the public `Model` API; every
//! case loads a fresh model (cold plan cache), optionally warms the plan cache with related valid
//! (or invalid) requests and then issues one request through `Model::run`, `run_n`, `run_one` or
//! `partial_run`.  The request is a valid base request with one mutation applied: unknown ids,
//! operator ids, duplicated ids (appended or *replacing* another id, the form that defeats a
//! set-like cache comparison), missing / extra inputs, wrong dtype / rank / dim, sequences.
//!
//! Line protocol (see lean/RtenVerif/Driver/C26.lean):
//!   `<api> <ver> <opsOk> <nodes> <meta> <warm> <req>`  →  `ok` | `ok <ids>` | `err:<class>` | `panic`
//! The graph IR (`nodes`, `meta`) is read back from the *loaded* graph (`Model::verif_graph`).
//!
//! Independent oracle (not the Lean model): any panic is a PROPFAIL; a request that the harness
//! knows to be invalid *by construction* (duplicate ids, ids that are not values, a declared
//! dtype/rank/fixed dim contradicted, a required graph input missing — the latter computed on the
//! ONNX graph the harness wrote itself) and that returns `Ok` is a PROPFAIL.
#[path = "../pc_gen.rs"]
mod pc_gen;
use hcommon::{Out, Rng};
use pc_gen::*;
use std::collections::HashMap;

// ------------------------------------------------------------------ main

fn main() {
    let args = hcommon::parse_args();
    hcommon::quiet_panics();
    let mut out = Out::new(&args.out);
    let mut rng = Rng::new(args.seed);
    let n_models = if args.thorough { 6000 } else { 600 };
    let per_model = if args.thorough { 60 } else { 40 };
    let mut load_fail = 0u64;
    for _ in 0..n_models {
        let cf = rng.chance(1, 4);
        let Some(gm) = (if cf { gen_cf_model(&mut rng) } else { gen_model(&mut rng) }) else {
            load_fail += 1;
            continue;
        };
        // run-time assertion of the graph hypotheses of the theorems (WFG, WFGo, outsValue,
        // UniqueProducer, no top-level captures, Contract.notSub), on the real graph and its subgraphs
        {
            let model = load(&gm.bytes, gm.optimize).unwrap();
            for g in all_graphs(model.verif_graph()) {
                let (line, ans) = assume_case(g);
                let pf = if gm.assumption_failures.is_empty() { None } else { Some(format!("assumption violated: {}", gm.assumption_failures.join(","))) };
                out.bucket(if cf { "assume_control_flow_graph" } else { "assume_graph" });
                out.case(&line, &ans, pf.as_deref(), false);
            }
            // Model-level wrappers: name -> id lookup
            let bogus = format!("no_such_node_{}", rng.below(1000));
            let r = hcommon::catch(|| (model.find_node(&bogus).is_none(), model.node_id(&bogus).map(|_| ()).map_err(|e| classify(&e))));
            let (ans, pf) = match r {
                Ok((true, Err(c))) => (c, None),
                Ok((_, Ok(()))) | Ok((false, _)) => ("ok".to_string(), Some("unknown node name resolved".to_string())),
                Err(p) => ("panic".to_string(), Some(format!("panic: {p}"))),
            };
            out.bucket("wrap_unknown_name");
            out.case("wrap unknown-name", &ans, pf.as_deref(), false);
            let some = &gm.vals[0].name;
            let same = model.node_id(some).ok().map(|i| i.as_u32()) == model.find_node(some).map(|i| i.as_u32()) && model.find_node(some).map(|i| i.as_u32()) == gm.val_ids[0];
            out.case("wrap known-name", if same { "ok" } else { "mismatch" }, if same { None } else { Some("node_id/find_node disagree") }, false);
        }
        if gm.live_values().is_empty() || gm.op_ids.is_empty() {
            continue;
        }
        for _ in 0..per_model {
            let (ins0, outs0) = gm.base_request(&mut rng);
            let kind = *rng.pick(MUTS);
            let Some(m) = mutate(&gm, kind, &ins0, &outs0, &mut rng) else { continue };
            let api = match rng.below(10) {
                0 | 1 => Api::Partial,
                2 => Api::RunN,
                3 => Api::RunOne,
                _ => Api::Run,
            };
            // run_one: the request is determined by the model's first input / output
            let mut req = m.req.clone();
            let mut invalid = m.invalid;
            let mut only_missing = m.only_missing;
            if api == Api::RunOne {
                let model = load(&gm.bytes, gm.optimize).unwrap();
                let (Some(i0), Some(o0)) = (model.input_ids().first().copied(), model.output_ids().first().copied()) else { continue };
                let spec = req.inputs.iter().find(|(id, _)| *id == i0.as_u32()).map(|(_, s)| s.clone()).unwrap_or(gm.good_spec(0, &mut rng));
                let bad_value = spec.dtype != 1 || {
                    let v = gm.decls[0].variant;
                    (v != 0 && spec.shape.len() != 2) || (spec.shape.len() == 2 && ((v == 1 || v == 2) && spec.shape[1] != 4 || v == 2 && spec.shape[0] != gm.n))
                };
                req = Req { inputs: vec![(i0.as_u32(), spec)], outs: vec![o0.as_u32()] };
                let missing = !gm.optimize && !gm.needed_inputs(&[0], &gm.graph_outputs[..1]).is_empty();
                invalid = bad_value || missing;
                only_missing = !bad_value && missing;
            }
            // warm-up history: none / the base request / a permutation / another valid request / an invalid one
            let mut warm: Vec<Req> = vec![];
            let base = gm.to_req(&ins0, &outs0);
            match rng.below(8) {
                0 | 1 => {}
                2 | 3 | 4 => warm.push(base.clone()),
                5 => {
                    let mut p = base.clone();
                    rng.shuffle(&mut p.inputs);
                    rng.shuffle(&mut p.outs);
                    warm.push(p);
                }
                6 => {
                    let (i1, o1) = gm.base_request(&mut rng);
                    warm.push(gm.to_req(&i1, &o1));
                    warm.push(base.clone());
                }
                _ => {
                    warm.push(base.clone());
                    let k2 = *rng.pick(MUTS);
                    if let Some(m2) = mutate(&gm, k2, &ins0, &outs0, &mut rng) {
                        warm.push(m2.req);
                    }
                }
            }
            let model = load(&gm.bytes, gm.optimize).unwrap();
            for w in &warm {
                let _ = exec(&model, Api::Run, w);
            }
            let (ans, panic_msg) = exec(&model, api, &req);
            let api_s = match api {
                Api::Run => "run",
                Api::RunN => "run_n",
                Api::RunOne => "run_one",
                Api::Partial => "partial",
            };
            // operator kernels are a parameter of the model
            let ops_ok = if ans == "err:op" { 0 } else { 1 };
            let warm_s = if warm.is_empty() { "-".to_string() } else { hcommon::join(warm.iter().map(|w| w.token()), ";") };
            let line = format!("{api_s} 1 {ops_ok} {} {} {warm_s} {}", gm.nodes_field, gm.meta_field, req.token());
            let invalid_here = if api == Api::Partial { invalid && !only_missing } else { invalid };
            let pf: Option<String> = if let Some(p) = &panic_msg {
                Some(format!("panic: {p}"))
            } else if invalid_here && ans.starts_with("ok") {
                Some(format!("invalid request ({kind}) returned Ok"))
            } else {
                None
            };
            out.bucket(&format!("mut_{kind}"));
            out.bucket(&format!("api_{api_s}"));
            out.bucket(&format!("warm_{}", warm.len()));
            out.bucket(&format!("ans_{}", ans.split(' ').next().unwrap()));
            out.bucket(if invalid_here { "oracle_invalid" } else { "oracle_no_claim" });
            if gm.optimize {
                out.bucket("model_optimized");
            }
            if gm.control_flow {
                out.bucket("model_control_flow");
                out.bucket(&format!("cf_ans_{}", ans.split(' ').next().unwrap()));
            }
            out.case(&line, &ans, pf.as_deref(), !warm.is_empty() || kind != "none");
        }
    }
    // run_one on a model without inputs: Err(InvalidNodeId), not a panic
    {
        let g = onnx_enc::Graph {
            nodes: vec![onnx_enc::Node::new("Relu", "r", &["c"], &["o"])],
            initializers: vec![onnx_enc::Tensor::f32s("c", &[2], &[1.0, -1.0])],
            outputs: vec![onnx_enc::ValueInfo::new("o", onnx_enc::dt::FLOAT, None)],
            ..Default::default()
        };
        let model = load(&g.into_model_bytes(18), false).unwrap();
        let v = rten_tensor::Tensor::<f32>::from_data(&[2], vec![1.0, 2.0]);
        let r = hcommon::catch(|| model.run_one(rten::ValueOrView::from(rten::Value::from(v)), None).map(|_| ()).map_err(|e| classify(&e)));
        let (ans, pf) = match r {
            Ok(Err(c)) => (c, None),
            Ok(Ok(())) => ("ok".to_string(), Some("run_one without a model input returned Ok".to_string())),
            Err(p) => ("panic".to_string(), Some(format!("panic: {p}"))),
        };
        out.case("wrap run-one-no-input", &ans, pf.as_deref(), false);
    }
    // run / partial_run on an If whose `then` branch reads a name that exists nowhere ("ghost"): the
    // loader accepts the model; the nested run of that branch fails in its own create_plan ("Missing
    // input") and the parent run reports an operator (subgraph) error - an invalid request reaching an
    // If body. (The op's capture_names() do not contain the unresolvable name, so prune_plan's third
    // condition stays false: its true case is not reachable through Model::partial_run.)
    {
        use onnx_enc::{dt, Attr, Dim, Graph, Node, ValueInfo};
        let then_g = Graph {
            name: "then_g".into(),
            nodes: vec![Node::new("Add", "t_add", &["x", "ghost"], &["t_r"])],
            outputs: vec![ValueInfo::new("t_r", dt::FLOAT, None)],
            ..Default::default()
        };
        let else_g = Graph {
            name: "else_g".into(),
            nodes: vec![Node::new("Identity", "e_id", &["x"], &["e_r"])],
            outputs: vec![ValueInfo::new("e_r", dt::FLOAT, None)],
            ..Default::default()
        };
        let g = Graph {
            nodes: vec![
                Node::new("Relu", "op_a", &["x"], &["a"]),
                Node::new("If", "op_if", &["cond"], &["r"]).attr("then_branch", Attr::Graph(then_g)).attr("else_branch", Attr::Graph(else_g)),
                Node::new("Neg", "op_z", &["r"], &["z"]),
            ],
            inputs: vec![
                ValueInfo::new("x", dt::FLOAT, Some(vec![Dim::Sym("n".into()), Dim::Fixed(4)])),
                ValueInfo::new("cond", dt::BOOL, Some(vec![])),
            ],
            outputs: vec![ValueInfo::new("z", dt::FLOAT, None), ValueInfo::new("a", dt::FLOAT, None)],
            ..Default::default()
        };
        match load(&g.into_model_bytes(18), false) {
            Err(e) => out.note(&format!("model with an unresolvable name in an If branch does not load ({e})")),
            Ok(model) => {
                let (nodes_field, meta_field, _, _) = read_back(&model);
                let id = |n: &str| model.find_node(n).unwrap().as_u32();
                for (owned, cond, outs) in [(false, 0, vec!["z", "a"]), (true, 1, vec!["z"]), (false, 1, vec!["r", "a"]), (true, 0, vec!["a"])] {
                    let req = Req {
                        inputs: vec![
                            (id("x"), Spec { dtype: 1, shape: vec![2, 4], owned, ival: 0 }),
                            (id("cond"), Spec { dtype: 0, shape: vec![], owned: false, ival: cond }),
                        ],
                        outs: outs.iter().map(|o| id(o)).collect(),
                    };
                    for api in [Api::Partial, Api::Run] {
                        let (ans, panic_msg) = exec(&model, api, &req);
                        let ops_ok = if ans == "err:op" { 0 } else { 1 };
                        let api_s = if api == Api::Partial { "partial" } else { "run" };
                        let line = format!("{api_s} 1 {ops_ok} {nodes_field} {meta_field} - {}", req.token());
                        let pf = panic_msg.map(|p| format!("panic: {p}"));
                        out.bucket("unresolved_capture_name");
                        out.bucket(&format!("unresolved_capture_{api_s}_{}", ans.split(' ').next().unwrap()));
                        out.case(&line, &ans, pf.as_deref(), true);
                    }
                }
            }
        }
    }
    out.note(&format!("models that failed to load: {load_fail}"));
    out.finish("any panic is a violation; a request invalid by construction that returns Ok is a violation; outcome class (and partial_run leaf ids) equal the Lean model's");
}
