//! C23: `rten::BufferPool` (alloc / add / PoolRef drop) against the Lean pool model.
//!
//! A *session* creates one pool and lets 1..=3 OS threads perform random
//! `alloc::<T>` / `add` / `drop` / `PoolRef` operations on it. Every public call is cut into
//! the model's atomic steps using the `cfg(rten_verif)` critical-section log
//! (`rten::verif::pool_log`): a call that logged nothing never took the pool mutex (small
//! request bypass / rejected add), otherwise the logged sequence number is the position of
//! its critical section in the global order. Non-critical steps are stamped from the same
//! counter (releases *before* the call, acquisitions *after* it, so a free always precedes a
//! re-use of the same address). Sorting all steps by stamp gives a linearisation, which is
//! written to `req.txt` one step per line (see Driver/C23.lean for the protocol) and replayed
//! by the model; the implementation's answer per step is reconstructed from what the thread
//! observed (pointer identity -> allocation ordinal, `Vec::capacity`).
//!
//! Independent oracle on the implementation (PROPFAIL):
//!  * returned capacity >= requested, pointer aligned for `T`, `len == 0`;
//!  * a pointer returned as pool hit is a live pooled allocation and is not held by anybody;
//!    a fresh allocation does not alias a live one;
//!  * every holder fills its buffer with a private byte pattern and re-checks it before giving
//!    the buffer up (two simultaneous holders would clobber each other);
//!  * at quiescence `len == adds - hits`, `alloc_count`/`hit_count` equal the logged counts.
//!
//! Sessions with `# stress` lines run with the ordering lock of the hook switched off (only the
//! real mutex serialises the threads); they are checked by the oracle only, not replayed.
//!
//! A tracking global allocator adds an implementation-level oracle for the "freed exactly once,
//! with the right layout, nothing leaked" part: every `dealloc`/`realloc` in the process must
//! present the layout the block was allocated with and must name a live block, and after the pool
//! was dropped no allocation made inside a pool call may still be live.
use hcommon::{Args, Out, Rng};
use rten::verif::pool_log;
use rten::{BufferPool, ExtractBuffer, PoolRef};
use std::collections::HashMap;
use std::sync::Barrier;

mod track {
    use std::alloc::{GlobalAlloc, Layout, System};
    use std::cell::Cell;
    use std::sync::atomic::{AtomicBool, AtomicI64, AtomicU64, Ordering};

    const BITS: u32 = 18;
    const N: usize = 1 << BITS;
    struct Table {
        ptr: [usize; N],
        lay: [u64; N],
    }
    static mut TABLE: Table = Table { ptr: [0; N], lay: [0; N] };
    static LOCK: AtomicBool = AtomicBool::new(false);
    /// deallocations whose layout differs from the allocation's
    pub static BAD_LAYOUT: AtomicU64 = AtomicU64::new(0);
    /// deallocations of a pointer that is not a live allocation (double free)
    pub static UNKNOWN_FREE: AtomicU64 = AtomicU64::new(0);
    /// live allocations made while the calling thread's tag was set
    pub static TAGGED_LIVE: AtomicI64 = AtomicI64::new(0);
    pub static LAST_BAD: [AtomicU64; 3] = [AtomicU64::new(0), AtomicU64::new(0), AtomicU64::new(0)];

    thread_local! {
        static TAG: Cell<bool> = const { Cell::new(false) };
    }
    /// Mark allocations of the current thread as "made inside a pool call".
    pub fn set_tag(on: bool) {
        let _ = TAG.try_with(|t| t.set(on));
    }
    fn tag() -> bool {
        TAG.try_with(|t| t.get()).unwrap_or(false)
    }
    fn enc(size: usize, align: usize, tagged: bool) -> u64 {
        ((size as u64) << 8) | ((tagged as u64) << 7) | align.trailing_zeros() as u64
    }
    fn hash(p: usize) -> usize {
        (((p >> 3) as u64).wrapping_mul(0x9E3779B97F4A7C15) >> (64 - BITS)) as usize
    }
    struct Held;
    fn lock() -> Held {
        while LOCK.compare_exchange_weak(false, true, Ordering::Acquire, Ordering::Relaxed).is_err() {
            std::hint::spin_loop();
        }
        Held
    }
    impl Drop for Held {
        fn drop(&mut self) {
            LOCK.store(false, Ordering::Release);
        }
    }
    unsafe fn insert(p: usize, lay: u64) {
        let t = &mut *std::ptr::addr_of_mut!(TABLE);
        let mut i = hash(p);
        while t.ptr[i] != 0 {
            i = (i + 1) & (N - 1);
        }
        t.ptr[i] = p;
        t.lay[i] = lay;
        if lay & 0x80 != 0 {
            TAGGED_LIVE.fetch_add(1, Ordering::Relaxed);
        }
    }
    /// Remove `p`; returns its recorded layout word.
    unsafe fn remove(p: usize) -> Option<u64> {
        let t = &mut *std::ptr::addr_of_mut!(TABLE);
        let mut i = hash(p);
        loop {
            if t.ptr[i] == 0 {
                return None;
            }
            if t.ptr[i] == p {
                break;
            }
            i = (i + 1) & (N - 1);
        }
        let lay = t.lay[i];
        // backward-shift deletion
        loop {
            t.ptr[i] = 0;
            let mut j = i;
            loop {
                j = (j + 1) & (N - 1);
                if t.ptr[j] == 0 {
                    if lay & 0x80 != 0 {
                        TAGGED_LIVE.fetch_sub(1, Ordering::Relaxed);
                    }
                    return Some(lay);
                }
                let k = hash(t.ptr[j]);
                let between = if i <= j { i < k && k <= j } else { i < k || k <= j };
                if !between {
                    break;
                }
            }
            t.ptr[i] = t.ptr[j];
            t.lay[i] = t.lay[j];
            i = j;
        }
    }
    /// Check a release of `p` with `layout`; false = do not pass it on to the system allocator.
    unsafe fn release(p: usize, layout: Layout) -> (bool, bool) {
        match remove(p) {
            None => {
                UNKNOWN_FREE.fetch_add(1, Ordering::Relaxed);
                LAST_BAD[0].store(p as u64, Ordering::Relaxed);
                (false, false)
            }
            Some(lay) => {
                if lay & !0x80 != enc(layout.size(), layout.align(), false) {
                    BAD_LAYOUT.fetch_add(1, Ordering::Relaxed);
                    LAST_BAD[0].store(p as u64, Ordering::Relaxed);
                    LAST_BAD[1].store(lay & !0x80, Ordering::Relaxed);
                    LAST_BAD[2].store(enc(layout.size(), layout.align(), false), Ordering::Relaxed);
                }
                (true, lay & 0x80 != 0)
            }
        }
    }
    pub struct Tracker;
    unsafe impl GlobalAlloc for Tracker {
        unsafe fn alloc(&self, layout: Layout) -> *mut u8 {
            let p = System.alloc(layout);
            if !p.is_null() {
                let tagged = tag();
                let _g = lock();
                insert(p as usize, enc(layout.size(), layout.align(), tagged));
            }
            p
        }
        unsafe fn alloc_zeroed(&self, layout: Layout) -> *mut u8 {
            let p = System.alloc_zeroed(layout);
            if !p.is_null() {
                let tagged = tag();
                let _g = lock();
                insert(p as usize, enc(layout.size(), layout.align(), tagged));
            }
            p
        }
        unsafe fn dealloc(&self, p: *mut u8, layout: Layout) {
            let ok = {
                let _g = lock();
                release(p as usize, layout).0
            };
            if ok {
                System.dealloc(p, layout)
            }
        }
        unsafe fn realloc(&self, p: *mut u8, layout: Layout, new_size: usize) -> *mut u8 {
            let (ok, was_tagged) = {
                let _g = lock();
                release(p as usize, layout)
            };
            if !ok {
                return std::ptr::null_mut();
            }
            let q = System.realloc(p, layout, new_size);
            let tagged = was_tagged || tag();
            let _g = lock();
            if q.is_null() {
                insert(p as usize, enc(layout.size(), layout.align(), was_tagged));
            } else {
                insert(q as usize, enc(new_size, layout.align(), tagged));
            }
            q
        }
    }
    pub fn snapshot() -> (u64, u64, i64) {
        (BAD_LAYOUT.load(Ordering::SeqCst), UNKNOWN_FREE.load(Ordering::SeqCst), TAGGED_LIVE.load(Ordering::SeqCst))
    }
}

#[global_allocator]
static GLOBAL: track::Tracker = track::Tracker;

macro_rules! types {
    ($($name:ident : $t:ty),* $(,)?) => {
        #[derive(Clone, Copy, PartialEq, Eq, Debug, Hash)]
        enum TyId { $($name),* }
        const ALL_TYPES: &[TyId] = &[$(TyId::$name),*];
        enum AnyVec { $($name(Vec<$t>)),* }
        impl TyId {
            fn size_align(self) -> (usize, usize) {
                match self { $(TyId::$name => (std::mem::size_of::<$t>(), std::mem::align_of::<$t>())),* }
            }
            fn name(self) -> &'static str { match self { $(TyId::$name => stringify!($t)),* } }
            fn alloc(self, pool: &BufferPool, cap: usize) -> AnyVec {
                match self { $(TyId::$name => AnyVec::$name(pool.alloc::<$t>(cap))),* }
            }
            /// `NdTensor::zeros_in(&pool, [cap])` (the `Alloc` trait path), data taken back out.
            fn alloc_tensor(self, pool: &BufferPool, cap: usize) -> AnyVec {
                match self { $(TyId::$name => {
                    let mut v = rten_tensor::NdTensor::<$t, 1>::zeros_in(pool, [cap]).into_data();
                    v.clear();
                    AnyVec::$name(v)
                }),* }
            }
        }
        impl AnyVec {
            fn ptr(&self) -> usize { match self { $(AnyVec::$name(v) => v.as_ptr() as usize),* } }
            fn capacity(&self) -> usize { match self { $(AnyVec::$name(v) => v.capacity()),* } }
            fn len(&self) -> usize { match self { $(AnyVec::$name(v) => v.len()),* } }
            fn add_to(self, pool: &BufferPool) { match self { $(AnyVec::$name(v) => pool.add(v)),* } }
            /// `PoolRef::new(pool, vec)`, a deref, then drop of the ref.
            fn pool_ref_drop(self, pool: &BufferPool) {
                match self { $(AnyVec::$name(v) => {
                    let r = PoolRef::new(pool, v);
                    std::hint::black_box(r.capacity());
                    drop(r);
                }),* }
            }
            /// `PoolRef::new(pool, vec).take()`: must hand the vec back untouched.
            fn pool_ref_take(self, pool: &BufferPool) -> AnyVec {
                match self { $(AnyVec::$name(v) => AnyVec::$name(PoolRef::new(pool, v).take())),* }
            }
            /// `NdTensor::from_data(..).extract_buffer()` then `pool.add` (always `Some`, also for capacity 0).
            fn tensor_extract_add(self, pool: &BufferPool) {
                match self { $(AnyVec::$name(mut v) => {
                    let k = v.capacity().min(3);
                    v.resize(k, Default::default());
                    let t = rten_tensor::NdTensor::<$t, 1>::from_data([k], v);
                    if let Some(b) = t.extract_buffer() { pool.add(b) }
                }),* }
            }
            /// `extract_buffer()` then `pool.add(buffer)` (what `PoolRef::drop` does, by hand).
            fn extract_and_add(self, pool: &BufferPool) {
                match self { $(AnyVec::$name(v) => {
                    if let Some(b) = v.extract_buffer() { pool.add(b) }
                }),* }
            }
        }
    };
}

types! {
    U8: u8, I8: i8, U16: u16, I32: i32, F32: f32, U64: u64, F64: f64,
    A3U8: [u8; 3], A4U8: [u8; 4], A2U16: [u16; 2], A2U32: [u32; 2], A3U32: [u32; 3],
    U128: u128, Unit: (), Z4: [u32; 0],
}

impl AnyVec {
    fn bytes(&self, ty: TyId) -> usize {
        self.capacity().wrapping_mul(ty.size_align().0)
    }
    /// Fill the whole capacity with `tag` (raw writes into the spare capacity).
    fn fill(&mut self, ty: TyId, tag: u8) {
        let n = self.bytes(ty);
        if n > 0 && n <= (1 << 22) {
            unsafe { std::ptr::write_bytes(self.ptr() as *mut u8, tag, n) }
        }
    }
    fn check(&self, ty: TyId, tag: u8) -> bool {
        let n = self.bytes(ty);
        if n > 0 && n <= (1 << 22) {
            let p = self.ptr() as *const u8;
            (0..n).all(|i| unsafe { std::ptr::read_volatile(p.add(i)) } == tag)
        } else {
            true
        }
    }
}

#[derive(Clone, Copy, PartialEq, Debug)]
enum Kind {
    AllocStart, // a
    Lock,       // l
    Fallback,   // f
    AddStart,   // d
    Push,       // p
    DropVec,    // x
    RefDrop,    // r
}

#[derive(Clone, Debug)]
enum Res {
    Pend,
    Got { ptr: usize, cap: usize, len: usize }, // byp / hit / fresh (by step kind)
    Miss,
    Panic,
    Rejected,
    Pushed,
    Freed,
    NoBuf,
}

#[derive(Clone, Debug)]
struct Event {
    key: u64,
    tid: usize,
    kind: Kind,
    slot: u64,
    ty: TyId,
    req_cap: usize,
    res: Res,
    /// pointer / byte size of the vec being released (release steps)
    rel_ptr: usize,
    rel_bytes: usize,
    tag_ok: bool,
}

struct Slot {
    slot: u64,
    tid: usize,
    ty: TyId,
    v: AnyVec,
    tag: u8,
}

struct Worker<'a> {
    pool: &'a BufferPool,
    min_size: usize,
    rng: Rng,
    phys_tid: usize,
    logical_tids: usize, // >1 only for single-threaded sessions
    slots: Vec<Slot>,
    events: Vec<Event>,
    next_slot: u64,
    hot_caps: Vec<usize>,
    mt: bool,
    with_overflow: bool,
}

impl<'a> Worker<'a> {
    fn ev(&mut self, key: u64, tid: usize, kind: Kind, slot: u64, ty: TyId, req_cap: usize, res: Res) {
        self.events.push(Event { key, tid, kind, slot, ty, req_cap, res, rel_ptr: 0, rel_bytes: 0, tag_ok: true });
    }

    fn pick_cap(&mut self, ty: TyId) -> usize {
        let (size, _) = ty.size_align();
        let r = self.rng.below(100);
        if self.with_overflow && r < 2 {
            // byte size >= 2^63: wraps in the bypass test or exceeds isize::MAX
            return if size == 0 {
                *self.rng.pick(&[usize::MAX, usize::MAX - 1, 1 << 63])
            } else if size > 1 && self.rng.chance(1, 2) {
                (usize::MAX / size) + 1 + self.rng.usize_below(40)
            } else {
                ((1usize << 63) / size) + 1 + self.rng.usize_below(4)
            };
        }
        if r < 40 && size > 0 {
            // around the min-size threshold
            let base = self.min_size / size;
            return (base as i64 + self.rng.range_i64(-2, 3)).max(0) as usize;
        }
        if r < 75 {
            let c = *self.rng.pick(&self.hot_caps);
            return (c as i64 + self.rng.range_i64(-1, 1)).max(0) as usize;
        }
        if r < 80 {
            return 0;
        }
        self.rng.usize_below(300)
    }

    fn maybe_yield(&mut self) {
        if self.mt {
            match self.rng.below(8) {
                0 => std::thread::yield_now(),
                1 => {
                    for _ in 0..self.rng.below(200) {
                        std::hint::spin_loop()
                    }
                }
                _ => {}
            }
        }
    }

    fn op_alloc(&mut self) {
        let ty = *self.rng.pick(ALL_TYPES);
        let ty = if self.rng.chance(3, 4) {
            // favour the types that can share buffers
            *self.rng.pick(&[TyId::U8, TyId::I8, TyId::I32, TyId::F32, TyId::U64, TyId::F64, TyId::A3U8, TyId::A4U8, TyId::A2U16, TyId::A2U32])
        } else {
            ty
        };
        let cap = self.pick_cap(ty);
        let tid = if self.mt { self.phys_tid } else { self.rng.usize_below(self.logical_tids) };
        let slot = self.next_slot;
        self.next_slot += 1;
        pool_log::take_thread_log();
        let pool = self.pool;
        let via_tensor = ty.size_align().0 > 0 && cap <= 1000 && self.rng.chance(1, 6);
        let r = hcommon::catch(|| {
            track::set_tag(true);
            let v = if via_tensor { ty.alloc_tensor(pool, cap) } else { ty.alloc(pool, cap) };
            track::set_tag(false);
            v
        });
        let log = pool_log::take_thread_log();
        track::set_tag(false);
        let s_post = pool_log::next_seq();
        let got = |v: &AnyVec| Res::Got { ptr: v.ptr(), cap: v.capacity(), len: v.len() };
        match (log.as_slice(), &r) {
            ([], Ok(v)) => self.ev(s_post * 2, tid, Kind::AllocStart, slot, ty, cap, got(v)),
            ([], Err(_)) => self.ev(s_post * 2, tid, Kind::AllocStart, slot, ty, cap, Res::Panic),
            ([(s, k)], _) => {
                self.ev(s * 2, tid, Kind::AllocStart, slot, ty, cap, Res::Pend);
                if *k == pool_log::ALLOC_HIT {
                    let res = match &r {
                        Ok(v) => got(v),
                        Err(_) => Res::Panic,
                    };
                    self.ev(s * 2 + 1, tid, Kind::Lock, slot, ty, cap, res);
                } else {
                    self.ev(s * 2 + 1, tid, Kind::Lock, slot, ty, cap, Res::Miss);
                    let res = match &r {
                        Ok(v) => got(v),
                        Err(_) => Res::Panic,
                    };
                    self.ev(s_post * 2, tid, Kind::Fallback, slot, ty, cap, res);
                }
            }
            _ => panic!("harness: unexpected critical-section log {log:?}"),
        }
        if let Ok(mut v) = r {
            let tag = (self.rng.below(255) + 1) as u8;
            v.fill(ty, tag);
            self.slots.push(Slot { slot, tid, ty, v, tag });
        }
    }

    /// Give up a random held vec: add / plain drop / PoolRef drop / extract+add.
    fn op_release(&mut self, how: u64) {
        if self.slots.is_empty() {
            return;
        }
        let i = self.rng.usize_below(self.slots.len());
        let Slot { slot, tid, ty, mut v, tag } = self.slots.swap_remove(i);
        if self.rng.chance(1, 10) {
            v = v.pool_ref_take(self.pool);
        }
        let tag_ok = v.check(ty, tag);
        let rel_ptr = v.ptr();
        let rel_bytes = v.bytes(ty);
        let cap0 = v.capacity() == 0;
        pool_log::take_thread_log();
        let s_pre = pool_log::next_seq();
        let pool = self.pool;
        let first = self.events.len();
        match how {
            0 => {
                drop(v);
                self.ev(s_pre * 2, tid, Kind::DropVec, slot, ty, 0, Res::Freed);
            }
            1 | 4 => {
                let r = hcommon::catch(|| {
                    track::set_tag(true);
                    if how == 1 { v.add_to(pool) } else { v.tensor_extract_add(pool) }
                    track::set_tag(false);
                });
                let log = pool_log::take_thread_log();
                track::set_tag(false);
                match (log.as_slice(), r) {
                    ([], Ok(())) => self.ev(s_pre * 2, tid, Kind::AddStart, slot, ty, 0, Res::Rejected),
                    ([], Err(_)) => self.ev(s_pre * 2, tid, Kind::AddStart, slot, ty, 0, Res::Panic),
                    ([(s, _)], _) => {
                        self.ev(s * 2, tid, Kind::AddStart, slot, ty, 0, Res::Pend);
                        self.ev(s * 2 + 1, tid, Kind::Push, slot, ty, 0, Res::Pushed);
                    }
                    _ => panic!("harness: unexpected critical-section log {log:?}"),
                }
            }
            _ => {
                let r = hcommon::catch(|| {
                    track::set_tag(true);
                    if how == 2 { v.pool_ref_drop(pool) } else { v.extract_and_add(pool) }
                    track::set_tag(false);
                });
                let log = pool_log::take_thread_log();
                track::set_tag(false);
                match (log.as_slice(), r) {
                    ([], Ok(())) => {
                        let res = if cap0 { Res::NoBuf } else { Res::Rejected };
                        self.ev(s_pre * 2, tid, Kind::RefDrop, slot, ty, 0, res)
                    }
                    ([], Err(_)) => self.ev(s_pre * 2, tid, Kind::RefDrop, slot, ty, 0, Res::Panic),
                    ([(s, _)], _) => {
                        self.ev(s * 2, tid, Kind::RefDrop, slot, ty, 0, Res::Pend);
                        self.ev(s * 2 + 1, tid, Kind::Push, slot, ty, 0, Res::Pushed);
                    }
                    _ => panic!("harness: unexpected critical-section log {log:?}"),
                }
            }
        }
        let e = &mut self.events[first];
        e.rel_ptr = rel_ptr;
        e.rel_bytes = rel_bytes;
        e.tag_ok = tag_ok;
    }

    fn run_ops(&mut self, n: usize) {
        for _ in 0..n {
            self.maybe_yield();
            let r = self.rng.below(100);
            if self.slots.len() < 6 && r < 50 || self.slots.is_empty() {
                self.op_alloc();
            } else if r < 74 {
                self.op_release(1);
            } else if r < 80 {
                self.op_release(4);
            } else if r < 86 {
                self.op_release(0);
            } else if r < 94 {
                self.op_release(2);
            } else {
                self.op_release(3);
            }
        }
    }

    fn release_all(&mut self) {
        while !self.slots.is_empty() {
            let how = *self.rng.pick(&[0u64, 1, 1, 2, 4]);
            self.op_release(how);
        }
    }
}

struct SessionCfg {
    index: u64,
    threads: usize,
    ops: usize,
    ordered: bool,
    min_size: usize,
    with_overflow: bool,
}

struct SessionResult {
    events: Vec<Event>,
    len: usize,
    allocs: usize,
    hits: usize,
    /// pointers (bytes > 0) still held by the workers at the first quiescent point
    held_ptrs: Vec<usize>,
    /// tracking allocator: (bad-layout frees, unknown frees, tagged allocations still live) deltas
    track_delta: (u64, u64, i64),
}

fn run_session(cfg: &SessionCfg, rng: &mut Rng) -> SessionResult {
    let t0 = track::snapshot();
    let pool = if cfg.min_size == 128 && rng.chance(1, 2) {
        BufferPool::new()
    } else {
        BufferPool::new().with_min_size(cfg.min_size)
    };
    pool_log::set_ordered(cfg.ordered);
    let mt = cfg.threads > 1;
    let hot: Vec<usize> = (0..4).map(|_| 1 + rng.usize_below(48)).collect();
    let mut workers: Vec<Worker> = (0..cfg.threads)
        .map(|t| Worker {
            pool: &pool,
            min_size: cfg.min_size,
            rng: Rng::new(rng.next_u64()),
            phys_tid: t,
            logical_tids: if mt { 1 } else { 3 },
            slots: vec![],
            events: vec![],
            next_slot: cfg.index * 8_000_000 + (t as u64) * 1_000_000,
            hot_caps: hot.clone(),
            mt,
            with_overflow: cfg.with_overflow,
        })
        .collect();
    let ops = cfg.ops;
    let mut held_ptrs = vec![];
    if mt {
        let barrier = Barrier::new(cfg.threads);
        std::thread::scope(|s| {
            for w in workers.iter_mut() {
                let b = &barrier;
                s.spawn(move || {
                    pool_log::take_thread_log();
                    b.wait();
                    w.run_ops(ops);
                });
            }
        });
        for w in &workers {
            for s in &w.slots {
                if s.v.bytes(s.ty) > 0 {
                    held_ptrs.push(s.v.ptr());
                }
            }
        }
        let barrier = Barrier::new(cfg.threads);
        std::thread::scope(|s| {
            for w in workers.iter_mut() {
                let b = &barrier;
                s.spawn(move || {
                    b.wait();
                    w.release_all();
                });
            }
        });
    } else {
        let w = &mut workers[0];
        w.run_ops(ops);
        for s in &w.slots {
            if s.v.bytes(s.ty) > 0 {
                held_ptrs.push(s.v.ptr());
            }
        }
        w.release_all();
    }
    pool_log::set_ordered(false);
    let mut events: Vec<Event> = workers.into_iter().flat_map(|w| w.events).collect();
    events.sort_by_key(|e| e.key);
    let (len, allocs, hits) = (pool.len(), pool.alloc_count(), pool.hit_count());
    drop(pool);
    let t1 = track::snapshot();
    SessionResult { events, len, allocs, hits, held_ptrs, track_delta: (t1.0 - t0.0, t1.1 - t0.1, t1.2 - t0.2) }
}

fn idz(ord: Option<u64>, bytes: usize) -> String {
    if bytes == 0 {
        "z".into()
    } else {
        match ord {
            Some(o) => o.to_string(),
            None => "?".into(),
        }
    }
}

/// Reconstruct the implementation's answer for every step of the linearisation and evaluate the
/// oracle. Returns (request, answer, propfail) per step.
fn answers(cfg: &SessionCfg, r: &SessionResult) -> Vec<(String, String, Option<String>)> {
    let mut out = vec![];
    let mut next_ord: u64 = 0;
    let mut live: HashMap<usize, u64> = HashMap::new(); // ptr -> ordinal of live allocations
    let mut holder: HashMap<u64, u64> = HashMap::new(); // ordinal -> slot
    let mut slot_ord: HashMap<u64, Option<u64>> = HashMap::new();
    let (mut n_alloc, mut n_hit, mut n_add) = (0usize, 0usize, 0usize);
    let exact_order = cfg.ordered || cfg.threads == 1;
    for e in &r.events {
        let (size, align) = e.ty.size_align();
        let mut fail: Option<String> = None;
        let mut set_fail = |m: String| {
            // identity checks need the exact order of critical sections
            let order_dependent = m.starts_with("buffer #") || m.starts_with("pool hit") || m.starts_with("fresh allocation");
            if fail.is_none() && (exact_order || !order_dependent) {
                fail = Some(m)
            }
        };
        let req = match e.kind {
            Kind::AllocStart => format!("{} a {} {} {} {}", e.tid, e.slot, size, align, e.req_cap),
            Kind::Lock => format!("{} l {}", e.tid, e.slot),
            Kind::Fallback => format!("{} f {}", e.tid, e.slot),
            Kind::AddStart => format!("{} d {}", e.tid, e.slot),
            Kind::Push => format!("{} p {}", e.tid, e.slot),
            Kind::DropVec => format!("{} x {}", e.tid, e.slot),
            Kind::RefDrop => format!("{} r {}", e.tid, e.slot),
        };
        if e.kind == Kind::Lock {
            n_alloc += 1;
        }
        let ans = match &e.res {
            Res::Pend => {
                if !e.tag_ok {
                    set_fail("buffer contents were overwritten while held (second holder?)".into());
                }
                if e.kind != Kind::AllocStart {
                    // add accepted: holder gives the buffer up, allocation stays live (pooled)
                    if let Some(Some(o)) = slot_ord.remove(&e.slot) {
                        holder.remove(&o);
                    }
                }
                "pend".to_string()
            }
            Res::Miss => "miss".into(),
            Res::Panic => {
                // Only `Vec::with_capacity` ("capacity overflow") may panic; a panic inside the
                // critical section or in `add` would also poison the pool mutex.
                if !matches!(e.kind, Kind::AllocStart | Kind::Fallback) {
                    set_fail("panic inside the pool (critical section of alloc, or add)".into());
                }
                "panic".into()
            }
            Res::Pushed => {
                n_add += 1;
                "ok".into()
            }
            Res::Got { ptr, cap, len } => {
                let bytes = cap.wrapping_mul(size);
                if *cap < e.req_cap {
                    set_fail(format!("capacity {} < requested {} for {}", cap, e.req_cap, e.ty.name()));
                }
                if ptr % align != 0 || *ptr == 0 {
                    set_fail(format!("pointer {:#x} not aligned to {} for {}", ptr, align, e.ty.name()));
                }
                if *len != 0 {
                    set_fail(format!("returned vec has len {}", len));
                }
                let is_hit = e.kind == Kind::Lock;
                if is_hit {
                    n_hit += 1;
                }
                let mut ord = None;
                if bytes > 0 {
                    if is_hit {
                        match live.get(ptr) {
                            Some(&o) => {
                                ord = Some(o);
                                if let Some(s) = holder.get(&o) {
                                    set_fail(format!("buffer #{o} handed out while still held in slot {s}"));
                                }
                            }
                            None => set_fail(format!("pool hit returned pointer {:#x} that is not a live pooled allocation", ptr)),
                        }
                    } else {
                        ord = Some(next_ord);
                        if let Some(o) = live.insert(*ptr, next_ord) {
                            set_fail(format!("fresh allocation aliases live buffer #{o}"));
                        }
                    }
                    if let Some(o) = ord {
                        holder.insert(o, e.slot);
                    }
                }
                if !is_hit {
                    next_ord += 1;
                }
                slot_ord.insert(e.slot, ord);
                let w = match e.kind {
                    Kind::AllocStart => "byp",
                    Kind::Lock => "hit",
                    _ => "fresh",
                };
                format!("{} {} {}", w, idz(ord, bytes), cap)
            }
            Res::Rejected | Res::Freed | Res::NoBuf => {
                if !e.tag_ok {
                    set_fail("buffer contents were overwritten while held (second holder?)".into());
                }
                let ord = slot_ord.remove(&e.slot).flatten();
                if let Some(o) = ord {
                    holder.remove(&o);
                }
                if e.rel_bytes > 0 {
                    live.remove(&e.rel_ptr);
                }
                let w = match e.res {
                    Res::Rejected => "rej",
                    Res::Freed => "free",
                    _ => "nobuf",
                };
                format!("{} {}", w, idz(ord, e.rel_bytes))
            }
        };
        out.push((req, ans, fail));
    }
    // quiescent accounting
    let mut fail = None;
    if r.allocs != n_alloc || r.hits != n_hit {
        fail = Some(format!("counters: alloc_count {} (logged {}), hit_count {} (logged {})", r.allocs, n_alloc, r.hits, n_hit));
    } else if r.len + n_hit != n_add {
        fail = Some(format!("pool.len() {} != accepted adds {} - hits {}", r.len, n_add, n_hit));
    }
    let mut hp = r.held_ptrs.clone();
    hp.sort();
    if hp.windows(2).any(|w| w[0] == w[1]) {
        fail = Some("two live holders own the same pointer".into());
    }
    out.push(("stat".into(), format!("len={} allocs={} hits={}", r.len, r.allocs, r.hits), fail));
    let (bad, unknown, leaked) = r.track_delta;
    let mut fail = None;
    if bad != 0 || unknown != 0 {
        fail = Some(format!(
            "allocator contract: {bad} deallocation(s) with a layout different from the allocation's, {unknown} of a non-live pointer"
        ));
    } else if leaked != 0 {
        fail = Some(format!("{leaked} allocation(s) made inside pool calls are still live after the pool was dropped"));
    }
    out.push(("end".into(), format!("dropped {}", r.len), fail));
    out
}

/// Run one session; a panic that escapes the per-call `catch` (e.g. a poisoned pool mutex) is
/// itself a failure of the property's "never panics inside the pool" consequence.
fn session(out: &mut Out, cfg: &SessionCfg, rng: &mut Rng) {
    match hcommon::catch(|| run_session(cfg, rng)) {
        Ok(r) => emit_session(out, cfg, &r),
        Err(m) => {
            track::set_tag(false);
            pool_log::set_ordered(false);
            out.case(
                &format!("# session {} min_size={} threads={}", cfg.index, cfg.min_size, cfg.threads),
                "panic",
                Some(&format!("session aborted by a panic outside alloc/add/drop calls: {m}")),
                false,
            );
        }
    }
}

fn emit_session(out: &mut Out, cfg: &SessionCfg, r: &SessionResult) {
    let steps = answers(cfg, r);
    let mode = if cfg.threads == 1 { "st" } else if cfg.ordered { "mt" } else { "stress" };
    out.bucket(&format!("session_{mode}_{}thr", cfg.threads));
    out.bucket(&format!("min_size_{}", cfg.min_size));
    if cfg.ordered || cfg.threads == 1 {
        out.case(&format!("new {}", cfg.min_size), "ok", None, false);
        for (req, ans, fail) in &steps {
            let w = ans.split(|c| c == ' ' || c == '=').next().unwrap_or("");
            out.bucket(&format!("step_{w}"));
            if ans.ends_with(" z") || ans.contains(" z ") {
                out.bucket("zero_size_buffer");
            }
            out.case(req, ans, fail.as_deref(), matches!(w, "hit" | "rej" | "nobuf" | "panic"));
        }
    } else {
        // oracle only
        let fails: Vec<String> = steps.iter().filter_map(|(rq, an, f)| f.as_ref().map(|m| format!("[{rq} -> {an}] {m}"))).collect();
        let hits = steps.iter().filter(|s| s.1.starts_with("hit")).count();
        out.bucket("stress_hits_total");
        let req = format!("# stress min_size={} threads={} steps={} hits={}", cfg.min_size, cfg.threads, steps.len(), hits);
        out.case(&req, "ok", fails.first().map(|s| s.as_str()), hits > 0);
    }
}

fn main() {
    let args: Args = hcommon::parse_args();
    hcommon::quiet_panics();
    let mut out = Out::new(&args.out);
    let mut rng = Rng::new(args.seed);
    let min_sizes = [0usize, 0, 1, 16, 18, 64, 128, 128, 256, 1024];
    let scale = if args.thorough { 12 } else { 1 };

    // (a) hand-written corner sessions are covered by the generators below with probability
    // mass on: min_size 0 (zero-sized layouts enter the pool), capacity 0, ZSTs, byte sizes
    // that wrap in the bypass test.
    // (b) single-threaded sessions (deterministic in the seed)
    let mut index = 0u64;
    for i in 0..600 * scale {
        index += 1;
        let cfg = SessionCfg {
            index,
            threads: 1,
            ops: 20 + rng.usize_below(60),
            ordered: true,
            min_size: *rng.pick(&min_sizes),
            with_overflow: i % 3 == 0,
        };
        session(&mut out, &cfg, &mut rng);
    }
    // (c) multi-threaded sessions with the logged order of critical sections replayed on the model
    for _ in 0..500 * scale {
        index += 1;
        let cfg = SessionCfg {
            index,
            threads: 2 + rng.usize_below(2),
            ops: 10 + rng.usize_below(40),
            ordered: true,
            min_size: *rng.pick(&min_sizes),
            with_overflow: false,
        };
        session(&mut out, &cfg, &mut rng);
    }
    // (d) stress sessions: only the pool's own mutex orders the threads; oracle only
    for _ in 0..150 * scale {
        index += 1;
        let cfg = SessionCfg {
            index,
            threads: 2 + rng.usize_below(5),
            ops: 100 + rng.usize_below(200),
            ordered: false,
            min_size: *rng.pick(&min_sizes),
            with_overflow: false,
        };
        session(&mut out, &cfg, &mut rng);
    }
    out.note("multi-threaded sessions depend on OS scheduling: the seed fixes the per-thread programs, the logged order of critical sections (written to req.txt) fixes the replay");
    out.finish("one line per atomic step of alloc/add/drop (linearised by the critical-section log); the model replays the schedule and must return the same (ordinal, capacity); oracle: capacity>=requested, alignment, unique holder, fill-pattern intact, counters at quiescence");
}
