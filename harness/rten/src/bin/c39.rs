//! C39: `rten::ctc::CtcDecoder` (greedy + beam search) on the real crate.
//!
//! Inputs are `T x L` matrices of small integer weights `w` with a common
//! denominator `D`; the decoder is fed `ln(w / D)` as `f32` (`-inf` for 0).
//!
//! Request lines (all numbers decimal, `w` row-major):
//!   `greedy L T w…`     answer of `decode_greedy`
//!   `beam B N L T w…`   answer of `decode_beam_nbest(beam_size=B, n_best=N)`
//!   `best B L T w…`     answer of `decode_beam(beam_size=B)`
//!   `greedyn L T w…`    `decode_greedy` on a matrix with NaN entries (written `n`); compared
//!                       with the model over the NaN carrier (`cmp_nan_greater` semantics)
//!   `# beamnan B N L T w…`  beam search on a matrix with NaN entries: not compared with the
//!                       model (the sort uses `total_cmp`, which depends on the NaN sign bit);
//!                       observed: no panic, pairwise distinct label sequences, count ≤ min(B,N)
//! Answer: `panic`, `none` (empty list) or hypotheses joined by `|`, each
//! `label@pos,…:score` with score `z` (−inf), the exact numerator
//! `round(exp(score) * D^T)` when `Π_t Σ_l w[t][l] ≤ 4096`, else `-`.
//!
//! Independent oracles evaluated on the implementation's output (PROPFAIL):
//!  * greedy = collapse (merge repeats, drop blanks, first positions) of the
//!    per-row arg-max path recomputed here, score = Σ chosen entries;
//!  * beam: label sequences pairwise distinct; count ≤ min(B, N); scores finite
//!    whenever every row has a non-zero entry; score ≤ exact log-probability of
//!    the label sequence (brute-force enumeration of all `L^T` alignments for
//!    small inputs, CTC forward recursion for large ones) within tolerance;
//!    score = exact and the returned set = all positive-probability sequences
//!    when the beam is at least as wide as the number of positive-probability
//!    label sequences at every step (nothing can be pruned); positions strictly
//!    increasing, in range, ≥ 2 apart for repeated labels, and pointing at a
//!    non-zero entry of the label.
use hcommon::{Out, Rng};
use rten::ctc::{CtcDecoder, CtcHypothesis};
use rten_tensor::prelude::*;
use rten_tensor::NdTensor;
use std::collections::{BTreeMap, HashSet};

const TOL: f64 = 2e-3;

#[derive(Clone)]
struct Mat {
    t: usize,
    l: usize,
    d: u64,
    w: Vec<u64>,
    family: &'static str,
}

impl Mat {
    fn at(&self, t: usize, l: usize) -> u64 {
        self.w[t * self.l + l]
    }
    fn tensor(&self) -> NdTensor<f32, 2> {
        let data: Vec<f32> = self
            .w
            .iter()
            .map(|&w| {
                if w == 0 {
                    f32::NEG_INFINITY
                } else {
                    ((w as f64) / (self.d as f64)).ln() as f32
                }
            })
            .collect();
        NdTensor::from_data([self.t, self.l], data)
    }
    fn wtxt(&self) -> String {
        hcommon::join(self.w.iter(), " ")
    }
    fn small(&self) -> bool {
        let mut p: u128 = 1;
        for t in 0..self.t {
            let s: u128 = (0..self.l).map(|l| self.at(t, l) as u128).sum();
            p = p.saturating_mul(s);
        }
        p <= 4096
    }
    fn rows_all_positive(&self) -> bool {
        (0..self.t).all(|t| (0..self.l).any(|l| self.at(t, l) > 0))
    }
}

/// CTC collapse: merge adjacent repeats, then drop blanks.
fn collapse(a: &[usize]) -> Vec<u32> {
    let mut out = Vec::new();
    let mut i = 0;
    while i < a.len() {
        let mut j = i;
        while j + 1 < a.len() && a[j + 1] == a[i] {
            j += 1;
        }
        if a[i] != 0 {
            out.push(a[i] as u32);
        }
        i = j + 1;
    }
    out
}

/// Exact total weight (numerator over D^t) of every label sequence, for every
/// prefix length t = 0..=T, by enumerating all alignments.
fn brute(m: &Mat) -> Vec<BTreeMap<Vec<u32>, u128>> {
    let mut res = Vec::new();
    for t in 0..=m.t {
        let mut map: BTreeMap<Vec<u32>, u128> = BTreeMap::new();
        let total = (m.l as u64).pow(t as u32);
        let mut a = vec![0usize; t];
        for code in 0..total {
            let mut c = code;
            for x in a.iter_mut() {
                *x = (c % m.l as u64) as usize;
                c /= m.l as u64;
            }
            let mut wt: u128 = 1;
            for (i, &l) in a.iter().enumerate() {
                wt *= m.at(i, l) as u128;
            }
            if wt > 0 {
                *map.entry(collapse(&a)).or_insert(0) += wt;
            }
        }
        res.push(map);
    }
    res
}

/// Standard CTC forward recursion (probability space, f64): total probability of
/// `labels` over the whole matrix.
fn forward(m: &Mat, labels: &[u32]) -> f64 {
    let s = 2 * labels.len() + 1;
    let ext = |i: usize| -> usize {
        if i % 2 == 0 {
            0
        } else {
            labels[i / 2] as usize
        }
    };
    let p = |t: usize, l: usize| -> f64 {
        if l >= m.l {
            0.0
        } else {
            m.at(t, l) as f64 / m.d as f64
        }
    };
    if m.t == 0 {
        return if labels.is_empty() { 1.0 } else { 0.0 };
    }
    let mut alpha = vec![0.0f64; s];
    alpha[0] = p(0, 0);
    if s > 1 {
        alpha[1] = p(0, ext(1));
    }
    for t in 1..m.t {
        let mut next = vec![0.0f64; s];
        for i in 0..s {
            let mut v = alpha[i];
            if i >= 1 {
                v += alpha[i - 1];
            }
            if i >= 2 && ext(i) != 0 && ext(i) != ext(i - 2) {
                v += alpha[i - 2];
            }
            next[i] = v * p(t, ext(i));
        }
        alpha = next;
    }
    let mut tot = alpha[s - 1];
    if s > 1 {
        tot += alpha[s - 2];
    }
    tot
}

struct HypOut {
    labels: Vec<u32>,
    pos: Vec<u32>,
    score: f32,
}

fn conv(h: &CtcHypothesis) -> HypOut {
    HypOut {
        labels: h.steps().iter().map(|s| s.label).collect(),
        pos: h.steps().iter().map(|s| s.pos).collect(),
        score: h.score(),
    }
}

fn show(m: &Mat, h: &HypOut) -> String {
    let steps = hcommon::join(h.labels.iter().zip(&h.pos).map(|(l, p)| format!("{l}@{p}")), ",");
    let sc = if h.score == f32::NEG_INFINITY {
        "z".to_string()
    } else if m.small() {
        let v = (h.score as f64 + m.t as f64 * (m.d as f64).ln()).exp();
        format!("{}", v.round() as u128)
    } else {
        "-".to_string()
    };
    format!("{steps}:{sc}")
}

fn show_all(m: &Mat, hs: &[HypOut]) -> String {
    if hs.is_empty() {
        "none".into()
    } else {
        hcommon::join(hs.iter().map(|h| show(m, h)), "|")
    }
}

/// Oracles for a list of beam hypotheses. `exact` is the brute-force table when
/// available.
fn beam_oracle(
    m: &Mat,
    b: usize,
    n: usize,
    hs: &[HypOut],
    exact: Option<&Vec<BTreeMap<Vec<u32>, u128>>>,
) -> Option<String> {
    if hs.len() > b.min(n).max(if m.t == 0 { n.min(1) } else { 0 }) {
        return Some(format!("{} hypotheses returned for beam {b}, n_best {n}", hs.len()));
    }
    if n >= 1 && hs.is_empty() {
        return Some("no hypothesis returned".into());
    }
    let mut seen = HashSet::new();
    for h in hs {
        if !seen.insert(h.labels.clone()) {
            return Some(format!("duplicate label sequence {:?}", h.labels));
        }
    }
    let allpos = m.rows_all_positive();
    for h in hs {
        if h.score.is_nan() || h.score == f32::INFINITY {
            return Some(format!("score {} for {:?}", h.score, h.labels));
        }
        if allpos && h.score == f32::NEG_INFINITY {
            return Some(format!("non-finite score -inf for {:?}", h.labels));
        }
        // positions
        for k in 0..h.pos.len() {
            if h.pos[k] as usize >= m.t {
                return Some(format!("position {} out of range", h.pos[k]));
            }
            if k > 0 {
                let gap = if h.labels[k] == h.labels[k - 1] { 2 } else { 1 };
                if h.pos[k] < h.pos[k - 1] + gap {
                    return Some(format!("positions {:?} not separated for {:?}", h.pos, h.labels));
                }
            }
            let l = h.labels[k] as usize;
            if l == 0 || l >= m.l {
                return Some(format!("label {l} out of range"));
            }
            if h.score > f32::NEG_INFINITY && m.at(h.pos[k] as usize, l) == 0 {
                return Some(format!("position {} of label {l} has zero probability", h.pos[k]));
            }
        }
        // score bound
        let ex_fwd = forward(m, &h.labels);
        let ex = match exact {
            Some(tab) => {
                let num = *tab[m.t].get(&h.labels).unwrap_or(&0) as f64;
                let e = num / (m.d as f64).powi(m.t as i32);
                if (e - ex_fwd).abs() > 1e-9 * e.max(1e-300) + 1e-300 {
                    return Some(format!("HARNESS SELF-TEST: brute {e} vs forward {ex_fwd}"));
                }
                e
            }
            None => ex_fwd,
        };
        let exl = ex.ln();
        if (h.score as f64) > exl + TOL {
            return Some(format!(
                "score {} exceeds exact log-probability {exl} of {:?}",
                h.score, h.labels
            ));
        }
    }
    // Nothing pruned => exact scores and complete set.
    if let Some(tab) = exact {
        let widest = tab[1..].iter().map(|mp| mp.len()).max().unwrap_or(1);
        if b >= widest && m.t > 0 && allpos {
            for h in hs {
                let num = *tab[m.t].get(&h.labels).unwrap_or(&0) as f64;
                let exl = (num / (m.d as f64).powi(m.t as i32)).ln();
                if ((h.score as f64) - exl).abs() > TOL {
                    return Some(format!(
                        "beam {b} >= {widest} sequences (nothing pruned) but score {} != exact {exl} for {:?}",
                        h.score, h.labels
                    ));
                }
            }
            if n >= b && hs.len() != tab[m.t].len() {
                return Some(format!(
                    "beam {b} >= {widest} sequences (nothing pruned) but {} of {} positive-probability sequences returned",
                    hs.len(),
                    tab[m.t].len()
                ));
            }
        }
    }
    None
}

fn greedy_oracle(m: &Mat, x: &NdTensor<f32, 2>, h: &HypOut) -> Option<String> {
    let mut path = Vec::new();
    let mut score = 0f32;
    for t in 0..m.t {
        let mut best = 0usize;
        for l in 1..m.l {
            if m.at(t, l) > m.at(t, best) {
                best = l; // first maximum wins (select_max_index replaces only on Greater)
            }
        }
        path.push(best);
        score += x[[t, best]];
    }
    let exp_labels = collapse(&path);
    let mut exp_pos = Vec::new();
    for t in 0..m.t {
        if path[t] != 0 && (t == 0 || path[t - 1] != path[t]) {
            exp_pos.push(t as u32);
        }
    }
    if h.labels != exp_labels {
        return Some(format!("greedy labels {:?}, collapsed arg-max path {:?}", h.labels, exp_labels));
    }
    if h.pos != exp_pos {
        return Some(format!("greedy positions {:?}, first occurrences {:?}", h.pos, exp_pos));
    }
    let same = (h.score == score) || ((h.score as f64) - (score as f64)).abs() <= 1e-4;
    if !same {
        return Some(format!("greedy score {} != sum of chosen entries {score}", h.score));
    }
    None
}

fn run_matrix(out: &mut Out, rng: &mut Rng, m: &Mat, widths: &[usize]) {
    let x = m.tensor();
    let dec = CtcDecoder::new();
    let brute_ok = (m.l as f64).powi(m.t as i32) <= 4096.0;
    let exact = if brute_ok && m.l > 0 { Some(brute(m)) } else { None };
    out.bucket(&format!("family:{}", m.family));
    out.bucket(&format!("T:{}", m.t));
    out.bucket(&format!("L:{}", m.l));
    out.bucket(if exact.is_some() { "oracle:brute-force" } else { "oracle:forward-dp" });

    // greedy
    {
        let req = format!("greedy {} {} {}", m.l, m.t, m.wtxt());
        let r = hcommon::catch(|| conv(&dec.decode_greedy(x.view())));
        match r {
            Ok(h) => {
                let fail = greedy_oracle(m, &x, &h);
                out.case(req.trim_end(), &show(m, &h), fail.as_deref(), !h.labels.is_empty());
            }
            Err(_) => out.case(req.trim_end(), "panic", None, false),
        }
    }
    for &b in widths {
        let mut ns = vec![b];
        ns.push(rng.usize_below(b + 3));
        if rng.chance(1, 4) {
            ns.push(1);
        }
        out.bucket(&format!("beam:{}", if b > 12 { ">12".to_string() } else { b.to_string() }));
        for &n in &ns {
            let req = format!("beam {b} {n} {} {} {}", m.l, m.t, m.wtxt());
            let r = hcommon::catch(|| {
                dec.decode_beam_nbest(x.view(), b as u32, n as u32)
                    .iter()
                    .map(conv)
                    .collect::<Vec<_>>()
            });
            match r {
                Ok(hs) => {
                    let fail = beam_oracle(m, b, n, &hs, exact.as_ref());
                    out.bucket(&format!("hyps:{}", hs.len().min(13)));
                    if n == b && hs.len() == b && b > 1 {
                        out.bucket("beam-full");
                    }
                    out.case(req.trim_end(), &show_all(m, &hs), fail.as_deref(), hs.len() >= 2);
                }
                Err(_) => {
                    out.bucket("panic");
                    out.case(req.trim_end(), "panic", None, false)
                }
            }
        }
        let req = format!("best {b} {} {} {}", m.l, m.t, m.wtxt());
        let r = hcommon::catch(|| conv(&dec.decode_beam(x.view(), b as u32)));
        match r {
            Ok(h) => {
                let hs = [h];
                let fail = beam_oracle(m, b, 1, &hs, exact.as_ref());
                out.case(req.trim_end(), &show_all(m, &hs), fail.as_deref(), !hs[0].labels.is_empty());
            }
            Err(_) => {
                out.bucket("panic");
                out.case(req.trim_end(), "panic", None, false)
            }
        }
    }
}


/// NaN cases: `nan[i]` marks entry `i` as NaN (alternating sign bits).
fn run_nan(out: &mut Out, rng: &mut Rng, m: &Mat) {
    if m.t == 0 || m.l == 0 {
        return;
    }
    let n = m.t * m.l;
    let mut nan = vec![false; n];
    let mode = rng.below(3);
    for i in 0..n {
        nan[i] = match mode {
            0 => rng.chance(1, 4),
            1 => i / m.l == 0 || rng.chance(1, 8), // a whole row of NaN
            _ => i == rng.usize_below(n) % n,
        };
    }
    if !nan.iter().any(|&b| b) {
        nan[rng.usize_below(n)] = true;
    }
    let mut x = m.tensor();
    {
        let mut k = 0;
        for t in 0..m.t {
            for l in 0..m.l {
                if nan[t * m.l + l] {
                    x[[t, l]] = if k % 2 == 0 { f32::NAN } else { -f32::NAN };
                    k += 1;
                }
            }
        }
    }
    let toks = hcommon::join(
        (0..n).map(|i| if nan[i] { "n".to_string() } else { m.w[i].to_string() }),
        " ",
    );
    let dec = CtcDecoder::new();
    out.bucket("nan-matrix");
    // greedy: compared with the model; independent oracle here
    {
        let req = format!("greedyn {} {} {}", m.l, m.t, toks);
        match hcommon::catch(|| conv(&dec.decode_greedy(x.view()))) {
            Ok(h) => {
                // NaN beats every number; among NaNs the last wins; among numbers the first max.
                let mut path = Vec::new();
                for t in 0..m.t {
                    let mut best = 0usize;
                    for l in 1..m.l {
                        let (bn, ln) = (nan[t * m.l + best], nan[t * m.l + l]);
                        let greater = if ln { true } else if bn { false } else { m.at(t, l) > m.at(t, best) };
                        if greater {
                            best = l;
                        }
                    }
                    path.push(best);
                }
                let exp_labels = collapse(&path);
                let mut exp_pos = Vec::new();
                for t in 0..m.t {
                    if path[t] != 0 && (t == 0 || path[t - 1] != path[t]) {
                        exp_pos.push(t as u32);
                    }
                }
                let fail = if h.labels != exp_labels || h.pos != exp_pos {
                    Some(format!(
                        "greedy (NaN) labels {:?}@{:?}, collapsed arg-max path {:?}@{:?}",
                        h.labels, h.pos, exp_labels, exp_pos
                    ))
                } else if !h.score.is_nan() {
                    Some(format!("greedy (NaN) score {} is not NaN", h.score))
                } else {
                    None
                };
                let steps = hcommon::join(h.labels.iter().zip(&h.pos).map(|(l, p)| format!("{l}@{p}")), ",");
                let ans = if h.score.is_nan() { format!("{steps}:nan") } else { show(m, &h) };
                out.case(&req, &ans, fail.as_deref(), true);
            }
            Err(_) => out.case(&req, "panic", Some("decode_greedy panicked on a NaN input"), false),
        }
    }
    // beam: observed only
    for b in [1usize, 2, 3, 5, 12] {
        let nb = 1 + rng.usize_below(b + 1);
        let req = format!("# beamnan {b} {nb} {} {} {}", m.l, m.t, toks);
        let r = hcommon::catch(|| {
            dec.decode_beam_nbest(x.view(), b as u32, nb as u32).iter().map(conv).collect::<Vec<_>>()
        });
        let r2 = hcommon::catch(|| conv(&dec.decode_beam(x.view(), b as u32)));
        match (r, r2) {
            (Ok(hs), Ok(_)) => {
                let mut fail = None;
                let mut seen = HashSet::new();
                for h in &hs {
                    if !seen.insert(h.labels.clone()) {
                        fail = Some(format!("duplicate label sequence {:?} (NaN input)", h.labels));
                    }
                }
                if hs.len() > b.min(nb) || hs.is_empty() {
                    fail = Some(format!("{} hypotheses for beam {b}, n_best {nb} (NaN input)", hs.len()));
                }
                out.bucket("nan-beam-ok");
                out.case(&req, &format!("ok {}", hs.len()), fail.as_deref(), hs.len() >= 2);
            }
            _ => {
                out.bucket("nan-beam-panic");
                out.case(&req, "panic", Some("beam decoding panicked on a NaN input"), false)
            }
        }
    }
}

fn gen_matrix(rng: &mut Rng, t: usize, l: usize, fam: usize) -> Mat {
    let n = t * l;
    let mut w = vec![0u64; n];
    let (d, family): (u64, &'static str) = match fam {
        0 => {
            // flat / uniform
            let c = 1 + rng.below(3);
            w.iter_mut().for_each(|x| *x = c);
            (c * l.max(1) as u64, "flat")
        }
        1 => {
            // peaked: one dominant label per row, the rest small or zero
            for ti in 0..t {
                let k = rng.usize_below(l.max(1));
                for li in 0..l {
                    w[ti * l + li] = if li == k { 5 + rng.below(4) } else { rng.below(2) };
                }
            }
            (8, "peaked")
        }
        2 => {
            // tie-heavy: two-valued
            let (a, b) = (1 + rng.below(2), 2 + rng.below(3));
            w.iter_mut().for_each(|x| *x = if rng.chance(1, 2) { a } else { b });
            (16, "two-valued")
        }
        3 => {
            // one-hot (the unit tests' shape)
            for ti in 0..t {
                let k = rng.usize_below(l.max(1));
                if l > 0 {
                    w[ti * l + k] = 1;
                }
            }
            (1, "one-hot")
        }
        4 => {
            // small random with zeros
            w.iter_mut().for_each(|x| *x = rng.below(4));
            (4, "random-0..3")
        }
        5 => {
            // identical columns for two labels (symmetric ties), random rest
            for ti in 0..t {
                let c = 1 + rng.below(3);
                for li in 0..l {
                    w[ti * l + li] = if li >= 1 && li <= 2 { c } else { rng.below(4) };
                }
            }
            (8, "twin-columns")
        }
        6 => {
            // a row that is entirely zero
            w.iter_mut().for_each(|x| *x = 1 + rng.below(3));
            if t > 0 {
                let z = rng.usize_below(t);
                for li in 0..l {
                    w[z * l + li] = 0;
                }
            }
            (8, "zero-row")
        }
        _ => {
            w.iter_mut().for_each(|x| *x = rng.below(9));
            (16, "random-0..8")
        }
    };
    Mat { t, l, d, w, family }
}

fn main() {
    let args = hcommon::parse_args();
    hcommon::quiet_panics();
    let mut rng = Rng::new(args.seed);
    let mut out = Out::new(&args.out);
    let all_widths: Vec<usize> = (1..=12).collect();

    // The observed defect input first: uniform 2x3, every width.
    let uni = Mat { t: 2, l: 3, d: 3, w: vec![1; 6], family: "flat" };
    run_matrix(&mut out, &mut rng, &uni, &all_widths);

    // Exhaustive tiny scope: every 0/1/2 weight matrix with T<=2, L<=2 (+ T=1,L=3).
    for (t, l) in [(1usize, 1usize), (1, 2), (2, 1), (2, 2), (1, 3)] {
        let n = t * l;
        let total = 3u64.pow(n as u32);
        for code in 0..total {
            let mut c = code;
            let mut w = vec![0u64; n];
            for x in w.iter_mut() {
                *x = c % 3;
                c /= 3;
            }
            let m = Mat { t, l, d: 4, w, family: "exhaustive-012" };
            run_matrix(&mut out, &mut rng, &m, &[1, 2, 3, 5]);
        }
    }

    // Degenerate shapes: T = 0, L = 0, L = 1, beam 0.
    for (t, l) in [(0usize, 0usize), (0, 3), (3, 0), (1, 1), (4, 1)] {
        let m = gen_matrix(&mut rng, t, l, 0);
        let mut m = m;
        m.family = "degenerate-shape";
        if m.d == 0 {
            m.d = 1;
        }
        run_matrix(&mut out, &mut rng, &m, &[0, 1, 2]);
    }
    {
        let m = gen_matrix(&mut rng, 2, 3, 7);
        run_matrix(&mut out, &mut rng, &m, &[0]);
    }

    // Structured random matrices within brute-force range, every width 1..12.
    let n_small = if args.thorough { 25000 } else { 2500 };
    for i in 0..n_small {
        let t = 1 + rng.usize_below(5);
        let l = 1 + rng.usize_below(4);
        let fam = i % 8;
        let m = gen_matrix(&mut rng, t, l, fam);
        if rng.chance(1, 3) {
            let mut ws = all_widths.clone();
            ws.push(13 + rng.usize_below(40));
            run_matrix(&mut out, &mut rng, &m, &ws);
        } else {
            let mut ws: Vec<usize> = (0..4).map(|_| 1 + rng.usize_below(12)).collect();
            ws.sort();
            ws.dedup();
            run_matrix(&mut out, &mut rng, &m, &ws);
        }
        if i % 5 == 0 {
            run_nan(&mut out, &mut rng, &m);
        }
    }

    // Larger matrices (forward-recursion oracle only).
    let n_large = if args.thorough { 5000 } else { 400 };
    for i in 0..n_large {
        let t = 6 + rng.usize_below(15);
        let l = 2 + rng.usize_below(7);
        let fam = i % 8;
        let m = gen_matrix(&mut rng, t, l, fam);
        let ws: Vec<usize> = vec![1 + rng.usize_below(4), 5 + rng.usize_below(8), 13 + rng.usize_below(30)];
        run_matrix(&mut out, &mut rng, &m, &ws);
    }

    out.finish(
        "greedy = collapse(argmax path) with first positions and summed score; beam hypotheses \
         pairwise distinct, finite, score <= exact log-probability (brute force / forward DP), \
         exact when nothing can be pruned",
    );
}
