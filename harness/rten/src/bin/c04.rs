//! C04: `Model::partial_run` composes with `Model::run`; non-deterministic operators are
//! never evaluated by partial evaluation nor folded into constants.
//!
//! Request line (see lean/RtenVerif/Driver/C04.lean):
//!   `pr <own> <nodes> <S> <O> <rest>`   (`prx …` when some id of `S` is also produced by an operator)
//! * `<nodes>`: `;`-separated descriptors in id order: `V`, `C`, `O/<ins>/<outs>/<det>`
//!   (`,`-separated ids, `_` = omitted, `-` = empty list, `<det>` = `is_deterministic()`);
//! * `<S>`: ids supplied to `partial_run` (in order), `<O>`: requested outputs,
//!   `<rest>`: ids supplied to the second `run` in addition to the returned leaves;
//! * `<own>`: 1 = every supplied value (to `partial_run`, to the single `run` and to the composed
//!   `run`) is passed as an owned `Value`, 0 = as a view.
//! * operator descriptor: `O/<ins>/<outs>/<tree>/<caps>`; `<tree>` = own `is_deterministic` flags of
//!   the operator and of every operator nested in its subgraphs, prefix-count encoded
//!   (`own.nsubgraphs(.nops(.tree)*)*`, e.g. `1.0`, `If{then:[RandomUniform],else:[Neg]}` =
//!   `1.2.1.0.0.1.1.0`); `<caps>` = ids of the outer values its subgraphs capture by name.
//! Answer: `ids=<returned leaf ids in order|-> final=<ok|err:class|panic>` where `final` is the
//! outcome of `run(returned ++ rest, O)`; or `err:<class>` / `panic` if `partial_run` fails.
//!
//!   `gp <nodes> <S> <O>`: `Graph::partial_run` on a graph built through the graph API (captures
//!   whose names do not resolve); answer `ids=<leaf ids>`.
//!
//! Everything else goes through the public API on ONNX bytes built with the shared encoder
//! (`Model::load` without optimisation for the structural tie; the same bytes loaded with
//! optimisation for the behavioural checks).  Independent oracles (PROPFAIL), computed from
//! the descriptor / the implementation's outputs only:
//! * compose  : `run(S ∪ rest, O)` ok ⇒ `run(partial_run(S, O) ∪ rest, O)` ok and bit-identical
//!              (unoptimised and optimised model);
//! * leaf-val : every returned `(id, value)` is bit-identical to `run(S ∪ rest, [id])`;
//! * leaf-set : no returned id depends (cut at S and constants) on a missing input or on a
//!              non-deterministic operator; every pruned operator's computable input is returned;
//!              no id is returned twice;
//! * nofold   : in the optimised model an unseeded `Random*` output still differs between two runs.
#[path = "../onnx_enc.rs"]
mod onnx_enc;
use hcommon::{Out, Rng};
use onnx_enc::{dt, Attr, Graph, Node, Tensor, ValueInfo};
use rten::{Model, ModelOptions, NodeId, RunError, Value, ValueOrView};
use rten_tensor::prelude::*;
use rten_tensor::Tensor as RTensor;
use std::collections::{BTreeSet, HashMap};

#[derive(Clone, Copy, PartialEq, Eq, Debug)]
enum Dt {
    I,
    F,
    /// boolean scalar (condition of an `If`)
    B,
}

#[derive(Clone, Copy, PartialEq, Eq, Debug)]
enum Kind {
    Add,
    Sub,
    Mul,
    Neg,
    Abs,
    Identity,
    CastF,
    CastI,
    Split,
    RandU,
    RandN,
    RandULike,
    RandNLike,
    Dropout,
    If,
    Loop,
}

/// Body of one branch of an `If` (exactly one operator producing the branch output,
/// an f32 tensor of shape `[rows, 3]`).
#[derive(Clone, Debug)]
enum Body {
    /// `RandomUniform` (non-deterministic by the code's flag, seeded or not)
    RandU,
    /// `Neg(<outer value>)`: the subgraph captures a value of an enclosing graph by name
    NegCap(usize),
    /// `Identity(<initializer of the subgraph>)`
    ConstId,
    /// a nested `If` whose condition is a `true` initializer of the subgraph
    Nested(Box<IfBody>),
    /// two operators: `RandomUniform` → `Neg` → branch output
    RandNeg,
    /// `Identity(<initializer>)` is the branch output; a `RandomUniform` whose output nobody uses
    /// sits next to it (the branch value is deterministic, the flag is not)
    UnusedRand,
    /// a nested `Loop` (one iteration, loop-carried value initialised from a subgraph initializer)
    Loop(Box<Body>),
}

/// Own-flag tree of a `Loop` whose body computes the carried value with `b`:
/// one subgraph holding the `Identity` that produces the condition and the operators of `b`.
fn loop_tree(b: &Body) -> String {
    format!("1.1.{}.1.0.{}", 1 + b.n_ops(), b.tree_ops())
}

/// ONNX `Loop` node: no trip count, no condition input (defaults: run while the body says so),
/// the body sets the condition to `false`, so it runs exactly once; `v_init` is the carried value.
fn loop_node(b: &Body, v_init: &str, out: &str, rows: usize, seeds: bool, tag: &str) -> Node {
    let mut g = b.to_onnx(rows, seeds, &format!("{tag}l"));
    let fls = format!("lf{tag}");
    let cnd = format!("lc{tag}");
    g.initializers.push(Tensor::bools(&fls, &[], &[false]));
    g.nodes.insert(0, Node::new("Identity", &format!("lci{tag}"), &[&fls], &[&cnd]));
    g.inputs = vec![
        ValueInfo::fixed(&format!("lit{tag}"), dt::INT64, &[]),
        ValueInfo::fixed(&format!("lcin{tag}"), dt::BOOL, &[]),
        ValueInfo::fixed(&format!("lv{tag}"), dt::FLOAT, &[rows as i64, COLS as i64]),
    ];
    let body_out = g.outputs.remove(0);
    g.outputs = vec![ValueInfo::fixed(&cnd, dt::BOOL, &[]), body_out];
    Node::new("Loop", &format!("lp{tag}"), &["", "", v_init], &[out]).attr("body", Attr::Graph(g))
}

#[derive(Clone, Debug)]
struct IfBody {
    then_b: Body,
    else_b: Body,
}

impl Body {
    /// own-flag tree in prefix-count encoding: `own.nsubs(.nops(.T)*)*`
    /// number of operators this body puts into its subgraph
    fn n_ops(&self) -> usize {
        match self {
            Body::RandNeg | Body::UnusedRand => 2,
            _ => 1,
        }
    }
    /// the trees of those operators, `.`-joined
    fn tree_ops(&self) -> String {
        match self {
            Body::RandU => "0.0".into(),
            Body::NegCap(_) | Body::ConstId => "1.0".into(),
            Body::Nested(b) => b.tree(),
            Body::RandNeg => "0.0.1.0".into(),
            Body::UnusedRand => "1.0.0.0".into(),
            Body::Loop(b) => loop_tree(b),
        }
    }
    fn deep_det(&self) -> bool {
        match self {
            Body::RandU | Body::RandNeg | Body::UnusedRand => false,
            Body::NegCap(_) | Body::ConstId => true,
            Body::Nested(b) => b.deep_det(),
            Body::Loop(b) => b.deep_det(),
        }
    }
    fn caps(&self, out: &mut Vec<usize>) {
        match self {
            Body::NegCap(v) => {
                if !out.contains(v) {
                    out.push(*v)
                }
            }
            Body::Nested(b) => {
                b.then_b.caps(out);
                b.else_b.caps(out);
            }
            Body::Loop(b) => b.caps(out),
            _ => {}
        }
    }
    /// does the branch that is taken (conditions are all true → `then`) end in a random op?
    fn taken_random(&self) -> bool {
        match self {
            Body::RandU | Body::RandNeg => true,
            Body::Nested(b) => b.then_b.taken_random(),
            Body::Loop(b) => b.taken_random(),
            _ => false,
        }
    }
    fn depth(&self) -> usize {
        match self {
            Body::Nested(b) => 1 + b.then_b.depth().max(b.else_b.depth()),
            Body::Loop(b) => 1 + b.depth(),
            _ => 0,
        }
    }
    fn has_loop(&self) -> bool {
        match self {
            Body::Loop(_) => true,
            Body::Nested(b) => b.then_b.has_loop() || b.else_b.has_loop(),
            _ => false,
        }
    }
    /// ONNX subgraph computing this branch; `tag` makes names unique.
    fn to_onnx(&self, rows: usize, seeds: bool, tag: &str) -> Graph {
        let mut g = Graph::default();
        g.name = format!("b{tag}");
        let out = format!("bo{tag}");
        match self {
            Body::RandU => {
                let mut n = Node::new("RandomUniform", &format!("br{tag}"), &[], &[&out])
                    .attr("shape", Attr::Ints(vec![rows as i64, COLS as i64]));
                if seeds {
                    n = n.attr("seed", Attr::Float(3.5));
                }
                g.nodes.push(n);
            }
            Body::NegCap(v) => {
                g.nodes.push(Node::new("Neg", &format!("bn{tag}"), &[&name(*v)], &[&out]));
            }
            Body::ConstId => {
                let c = format!("bc{tag}");
                g.initializers.push(Tensor::f32s(&c, &[rows as i64, COLS as i64], &vec![0.5; rows * COLS]));
                g.nodes.push(Node::new("Identity", &format!("bi{tag}"), &[&c], &[&out]));
            }
            Body::Nested(b) => {
                let c = format!("bk{tag}");
                g.initializers.push(Tensor::bools(&c, &[], &[true]));
                g.nodes.push(b.to_onnx_node(&c, &out, rows, seeds, &format!("{tag}n")));
            }
            Body::RandNeg => {
                let mid = format!("bm{tag}");
                let mut n = Node::new("RandomUniform", &format!("br{tag}"), &[], &[&mid])
                    .attr("shape", Attr::Ints(vec![rows as i64, COLS as i64]));
                if seeds {
                    n = n.attr("seed", Attr::Float(4.5));
                }
                g.nodes.push(n);
                g.nodes.push(Node::new("Neg", &format!("bn{tag}"), &[&mid], &[&out]));
            }
            Body::UnusedRand => {
                let c = format!("bc{tag}");
                g.initializers.push(Tensor::f32s(&c, &[rows as i64, COLS as i64], &vec![0.25; rows * COLS]));
                g.nodes.push(Node::new("Identity", &format!("bi{tag}"), &[&c], &[&out]));
                let mut n = Node::new("RandomUniform", &format!("br{tag}"), &[], &[&format!("bu{tag}")])
                    .attr("shape", Attr::Ints(vec![rows as i64, COLS as i64]));
                if seeds {
                    n = n.attr("seed", Attr::Float(5.5));
                }
                g.nodes.push(n);
            }
            Body::Loop(b) => {
                let c = format!("bl{tag}");
                g.initializers.push(Tensor::f32s(&c, &[rows as i64, COLS as i64], &vec![1.5; rows * COLS]));
                g.nodes.push(loop_node(b, &c, &out, rows, seeds, &format!("{tag}p")));
            }
        }
        g.outputs = vec![ValueInfo::fixed(&out, dt::FLOAT, &[rows as i64, COLS as i64])];
        g
    }
}

impl IfBody {
    fn tree(&self) -> String {
        format!(
            "1.2.{}.{}.{}.{}",
            self.then_b.n_ops(),
            self.then_b.tree_ops(),
            self.else_b.n_ops(),
            self.else_b.tree_ops()
        )
    }
    fn deep_det(&self) -> bool {
        self.then_b.deep_det() && self.else_b.deep_det()
    }
    fn to_onnx_node(&self, cond: &str, out: &str, rows: usize, seeds: bool, tag: &str) -> Node {
        Node::new("If", &format!("if{tag}"), &[cond], &[out])
            .attr("then_branch", Attr::Graph(self.then_b.to_onnx(rows, seeds, &format!("{tag}t"))))
            .attr("else_branch", Attr::Graph(self.else_b.to_onnx(rows, seeds, &format!("{tag}e"))))
    }
}

/// Subgraphs of a top-level operator.
#[derive(Clone, Debug)]
enum Sub {
    If(IfBody),
    /// `Loop` whose body computes the carried value with this `Body`
    Loop(Body),
}

impl Sub {
    fn tree(&self) -> String {
        match self {
            Sub::If(b) => b.tree(),
            Sub::Loop(b) => loop_tree(b),
        }
    }
    fn deep_det(&self) -> bool {
        match self {
            Sub::If(b) => b.deep_det(),
            Sub::Loop(b) => b.deep_det(),
        }
    }
    fn caps(&self, out: &mut Vec<usize>) {
        match self {
            Sub::If(b) => {
                b.then_b.caps(out);
                b.else_b.caps(out);
            }
            Sub::Loop(b) => b.caps(out),
        }
    }
    fn taken_random(&self) -> bool {
        match self {
            Sub::If(b) => b.then_b.taken_random(),
            Sub::Loop(b) => b.taken_random(),
        }
    }
    fn depth(&self) -> usize {
        match self {
            Sub::If(b) => b.then_b.depth().max(b.else_b.depth()),
            Sub::Loop(b) => b.depth(),
        }
    }
    fn has_loop(&self) -> bool {
        match self {
            Sub::If(b) => b.then_b.has_loop() || b.else_b.has_loop(),
            Sub::Loop(_) => true,
        }
    }
}

#[derive(Clone, Debug)]
enum NodeD {
    /// value node: dtype, rows (shape `[rows, 3]`)
    V(Dt, usize),
    /// constant node
    C(Dt, usize, Vec<i32>),
    /// `det` = the flag `is_deterministic()` must report (for an `If`: no operator at any
    /// nesting depth is flagged non-deterministic); `body` only for `Kind::If`.
    O { kind: Kind, ins: Vec<Option<usize>>, outs: Vec<Option<usize>>, det: bool, seeded: bool, body: Option<Sub> },
}

#[derive(Clone, Debug)]
struct GraphD {
    nodes: Vec<NodeD>,
    inputs: Vec<usize>,
    outputs: Vec<usize>,
}

const COLS: usize = 3;

fn name(id: usize) -> String {
    format!("n{id}")
}

impl GraphD {
    fn dt_rows(&self, id: usize) -> (Dt, usize) {
        match &self.nodes[id] {
            NodeD::V(d, r) => (*d, *r),
            NodeD::C(d, r, _) => (*d, *r),
            _ => panic!("not a value"),
        }
    }
    fn is_const(&self, id: usize) -> bool {
        matches!(self.nodes[id], NodeD::C(..))
    }
    fn value_ids(&self) -> Vec<usize> {
        (0..self.nodes.len()).filter(|&i| !matches!(self.nodes[i], NodeD::O { .. })).collect()
    }
    fn op_ids(&self) -> Vec<usize> {
        (0..self.nodes.len()).filter(|&i| matches!(self.nodes[i], NodeD::O { .. })).collect()
    }
    fn source(&self, v: usize) -> Option<usize> {
        self.op_ids().into_iter().rev().find(|&p| match &self.nodes[p] {
            NodeD::O { outs, .. } => outs.contains(&Some(v)),
            _ => false,
        })
    }
    fn op_ins(&self, p: usize) -> Vec<usize> {
        match &self.nodes[p] {
            NodeD::O { ins, .. } => ins.iter().flatten().copied().collect(),
            _ => vec![],
        }
    }
    /// outer values captured by the subgraphs of `p` (any depth)
    fn op_caps(&self, p: usize) -> Vec<usize> {
        let mut c = vec![];
        if let NodeD::O { body: Some(b), .. } = &self.nodes[p] {
            b.caps(&mut c);
        }
        c
    }
    /// `operator_dependencies`: inputs, then captures that are not inputs
    fn op_deps(&self, p: usize) -> Vec<usize> {
        let mut d = self.op_ins(p);
        let ins = d.clone();
        d.extend(self.op_caps(p).into_iter().filter(|c| !ins.contains(c)));
        d
    }
    fn op_tree(&self, p: usize) -> String {
        match &self.nodes[p] {
            NodeD::O { body: Some(b), .. } => b.tree(),
            NodeD::O { det, .. } => format!("{}.0", *det as u8),
            _ => "1.0".into(),
        }
    }
    fn op_outs(&self, p: usize) -> Vec<usize> {
        match &self.nodes[p] {
            NodeD::O { outs, .. } => outs.iter().flatten().copied().collect(),
            _ => vec![],
        }
    }
    fn op_det(&self, p: usize) -> bool {
        match &self.nodes[p] {
            NodeD::O { det, .. } => *det,
            _ => true,
        }
    }
    fn descr(&self) -> String {
        let opt = |xs: &Vec<Option<usize>>| {
            if xs.is_empty() {
                "-".to_string()
            } else {
                hcommon::join(xs.iter().map(|x| x.map(|v| v.to_string()).unwrap_or("_".into())), ",")
            }
        };
        hcommon::join(
            self.nodes.iter().enumerate().map(|(i, n)| match n {
                NodeD::V(..) => "V".to_string(),
                NodeD::C(..) => "C".to_string(),
                NodeD::O { ins, outs, .. } => format!(
                    "O/{}/{}/{}/{}",
                    opt(ins),
                    opt(outs),
                    self.op_tree(i),
                    ids_str(&self.op_caps(i))
                ),
            }),
            ";",
        )
    }

    /// ONNX bytes. `seeds = false` drops the `seed` attribute of the `Random*` operators.
    fn to_onnx(&self, seeds: bool) -> Vec<u8> {
        let mut g = Graph::default();
        g.name = "c04".into();
        let mut node_bytes: Vec<Vec<u8>> = vec![];
        for (id, n) in self.nodes.iter().enumerate() {
            match n {
                NodeD::V(..) => {}
                NodeD::C(d, r, data) => {
                    let dims = [*r as i64, COLS as i64];
                    g.initializers.push(match d {
                        Dt::B => Tensor::bools(&name(id), &[], &[true]),
                        Dt::I => Tensor::i32s(&name(id), &dims, data),
                        Dt::F => Tensor::f32s(
                            &name(id),
                            &dims,
                            &data.iter().map(|&x| x as f32 * 0.25).collect::<Vec<_>>(),
                        ),
                    });
                }
                NodeD::O { kind, ins, outs, seeded, body, .. } => {
                    let ins_s: Vec<String> =
                        ins.iter().map(|x| x.map(name).unwrap_or_default()).collect();
                    let outs_s: Vec<String> =
                        outs.iter().map(|x| x.map(name).unwrap_or_default()).collect();
                    let ins_r: Vec<&str> = ins_s.iter().map(|s| s.as_str()).collect();
                    let outs_r: Vec<&str> = outs_s.iter().map(|s| s.as_str()).collect();
                    let opn = format!("op{id}");
                    let rows = outs.iter().flatten().next().map(|&o| self.dt_rows(o).1).unwrap_or(1);
                    let seed = 1.0 + id as f32;
                    let mut node = match kind {
                        Kind::Add => Node::new("Add", &opn, &ins_r, &outs_r),
                        Kind::Sub => Node::new("Sub", &opn, &ins_r, &outs_r),
                        Kind::Mul => Node::new("Mul", &opn, &ins_r, &outs_r),
                        Kind::Neg => Node::new("Neg", &opn, &ins_r, &outs_r),
                        Kind::Abs => Node::new("Abs", &opn, &ins_r, &outs_r),
                        Kind::Identity => Node::new("Identity", &opn, &ins_r, &outs_r),
                        Kind::CastF => {
                            Node::new("Cast", &opn, &ins_r, &outs_r).attr("to", Attr::Int(dt::FLOAT as i64))
                        }
                        Kind::CastI => {
                            Node::new("Cast", &opn, &ins_r, &outs_r).attr("to", Attr::Int(dt::INT32 as i64))
                        }
                        Kind::Split => Node::new("Split", &opn, &ins_r, &outs_r)
                            .attr("axis", Attr::Int(0))
                            .attr("num_outputs", Attr::Int(2)),
                        Kind::RandU => Node::new("RandomUniform", &opn, &ins_r, &outs_r)
                            .attr("low", Attr::Float(-2.0))
                            .attr("high", Attr::Float(2.0)),
                        Kind::RandN => Node::new("RandomNormal", &opn, &ins_r, &outs_r),
                        Kind::RandULike => Node::new("RandomUniformLike", &opn, &ins_r, &outs_r),
                        Kind::RandNLike => Node::new("RandomNormalLike", &opn, &ins_r, &outs_r),
                        Kind::Dropout => Node::new("Dropout", &opn, &ins_r, &outs_r),
                        Kind::If => match body.as_ref().unwrap() {
                            Sub::If(b) => b.to_onnx_node(ins_r[0], outs_r[0], rows, seeds, &id.to_string()),
                            _ => unreachable!(),
                        },
                        Kind::Loop => match body.as_ref().unwrap() {
                            Sub::Loop(b) => loop_node(b, ins_r[2], outs_r[0], rows, seeds, &id.to_string()),
                            _ => unreachable!(),
                        },
                    };
                    match kind {
                        Kind::RandU | Kind::RandN | Kind::RandULike | Kind::RandNLike => {
                            if seeds {
                                node = node.attr("seed", Attr::Float(seed));
                            }
                        }
                        Kind::Dropout => {
                            if *seeded {
                                node = node.attr("seed", Attr::Int(7 + id as i64));
                            }
                        }
                        _ => {}
                    }
                    let mut nb = node.encode();
                    if matches!(kind, Kind::RandU | Kind::RandN) {
                        // `shape` as an unpacked repeated int64 field (what rten-onnx decodes;
                        // the shared encoder's `Attr::Ints` writes the packed form)
                        let mut a = Vec::new();
                        onnx_enc::f_str(&mut a, 1, "shape");
                        for d in [rows as i64, COLS as i64] {
                            onnx_enc::f_i64(&mut a, 8, d);
                        }
                        onnx_enc::f_i64(&mut a, 20, 7);
                        onnx_enc::f_bytes(&mut nb, 5, &a);
                    }
                    node_bytes.push(nb);
                }
            }
        }
        let vi = |id: usize| {
            let (d, r) = self.dt_rows(id);
            if d == Dt::B {
                return ValueInfo::fixed(&name(id), dt::BOOL, &[]);
            }
            ValueInfo::fixed(
                &name(id),
                match d {
                    Dt::I => dt::INT32,
                    _ => dt::FLOAT,
                },
                &[r as i64, COLS as i64],
            )
        };
        g.inputs = self.inputs.iter().map(|&i| vi(i)).collect();
        g.outputs = self.outputs.iter().map(|&i| vi(i)).collect();
        // GraphProto: node bytes first, then the rest as encoded by the shared encoder
        let mut gb = Vec::new();
        for nb in &node_bytes {
            onnx_enc::f_bytes(&mut gb, 1, nb);
        }
        gb.extend(g.encode());
        let mut o = Vec::new();
        onnx_enc::f_i64(&mut o, 1, 8);
        onnx_enc::f_str(&mut o, 2, "rten-verif");
        onnx_enc::f_bytes(&mut o, 7, &gb);
        let mut os = Vec::new();
        onnx_enc::f_str(&mut os, 1, "");
        onnx_enc::f_i64(&mut os, 2, 21);
        onnx_enc::f_bytes(&mut o, 8, &os);
        o
    }
}

fn gen_graph(rng: &mut Rng, big: bool) -> GraphD {
    let mut nodes: Vec<NodeD> = vec![];
    let mut avail: Vec<usize> = vec![];
    let n_inputs = rng.usize_below(5);
    let n_consts = rng.usize_below(3);
    let mut inputs = vec![];
    for _ in 0..n_inputs {
        let d = if rng.chance(1, 8) {
            Dt::B
        } else if rng.chance(2, 3) {
            Dt::I
        } else {
            Dt::F
        };
        let r = if d == Dt::B { 0 } else { 1 + rng.usize_below(2) };
        nodes.push(NodeD::V(d, r));
        inputs.push(nodes.len() - 1);
        avail.push(nodes.len() - 1);
    }
    for _ in 0..n_consts {
        let d = if rng.chance(2, 3) { Dt::I } else { Dt::F };
        let r = 1 + rng.usize_below(2);
        let data = (0..r * COLS).map(|_| rng.range_i64(-3, 3) as i32).collect();
        nodes.push(NodeD::C(d, r, data));
        avail.push(nodes.len() - 1);
    }
    let n_ops = 1 + rng.usize_below(if big { 12 } else { 7 });
    let rand_heavy = rng.chance(1, 2);
    for _ in 0..n_ops {
        // choose a kind that is applicable
        for _attempt in 0..20 {
            let k = rng.usize_below(if rand_heavy { 21 } else { 15 });
            let k = if k == 14 && !rand_heavy { 19 } else { k };
            let kind = match k {
                0 | 1 => Kind::Add,
                2 => Kind::Sub,
                3 | 4 => Kind::Mul,
                5 => Kind::Neg,
                6 => Kind::Abs,
                7 => Kind::Identity,
                8 => Kind::CastF,
                9 => Kind::CastI,
                10 | 11 => Kind::Split,
                12 | 17 => Kind::Dropout,
                13 | 18 => Kind::If,
                19 => Kind::Loop,
                14 => Kind::RandU,
                15 => Kind::RandN,
                16 => Kind::RandULike,
                _ => Kind::RandNLike,
            };
            let pick = |rng: &mut Rng, nodes: &Vec<NodeD>, f: &dyn Fn(Dt, usize) -> bool| -> Option<usize> {
                let c: Vec<usize> = avail
                    .iter()
                    .copied()
                    .filter(|&v| match &nodes[v] {
                        NodeD::V(Dt::B, _) | NodeD::C(Dt::B, _, _) => f(Dt::B, 99),
                        NodeD::V(d, r) => f(*d, *r),
                        NodeD::C(d, r, _) => f(*d, *r),
                        _ => false,
                    })
                    .collect();
                if c.is_empty() {
                    None
                } else {
                    Some(*rng.pick(&c))
                }
            };
            let dr = |nodes: &Vec<NodeD>, v: usize| match &nodes[v] {
                NodeD::V(d, r) => (*d, *r),
                NodeD::C(d, r, _) => (*d, *r),
                _ => unreachable!(),
            };
            let mut new_vals: Vec<(Dt, usize)> = vec![];
            let ins: Vec<Option<usize>>;
            let mut det = true;
            let mut seeded = true;
            let mut drop_second = false;
            let mut body: Option<Sub> = None;
            match kind {
                Kind::If | Kind::Loop => {
                    // condition (used by `If` only): an existing bool value, or a fresh `true` constant
                    let cond = match pick(rng, &nodes, &|d, r| d == Dt::B && r == 99) {
                        Some(c) if rng.chance(1, 2) => c,
                        _ => {
                            nodes.push(NodeD::C(Dt::B, 0, vec![1]));
                            avail.push(nodes.len() - 1);
                            nodes.len() - 1
                        }
                    };
                    let rows = 1 + rng.usize_below(2);
                    fn gen_body(rng: &mut Rng, caps: &[usize], depth: usize) -> Body {
                        match rng.usize_below(if depth < 2 { 9 } else { 6 }) {
                            0 => Body::RandU,
                            1 => Body::RandNeg,
                            2 if !caps.is_empty() => Body::NegCap(*rng.pick(caps)),
                            2 | 3 | 4 => Body::ConstId,
                            5 => Body::UnusedRand,
                            6 => Body::Loop(Box::new(gen_body(rng, caps, depth + 1))),
                            _ => Body::Nested(Box::new(IfBody {
                                then_b: gen_body(rng, caps, depth + 1),
                                else_b: gen_body(rng, caps, depth + 1),
                            })),
                        }
                    }
                    // outer f32 values of the right shape can be captured
                    let caps: Vec<usize> = avail
                        .iter()
                        .copied()
                        .filter(|&v| matches!(&nodes[v], NodeD::V(Dt::F, r) | NodeD::C(Dt::F, r, _) if *r == rows))
                        .collect();
                    if kind == Kind::Loop {
                        // carried value: an outer f32 value of that shape
                        if caps.is_empty() {
                            continue;
                        }
                        let v_init = *rng.pick(&caps);
                        let b = Sub::Loop(gen_body(rng, &caps, 0));
                        det = b.deep_det();
                        body = Some(b);
                        ins = vec![None, None, Some(v_init)];
                    } else {
                        let b = Sub::If(IfBody { then_b: gen_body(rng, &caps, 0), else_b: gen_body(rng, &caps, 0) });
                        det = b.deep_det();
                        body = Some(b);
                        ins = vec![Some(cond)];
                    }
                    new_vals.push((Dt::F, rows));
                }
                Kind::Add | Kind::Sub | Kind::Mul => {
                    let Some(a) = pick(rng, &nodes, &|d, _| d != Dt::B) else { continue };
                    let (da, ra) = dr(&nodes, a);
                    let Some(b) = pick(rng, &nodes, &|d, _| d == da) else { continue };
                    let (_, rb) = dr(&nodes, b);
                    ins = vec![Some(a), Some(b)];
                    new_vals.push((da, ra.max(rb)));
                }
                Kind::Neg | Kind::Abs | Kind::Identity => {
                    let Some(a) = pick(rng, &nodes, &|d, _| d != Dt::B) else { continue };
                    ins = vec![Some(a)];
                    new_vals.push(dr(&nodes, a));
                }
                Kind::CastF => {
                    let Some(a) = pick(rng, &nodes, &|d, _| d == Dt::I) else { continue };
                    ins = vec![Some(a)];
                    new_vals.push((Dt::F, dr(&nodes, a).1));
                }
                Kind::CastI => {
                    let Some(a) = pick(rng, &nodes, &|d, _| d == Dt::F) else { continue };
                    ins = vec![Some(a)];
                    new_vals.push((Dt::I, dr(&nodes, a).1));
                }
                Kind::Split => {
                    let Some(a) = pick(rng, &nodes, &|d, r| d != Dt::B && r == 2) else { continue };
                    ins = vec![Some(a)];
                    let d = dr(&nodes, a).0;
                    new_vals.push((d, 1));
                    new_vals.push((d, 1));
                }
                Kind::Dropout => {
                    let Some(a) = pick(rng, &nodes, &|d, _| d == Dt::F) else { continue };
                    ins = vec![Some(a)];
                    let r = dr(&nodes, a).1;
                    new_vals.push((Dt::F, r));
                    new_vals.push((Dt::I, r));
                    seeded = rng.chance(1, 2);
                    det = seeded;
                    drop_second = rng.chance(1, 2);
                }
                Kind::RandU | Kind::RandN => {
                    ins = vec![];
                    new_vals.push((Dt::F, 1 + rng.usize_below(2)));
                    det = false;
                }
                Kind::RandULike | Kind::RandNLike => {
                    let Some(a) = pick(rng, &nodes, &|d, _| d != Dt::B) else { continue };
                    ins = vec![Some(a)];
                    new_vals.push((Dt::F, dr(&nodes, a).1));
                    det = false;
                }
            }
            // op node before or after its outputs in id order
            let op_first = rng.chance(1, 2);
            let base = nodes.len();
            let mut outs: Vec<Option<usize>> = vec![];
            if op_first {
                nodes.push(NodeD::V(Dt::I, 1)); // placeholder, replaced below
            }
            for (i, (d, r)) in new_vals.iter().enumerate() {
                if i == 1 && drop_second {
                    continue;
                }
                nodes.push(NodeD::V(*d, *r));
                outs.push(Some(nodes.len() - 1));
            }
            let op = NodeD::O { kind, ins, outs: outs.clone(), det, seeded, body };
            if op_first {
                nodes[base] = op;
            } else {
                nodes.push(op);
            }
            avail.extend(outs.iter().flatten());
            break;
        }
    }
    let mut g = GraphD { nodes, inputs, outputs: vec![] };
    // declared outputs: sinks, plus occasionally something else
    let used: BTreeSet<usize> = g.op_ids().iter().flat_map(|&p| g.op_deps(p)).collect();
    let mut outs: Vec<usize> = g
        .value_ids()
        .into_iter()
        .filter(|v| !used.contains(v) && g.source(*v).is_some())
        .collect();
    if outs.is_empty() {
        outs = g.value_ids().into_iter().take(1).collect();
    }
    if outs.len() > 3 {
        rng.shuffle(&mut outs);
        outs.truncate(3);
    }
    g.outputs = outs;
    g
}

fn make_value(rng: &mut Rng, d: Dt, rows: usize) -> Value {
    match d {
        Dt::B => Value::Int32Tensor(RTensor::from_data(&[], vec![1i32])),
        Dt::I => Value::Int32Tensor(RTensor::from_data(
            &[rows, COLS],
            (0..rows * COLS).map(|_| rng.range_i64(-3, 3) as i32).collect::<Vec<_>>(),
        )),
        Dt::F => Value::FloatTensor(RTensor::from_data(
            &[rows, COLS],
            (0..rows * COLS).map(|_| rng.range_i64(-8, 8) as f32 * 0.25).collect::<Vec<_>>(),
        )),
    }
}

fn bits(v: &Value) -> String {
    match v {
        Value::FloatTensor(t) => {
            format!("f{:?}:{:?}", t.shape(), t.iter().map(|x| x.to_bits()).collect::<Vec<_>>())
        }
        Value::Int32Tensor(t) => format!("i{:?}:{:?}", t.shape(), t.to_vec()),
        Value::Int8Tensor(t) => format!("i8{:?}:{:?}", t.shape(), t.to_vec()),
        Value::UInt8Tensor(t) => format!("u8{:?}:{:?}", t.shape(), t.to_vec()),
        Value::Sequence(_) => "seq".to_string(),
        _ => "other".to_string(),
    }
}

fn err_class(e: &RunError) -> String {
    let m = e.to_string();
    let c = if m.contains("Outputs are not unique") {
        "dup-output"
    } else if m.contains("Inputs are not unique") {
        "dup-input"
    } else if m.contains("Output") && m.contains("is not a value node") {
        "bad-output"
    } else if m.contains("Input") && m.contains("is not a value node") {
        "bad-input"
    } else if m.contains("Encountered cycle") {
        "cycle"
    } else if m.contains("Missing input") {
        "missing-input"
    } else if m.contains("Source node not found") {
        "no-source"
    } else {
        match e.kind() {
            rten::RunErrorKind::OperatorError => "op",
            rten::RunErrorKind::InvalidInput => "invalid-input",
            rten::RunErrorKind::NodeNotFound => "node-not-found",
            rten::RunErrorKind::PlanningError => "plan-other",
            _ => "other",
        }
    };
    format!("err:{c}")
}

fn ids_str(xs: &[usize]) -> String {
    if xs.is_empty() {
        "-".into()
    } else {
        hcommon::join(xs.iter(), ",")
    }
}

struct Loaded {
    model: Model,
    /// descriptor id -> NodeId (values and constants that exist in the loaded model)
    ids: HashMap<usize, NodeId>,
    back: HashMap<NodeId, usize>,
}

fn load(g: &GraphD, bytes: Vec<u8>, optimize: bool) -> Result<Loaded, String> {
    let mut opts = ModelOptions::with_all_ops();
    opts.enable_optimization(optimize);
    let model = opts.load(bytes).map_err(|e| e.to_string())?;
    let mut ids = HashMap::new();
    let mut back = HashMap::new();
    for v in g.value_ids() {
        if let Some(nid) = model.find_node(&name(v)) {
            ids.insert(v, nid);
            back.insert(nid, v);
        }
    }
    Ok(Loaded { model, ids, back })
}

type Vals = HashMap<usize, Value>;

fn run_on(l: &Loaded, supplied: &[(usize, &Value)], outs: &[usize]) -> Result<Result<Vec<Value>, RunError>, String> {
    run_on_own(l, supplied, outs, false)
}

/// `own`: pass every supplied value as an owned `Value` instead of a view.
fn run_on_own(
    l: &Loaded,
    supplied: &[(usize, &Value)],
    outs: &[usize],
    own: bool,
) -> Result<Result<Vec<Value>, RunError>, String> {
    let inputs: Vec<(NodeId, ValueOrView)> = supplied
        .iter()
        .map(|(i, v)| (l.ids[i], if own { ValueOrView::Value((*v).clone()) } else { ValueOrView::from(*v) }))
        .collect();
    let out_ids: Vec<NodeId> = outs.iter().map(|o| l.ids[o]).collect();
    hcommon::catch(|| l.model.run(inputs, &out_ids, None))
}

/// Expected leaf set from the descriptor alone (independent of the Lean model).
/// Returns (expected returned set, computable set).
fn expected_leaves(g: &GraphD, s: &[usize], outs: &[usize]) -> (BTreeSet<usize>, BTreeSet<usize>) {
    let sset: BTreeSet<usize> = s.iter().copied().collect();
    // operators the planner reaches: closure from outs through values not in S / constants
    let mut plan_ops: BTreeSet<usize> = BTreeSet::new();
    let mut stack: Vec<usize> = outs.to_vec();
    let mut seen: BTreeSet<usize> = BTreeSet::new();
    while let Some(v) = stack.pop() {
        if !seen.insert(v) || sset.contains(&v) || g.is_const(v) {
            continue;
        }
        if let Some(p) = g.source(v) {
            if plan_ops.insert(p) {
                stack.extend(g.op_deps(p));
            }
        }
    }
    // computable values: S, constants, outputs of deterministic planned ops with computable inputs
    let mut comp: BTreeSet<usize> = sset.clone();
    for v in g.value_ids() {
        if g.is_const(v) {
            comp.insert(v);
        }
    }
    let mut kept: BTreeSet<usize> = BTreeSet::new();
    loop {
        let mut changed = false;
        for &p in &plan_ops {
            if !kept.contains(&p) && g.op_det(p) && g.op_deps(p).iter().all(|d| comp.contains(d)) {
                kept.insert(p);
                comp.extend(g.op_outs(p));
                changed = true;
            }
        }
        if !changed {
            break;
        }
    }
    let mut cand: BTreeSet<usize> = sset.clone();
    for &p in &kept {
        cand.extend(g.op_outs(p));
    }
    let mut pruned_ins: BTreeSet<usize> = BTreeSet::new();
    for &p in &plan_ops {
        if !kept.contains(&p) {
            pruned_ins.extend(g.op_deps(p).into_iter().filter(|d| comp.contains(d)));
        }
    }
    let exp = cand.into_iter().filter(|v| outs.contains(v) || pruned_ins.contains(v)).collect();
    (exp, comp)
}

struct Case<'a> {
    g: &'a GraphD,
    descr: &'a str,
    m0: &'a Loaded,
    m1: Option<&'a Loaded>,
    vals: &'a Vals,
}

fn run_case(c: &Case, out: &mut Out, own: bool, s: &[usize], outs: &[usize], rest: &[usize]) {
    let g = c.g;
    // `prx`: a supplied id is also produced by an operator (outside "subset of the model's inputs")
    let exotic = s.iter().any(|v| g.source(*v).is_some());
    let req = format!(
        "{} {} {} {} {} {}",
        if exotic { "prx" } else { "pr" },
        own as u8,
        c.descr,
        ids_str(s),
        ids_str(outs),
        ids_str(rest)
    );
    let mut fails: Vec<String> = vec![];
    let all: Vec<(usize, &Value)> = s.iter().chain(rest.iter()).map(|i| (*i, &c.vals[i])).collect();

    // --- the three calls on the unoptimised model
    let l = c.m0;
    let full = run_on_own(l, &all, outs, own);
    let part = {
        let inputs: Vec<(NodeId, ValueOrView)> = s
            .iter()
            .map(|i| {
                let v = &c.vals[i];
                (l.ids[i], if own { ValueOrView::Value(v.clone()) } else { ValueOrView::from(v) })
            })
            .collect();
        let out_ids: Vec<NodeId> = outs.iter().map(|o| l.ids[o]).collect();
        hcommon::catch(|| l.model.partial_run(inputs, &out_ids, None))
    };
    let full_ok = matches!(&full, Ok(Ok(_)));
    out.bucket(if full_ok { "full:ok" } else { "full:fail" });
    let ans;
    let mut nontrivial = false;
    match part {
        Err(_) => {
            ans = "panic".to_string();
            out.bucket("partial:panic");
            if full_ok {
                fails.push("compose: partial_run panicked although run(all) succeeds".into());
            }
        }
        Ok(Err(e)) => {
            ans = err_class(&e);
            out.bucket("partial:err");
            if full_ok {
                fails.push(format!("compose: partial_run failed ({ans}) although run(all) succeeds"));
            }
        }
        Ok(Ok(leaves)) => {
            let leaf_ids: Vec<usize> = leaves.iter().map(|(nid, _)| l.back[nid]).collect();
            let leaf_set: BTreeSet<usize> = leaf_ids.iter().copied().collect();
            out.bucket(&format!("leaves:{}", leaf_ids.len().min(6)));
            nontrivial = !leaf_ids.is_empty() && leaf_set.iter().any(|v| !s.contains(v));
            // leaf-set oracle
            let (exp, comp) = expected_leaves(g, s, outs);
            if leaf_set.len() != leaf_ids.len() {
                fails.push(format!("leaf-set: duplicate id in returned list {:?}", leaf_ids));
                out.bucket("dup-leaf");
            }
            for v in &leaf_set {
                if !comp.contains(v) || g.is_const(*v) {
                    fails.push(format!("leaf-set: returned id {v} depends on a missing input or a non-deterministic operator"));
                }
            }
            if leaf_set != exp {
                fails.push(format!("leaf-set: returned {:?} expected {:?}", leaf_set, exp));
            }
            // final run
            let mut fin_in: Vec<(usize, &Value)> =
                leaves.iter().map(|(nid, v)| (l.back[nid], v)).collect();
            fin_in.extend(rest.iter().map(|i| (*i, &c.vals[i])));
            let fin = run_on_own(l, &fin_in, outs, own);
            let fin_s = match &fin {
                Err(_) => "panic".to_string(),
                Ok(Err(e)) => err_class(e),
                Ok(Ok(_)) => "ok".to_string(),
            };
            out.bucket(&format!("final:{fin_s}"));
            ans = format!("ids={} final={}", ids_str(&leaf_ids), fin_s);
            if let Ok(Ok(fv)) = &full {
                match &fin {
                    Ok(Ok(pv)) => {
                        for (k, (a, b)) in fv.iter().zip(pv.iter()).enumerate() {
                            if bits(a) != bits(b) {
                                fails.push(format!(
                                    "compose: output {} differs: run(all)={} run(partial+rest)={}",
                                    outs[k],
                                    bits(a),
                                    bits(b)
                                ));
                            }
                        }
                    }
                    _ => fails.push(format!("compose: run(all) ok but run(partial+rest) = {fin_s}")),
                }
                // leaf-val: each returned value equals its value in a full run
                if leaf_set.len() == leaf_ids.len() && !leaf_ids.is_empty() {
                    match run_on_own(l, &all, &leaf_ids, own) {
                        Ok(Ok(lv)) => {
                            for (k, ((_, a), b)) in leaves.iter().zip(lv.iter()).enumerate() {
                                if bits(a) != bits(b) {
                                    fails.push(format!(
                                        "leaf-val: leaf {} partial={} full={}",
                                        leaf_ids[k],
                                        bits(a),
                                        bits(b)
                                    ));
                                }
                            }
                        }
                        Ok(Err(e)) => fails.push(format!("leaf-val: run(all, leaves) failed: {}", err_class(&e))),
                        Err(_) => fails.push("leaf-val: run(all, leaves) panicked".into()),
                    }
                }
            }
        }
    }

    // --- the same composition on the optimised model (behaviour only)
    if let (Some(l1), false) = (c.m1, own) {
        let known = s.iter().chain(rest.iter()).chain(outs.iter()).all(|i| l1.ids.contains_key(i));
        if known {
            let full1 = run_on(l1, &all, outs);
            if let Ok(Ok(fv)) = &full1 {
                let inputs: Vec<(NodeId, ValueOrView)> =
                    s.iter().map(|i| (l1.ids[i], ValueOrView::from(&c.vals[i]))).collect();
                let out_ids: Vec<NodeId> = outs.iter().map(|o| l1.ids[o]).collect();
                match hcommon::catch(|| l1.model.partial_run(inputs, &out_ids, None)) {
                    Ok(Ok(leaves)) => {
                        let mut fin_in: Vec<(NodeId, ValueOrView)> =
                            leaves.iter().map(|(nid, v)| (*nid, ValueOrView::from(v))).collect();
                        fin_in.extend(rest.iter().map(|i| (l1.ids[i], ValueOrView::from(&c.vals[i]))));
                        match hcommon::catch(|| l1.model.run(fin_in, &out_ids, None)) {
                            Ok(Ok(pv)) => {
                                out.bucket("opt:ok");
                                for (k, (a, b)) in fv.iter().zip(pv.iter()).enumerate() {
                                    if bits(a) != bits(b) {
                                        fails.push(format!("compose(opt): output {} differs", outs[k]));
                                    }
                                }
                            }
                            Ok(Err(e)) => fails.push(format!("compose(opt): final run {}", err_class(&e))),
                            Err(_) => fails.push("compose(opt): final run panicked".into()),
                        }
                    }
                    Ok(Err(e)) => fails.push(format!("compose(opt): partial_run {}", err_class(&e))),
                    Err(_) => fails.push("compose(opt): partial_run panicked".into()),
                }
            } else {
                out.bucket("opt:full-fail");
            }
        } else {
            out.bucket("opt:name-gone");
        }
    }

    let pf = if fails.is_empty() { None } else { Some(fails.join(" | ")) };
    out.case(&req, &ans, pf.as_deref(), nontrivial);
}

/// `Random*` outputs must not have been folded into constants by the optimiser: with the
/// `seed` attributes removed, two runs of the optimised model give different values.
fn nofold_check(g: &GraphD, out: &mut Out, vals: &Vals) {
    let rand_outs: Vec<usize> = g
        .op_ids()
        .into_iter()
        .filter(|&p| match &g.nodes[p] {
            NodeD::O { kind: Kind::RandU | Kind::RandN | Kind::RandULike | Kind::RandNLike, .. } => true,
            // an `If` whose taken branch (all conditions are true) ends in a random operator
            NodeD::O { kind: Kind::If | Kind::Loop, body: Some(b), .. } => b.taken_random(),
            _ => false,
        })
        .flat_map(|p| g.op_outs(p))
        .collect();
    if rand_outs.is_empty() {
        return;
    }
    let mut gd = g.clone();
    gd.outputs = rand_outs.clone();
    let req = format!("# nofold {} {}", gd.descr(), ids_str(&rand_outs));
    let l = match load(&gd, gd.to_onnx(false), true) {
        Ok(l) => l,
        Err(e) => {
            out.case(&req, "load-fail", Some(&format!("nofold: optimised load failed: {e}")), false);
            return;
        }
    };
    let all: Vec<(usize, &Value)> = gd.inputs.iter().map(|i| (*i, &vals[i])).collect();
    let mut fails = vec![];
    for &r in &rand_outs {
        if !l.ids.contains_key(&r) {
            fails.push(format!("nofold: value {r} vanished from the optimised model"));
            continue;
        }
        let a = run_on(&l, &all, &[r]);
        let b = run_on(&l, &all, &[r]);
        match (a, b) {
            (Ok(Ok(a)), Ok(Ok(b))) => {
                if bits(&a[0]) == bits(&b[0]) {
                    fails.push(format!("nofold: unseeded random value {r} identical in two runs: {}", bits(&a[0])));
                }
            }
            _ => fails.push(format!("nofold: run for random value {r} failed")),
        }
        // partial_run must never return it either
        let out_ids = [l.ids[&r]];
        if let Ok(Ok(leaves)) = hcommon::catch(|| {
            l.model.partial_run(
                all.iter().map(|(i, v)| (l.ids[i], ValueOrView::from(*v))).collect(),
                &out_ids,
                None,
            )
        }) {
            if leaves.iter().any(|(nid, _)| *nid == l.ids[&r]) {
                fails.push(format!("nofold: partial_run returned the random value {r}"));
            }
        }
    }
    out.bucket("nofold");
    let pf = if fails.is_empty() { None } else { Some(fails.join(" | ")) };
    out.case(&req, "nofold", pf.as_deref(), true);
}

// ---------------------------------------------------------------- graph-level requests (`gp`)
//
// `Graph::partial_run` on graphs built through the real graph API (`rten::verif` hook), to reach
// what ONNX files cannot express: subgraph captures whose *name does not resolve* in the graph
// (third disjunct of `prune_plan`'s `prune_op`), captures that are also inputs, captures of
// values that are missing.  Operators: `Identity`, and `If` whose then-branch is
// `Identity(<first capture>)` (or a subgraph constant) with the listed capture names.
// Request: `gp <nodes> <S> <O>`; answer `ids=<leaf ids>` / `err:<class>` / `panic`.

#[derive(Clone, Debug)]
enum GNode {
    V,
    /// constant; `true` = i32 scalar 1 (usable as `If` condition)
    C(bool),
    /// Identity
    Id { inp: usize, out: usize },
    /// If(cond){ then: Identity(cap0) | const } with capture names `n<c>` (c >= nodes.len(): unresolved)
    If { cond: usize, out: usize, caps: Vec<usize> },
}

fn gp_descr(nodes: &[GNode]) -> String {
    hcommon::join(
        nodes.iter().map(|n| match n {
            GNode::V => "V".to_string(),
            GNode::C(_) => "C".to_string(),
            GNode::Id { inp, out } => format!("O/{inp}/{out}/1.0/-"),
            GNode::If { cond, out, caps } => format!(
                "O/{cond}/{out}/{}/{}",
                if caps.is_empty() { "1.2.0.0" } else { "1.2.1.1.0.0" },
                ids_str(caps)
            ),
        }),
        ";",
    )
}

fn gp_build(nodes: &[GNode]) -> rten::verif::Graph {
    use rten::verif::{op_identity, op_if, Graph as RGraph};
    let mut g = RGraph::new();
    for (i, n) in nodes.iter().enumerate() {
        let nm = name(i);
        let id = match n {
            GNode::V => g.add_value(Some(&nm), None, None),
            GNode::C(true) => g.add_constant(Some(&nm), RTensor::from(1i32).into_arc()),
            GNode::C(false) => g.add_constant(Some(&nm), RTensor::from(2.5f32).into_arc()),
            GNode::Id { inp, out } => g.add_op(
                Some(&nm),
                op_identity(),
                &[Some(NodeId::from_u32(*inp as u32))],
                &[Some(NodeId::from_u32(*out as u32))],
            ),
            GNode::If { cond, out, caps } => {
                let mut sub = RGraph::new();
                let cap_ids: Vec<NodeId> =
                    caps.iter().map(|c| sub.add_value(Some(&name(*c)), None, None)).collect();
                sub.set_captures(&cap_ids);
                if let Some(c0) = cap_ids.first() {
                    let o = sub.add_value(Some("sub_out"), None, None);
                    sub.add_op(Some("sub_id"), op_identity(), &[Some(*c0)], &[Some(o)]);
                    sub.set_output_ids(&[o]);
                } else {
                    let c = sub.add_constant(Some("sub_c"), RTensor::from(7.0f32).into_arc());
                    sub.set_output_ids(&[c]);
                }
                g.add_op(
                    Some(&nm),
                    op_if(sub, RGraph::new()),
                    &[Some(NodeId::from_u32(*cond as u32))],
                    &[Some(NodeId::from_u32(*out as u32))],
                )
            }
        };
        assert_eq!(id.as_u32() as usize, i);
    }
    g
}

fn gp_cases(rng: &mut Rng, out: &mut Out, n_graphs: usize) {
    for _ in 0..n_graphs {
        // values first (so that operators can refer to later values too), then operators
        let n_in = 1 + rng.usize_below(3);
        let mut nodes: Vec<GNode> = vec![];
        for _ in 0..n_in {
            nodes.push(GNode::V);
        }
        nodes.push(GNode::C(true));
        let cond = nodes.len() - 1;
        if rng.chance(1, 2) {
            nodes.push(GNode::C(false));
        }
        let n_ops = 1 + rng.usize_below(4);
        // reserve output value nodes
        let first_out = nodes.len();
        for _ in 0..n_ops {
            nodes.push(GNode::V);
        }
        let total = first_out + 2 * n_ops;
        for k in 0..n_ops {
            let outv = first_out + k;
            // candidates for inputs / captures: inputs, constants, outputs of earlier operators
            let mut cands: Vec<usize> = (0..first_out).filter(|&i| i != cond).collect();
            cands.extend(first_out..first_out + k);
            if rng.chance(1, 2) {
                nodes.push(GNode::Id { inp: *rng.pick(&cands), out: outv });
            } else {
                let mut caps = vec![];
                for _ in 0..rng.usize_below(3) {
                    let c = if rng.chance(1, 4) { total + rng.usize_below(3) } else { *rng.pick(&cands) };
                    if !caps.contains(&c) {
                        caps.push(c);
                    }
                }
                // condition: the i32 constant, or a graph input (then supplied as an i32 scalar)
                let c = if rng.chance(1, 5) { rng.usize_below(n_in) } else { cond };
                nodes.push(GNode::If { cond: c, out: outv, caps });
            }
        }
        let descr = gp_descr(&nodes);
        let g = gp_build(&nodes);
        let n = nodes.len();
        for mask in 0..(1u32 << n_in) {
            let s: Vec<usize> = (0..n_in).filter(|b| mask >> b & 1 == 1).collect();
            for _ in 0..2 {
                let k = 1 + rng.usize_below(2);
                let mut outs: Vec<usize> = (0..n).filter(|&i| !matches!(nodes[i], GNode::Id { .. } | GNode::If { .. })).collect();
                rng.shuffle(&mut outs);
                outs.truncate(k);
                let req = format!("gp {} {} {}", descr, ids_str(&s), ids_str(&outs));
                let vals: Vec<Value> = s
                    .iter()
                    .map(|i| {
                        let is_cond = nodes.iter().any(|nd| matches!(nd, GNode::If { cond, .. } if cond == i));
                        if is_cond {
                            Value::Int32Tensor(RTensor::from(1i32))
                        } else {
                            Value::FloatTensor(RTensor::from(1.5f32))
                        }
                    })
                    .collect();
                let inputs: Vec<(NodeId, ValueOrView)> =
                    s.iter().zip(vals.iter()).map(|(i, v)| (NodeId::from_u32(*i as u32), ValueOrView::from(v))).collect();
                let out_ids: Vec<NodeId> = outs.iter().map(|o| NodeId::from_u32(*o as u32)).collect();
                let unresolved = nodes.iter().any(|nd| matches!(nd, GNode::If { caps, .. } if caps.iter().any(|c| *c >= n)));
                out.bucket(if unresolved { "gp:unresolved-capture" } else { "gp:resolved" });
                let ans = match hcommon::catch(|| g.partial_run(inputs, &out_ids, None)) {
                    Err(_) => "panic".to_string(),
                    Ok(Err(e)) => err_class(&e),
                    Ok(Ok(leaves)) => {
                        let ids: Vec<usize> = leaves.iter().map(|(id, _)| id.as_u32() as usize).collect();
                        format!("ids={}", ids_str(&ids))
                    }
                };
                // oracle: an `If` with an unresolved capture name is never evaluated: its output is not returned
                let mut pf = None;
                if let Some(rest) = ans.strip_prefix("ids=") {
                    let ids: Vec<usize> = rest.split(',').filter_map(|x| x.parse().ok()).collect();
                    for nd in &nodes {
                        if let GNode::If { out: o, caps, .. } = nd {
                            if caps.iter().any(|c| *c >= n) && ids.contains(o) {
                                pf = Some(format!("capture: output {o} of an If capturing a value from outside the graph was evaluated"));
                            }
                        }
                    }
                } else if ans == "panic" {
                    pf = Some("capture: Graph::partial_run panicked".to_string());
                }
                out.case(&req, &ans, pf.as_deref(), unresolved);
            }
        }
    }
}

fn main() {
    let args = hcommon::parse_args();
    if std::env::var_os("C04_DEBUG").is_none() {
        hcommon::quiet_panics();
    }
    let mut rng = Rng::new(args.seed);
    let mut out = Out::new(&args.out);
    let n_graphs = if args.thorough { 4000 } else { 350 };
    let mut load_fail = 0;
    for gi in 0..n_graphs {
        let g = gen_graph(&mut rng, gi % 5 == 0);
        if g.value_ids().is_empty() || g.op_ids().is_empty() {
            out.bucket("graph:empty");
            continue;
        }
        let descr = g.descr();
        let bytes = g.to_onnx(true);
        let m0 = match load(&g, bytes.clone(), false) {
            Ok(l) => l,
            Err(e) => {
                load_fail += 1;
                out.case(&format!("# load {descr}"), "load-fail", Some(&format!("generator: model does not load: {e}")), false);
                continue;
            }
        };
        let m1 = match hcommon::catch(|| load(&g, bytes, true)) {
            Ok(Ok(l)) => Some(l),
            _ => {
                out.bucket("opt:load-fail");
                None
            }
        };
        // values for every value node (inputs, and intermediates in case they are supplied)
        let mut vals: Vals = HashMap::new();
        for v in g.value_ids() {
            let (d, r) = g.dt_rows(v);
            vals.insert(v, make_value(&mut rng, d, r));
        }
        let case = Case { g: &g, descr: &descr, m0: &m0, m1: m1.as_ref(), vals: &vals };
        let has_rand = g.op_ids().iter().any(|&p| !g.op_det(p));
        out.bucket(if has_rand { "graph:nondet" } else { "graph:det" });
        for p in g.op_ids() {
            if let NodeD::O { body: Some(b), det, .. } = &g.nodes[p] {
                out.bucket(&format!("sub:depth={}", b.depth()));
                out.bucket(match (b, *det) {
                    (Sub::If(_), true) => "if:det",
                    (Sub::If(_), false) => "if:nondet",
                    (Sub::Loop(_), true) => "loop:det",
                    (Sub::Loop(_), false) => "loop:nondet",
                });
                if matches!(b, Sub::If(_)) && b.has_loop() {
                    out.bucket("loop-in-if");
                }
                if let Sub::Loop(lb) = b {
                    if matches!(lb, Body::Nested(_)) {
                        out.bucket("if-in-loop");
                    }
                }
                if !g.op_caps(p).is_empty() {
                    out.bucket("if:captures");
                }
            }
        }
        out.bucket(&format!("graph:inputs={}", g.inputs.len()));

        // output sets
        let values = g.value_ids();
        let mut out_sets: Vec<Vec<usize>> = vec![g.outputs.clone()];
        let n_sets = if args.thorough { 4 } else { 3 };
        for _ in 0..n_sets {
            let k = 1 + rng.usize_below(3.min(values.len()));
            let mut vs = values.clone();
            rng.shuffle(&mut vs);
            vs.truncate(k);
            out_sets.push(vs);
        }
        for outs in &out_sets {
            if outs.iter().any(|o| g.inputs.contains(o)) {
                out.bucket("outs:has-input");
            }
            if outs.iter().any(|o| g.is_const(*o)) {
                out.bucket("outs:has-const");
            }
            let k = g.inputs.len();
            for mask in 0..(1u32 << k) {
                let mut s: Vec<usize> = (0..k).filter(|b| mask >> b & 1 == 1).map(|b| g.inputs[b]).collect();
                let rest: Vec<usize> = (0..k).filter(|b| mask >> b & 1 == 0).map(|b| g.inputs[b]).collect();
                if rng.chance(1, 3) {
                    rng.shuffle(&mut s);
                }
                out.bucket(if s.is_empty() {
                    "S:empty"
                } else if rest.is_empty() {
                    "S:full"
                } else {
                    "S:proper"
                });
                run_case(&case, &mut out, false, &s, outs, &rest);
                if rng.chance(1, 6) {
                    run_case(&case, &mut out, true, &s, outs, &rest);
                }
                // exotic: additionally supply a value that an operator produces
                if rng.chance(1, 8) {
                    let produced: Vec<usize> =
                        values.iter().copied().filter(|v| g.source(*v).is_some()).collect();
                    if !produced.is_empty() {
                        let m = *rng.pick(&produced);
                        let mut s2 = s.clone();
                        s2.insert(rng.usize_below(s2.len() + 1), m);
                        out.bucket("S:supplied-and-produced");
                        let own = rng.chance(1, 3);
                        run_case(&case, &mut out, own, &s2, outs, &rest);
                    }
                }
            }
        }
        if has_rand {
            nofold_check(&g, &mut out, &vals);
        }
    }
    gp_cases(&mut rng, &mut out, if args.thorough { 3000 } else { 300 });
    out.note(&format!("graphs={n_graphs} load_fail={load_fail}"));
    out.finish("answer = returned leaf ids (in order) + outcome class of run(leaves ++ rest); PROPFAIL = compose / leaf-val / leaf-set / nofold oracle");
}
