//! C15: single-operator ONNX models (built with the shared encoder, loaded through the public
//! `ModelOptions::with_all_ops().load` / `Model::run`) are compared EXACTLY with the Lean reference of
//! the ONNX specification (`lean/RtenVerif/Model/OnnxRef*.lean`, driver `model_C15`).
//!
//! Request line: `<Op> attr=.. i:<dims>:<data> - @annotation…` (see Driver/C15.lean). Values the older
//! opsets pass as attributes are always written as inputs in the request (canonical opset-21 form); the
//! ONNX model really built encodes them as runtime inputs, initializers or attributes (`@via=`).
//! Answer: output tensors `i:<dims>:<data>` (dtype letter from the real `Value` variant), `err` when
//! loading or running fails, `panic`.
//!
//! Float operators with exact integer semantics (MaxPool, AveragePool, GlobalMaxPool, GlobalAveragePool,
//! Conv) are fed small-integer f32 data; rten's f32 output times a common denominator (`scale`, the lcm
//! of every possible window count) must be an integer up to f32 rounding and is compared as that
//! integer with the reference's exact `sum * scale / count`.
//!
//! Independent oracle (PROPFAIL): structural facts checked directly on rten's output, with a small
//! separate Rust evaluation for element-wise/broadcast operators, order/selection facts for TopK /
//! ArgMax / Reduce / CumSum, "data unchanged" for shape-only operators and "every output element comes
//! from the input" for data-movement operators.
#[path = "../onnx_enc.rs"]
mod onnx_enc;
use hcommon::{Out, Rng};
use onnx_enc::{dt, Attr, Graph, Node, Tensor, ValueInfo};
use rten::{ModelOptions, Value};
use rten_tensor::prelude::*;
use rten_tensor::Tensor as RTensor;

// ---------------------------------------------------------------------------------------------
// Model encoding. `onnx_enc::Node::encode` writes `ints` attributes in packed form; onnx.proto
// (proto2) declares `AttributeProto.ints` / `floats` unpacked and rten's reader only accepts that
// form, so nodes are encoded here (everything else reuses the shared encoder's public pieces).
// ---------------------------------------------------------------------------------------------

fn enc_attr(name: &str, a: &Attr) -> Vec<u8> {
    use onnx_enc::{f_bytes, f_f32, f_i64, f_str};
    let mut o = Vec::new();
    f_str(&mut o, 1, name);
    match a {
        Attr::Float(v) => {
            f_f32(&mut o, 2, *v);
            f_i64(&mut o, 20, 1);
        }
        Attr::Int(v) => {
            f_i64(&mut o, 3, *v);
            f_i64(&mut o, 20, 2);
        }
        Attr::Str(s) => {
            f_str(&mut o, 4, s);
            f_i64(&mut o, 20, 3);
        }
        Attr::Tensor(t) => {
            f_bytes(&mut o, 5, &t.encode());
            f_i64(&mut o, 20, 4);
        }
        Attr::Graph(g) => {
            f_bytes(&mut o, 6, &g.encode());
            f_i64(&mut o, 20, 5);
        }
        Attr::Floats(v) => {
            for x in v {
                f_f32(&mut o, 7, *x);
            }
            f_i64(&mut o, 20, 6);
        }
        Attr::Ints(v) => {
            for x in v {
                f_i64(&mut o, 8, *x);
            }
            f_i64(&mut o, 20, 7);
        }
        Attr::Strs(v) => {
            for s in v {
                f_str(&mut o, 9, s);
            }
            f_i64(&mut o, 20, 8);
        }
    }
    o
}

fn enc_node(n: &Node) -> Vec<u8> {
    use onnx_enc::{f_bytes, f_str};
    let mut o = Vec::new();
    for i in &n.inputs {
        f_str(&mut o, 1, i);
    }
    for i in &n.outputs {
        f_str(&mut o, 2, i);
    }
    f_str(&mut o, 3, &n.name);
    f_str(&mut o, 4, &n.op_type);
    for (name, a) in &n.attrs {
        f_bytes(&mut o, 5, &enc_attr(name, a));
    }
    if !n.domain.is_empty() {
        f_str(&mut o, 7, &n.domain);
    }
    o
}

fn model_bytes(g: &Graph, opset: i64) -> Vec<u8> {
    use onnx_enc::{f_bytes, f_i64, f_str};
    let mut gb = Vec::new();
    for n in &g.nodes {
        f_bytes(&mut gb, 1, &enc_node(n));
    }
    f_str(&mut gb, 2, "g");
    for t in &g.initializers {
        f_bytes(&mut gb, 5, &t.encode());
    }
    for v in &g.inputs {
        f_bytes(&mut gb, 11, &v.encode());
    }
    for v in &g.outputs {
        f_bytes(&mut gb, 12, &v.encode());
    }
    let mut o = Vec::new();
    f_i64(&mut o, 1, 8);
    f_str(&mut o, 2, "rten-verif");
    f_bytes(&mut o, 7, &gb);
    let mut os = Vec::new();
    f_str(&mut os, 1, "");
    f_i64(&mut os, 2, opset);
    f_bytes(&mut o, 8, &os);
    o
}

// ---------------------------------------------------------------------------------------------
// Case description
// ---------------------------------------------------------------------------------------------

#[derive(Clone, Debug, PartialEq)]
enum Via {
    /// graph input fed at run time
    Run,
    /// constant initializer
    Init,
    /// encoded as an `ints` attribute of this name (pre-"attribute became input" opsets)
    Attr(&'static str),
    /// encoded as a single `int` attribute
    AttrInt(&'static str),
}

#[derive(Clone, Debug)]
struct TIn {
    dtype: i32,
    shape: Vec<usize>,
    data: Vec<i64>,
    via: Via,
}

#[derive(Clone, Debug)]
enum AV {
    I(i64),
    Is(Vec<i64>),
    S(String),
    /// tensor attribute (ONNX only); the model sees `model_val`
    T(Tensor, i64),
}

#[derive(Clone, Debug)]
struct At {
    name: String,
    v: AV,
    to_model: bool,
    to_onnx: bool,
}

#[derive(Clone, Debug)]
struct Case {
    op: &'static str,
    opset: i64,
    attrs: Vec<At>,
    inputs: Vec<Option<TIn>>,
    nout: usize,
    optimize: bool,
    /// float outputs are multiplied by this and must then be (nearly) integers; None = integer operator
    fscale: Option<i64>,
    /// variant: every tensor input of the node is an executor-owned intermediate produced by a
    /// value-preserving node (so that operators with an in-place implementation take that path)
    owned: bool,
    /// producer used for owned inputs: 0 = Identity, 1 = Add(x, 0)
    own_kind: u8,
}

impl Case {
    fn new(op: &'static str) -> Case {
        Case { op, opset: 21, attrs: vec![], inputs: vec![], nout: 1, optimize: true, fscale: None, owned: false, own_kind: 0 }
    }
    fn attr_i(&mut self, name: &str, v: i64) {
        self.attrs.push(At { name: name.into(), v: AV::I(v), to_model: true, to_onnx: true });
    }
    fn attr_is(&mut self, name: &str, v: Vec<i64>) {
        self.attrs.push(At { name: name.into(), v: AV::Is(v), to_model: true, to_onnx: true });
    }
    fn attr_s(&mut self, name: &str, v: &str) {
        self.attrs.push(At { name: name.into(), v: AV::S(v.into()), to_model: true, to_onnx: true });
    }
    fn model_only_i(&mut self, name: &str, v: i64) {
        self.attrs.push(At { name: name.into(), v: AV::I(v), to_model: true, to_onnx: false });
    }
    fn get_i(&self, name: &str) -> Option<i64> {
        self.attrs.iter().find(|a| a.name == name && a.to_model).and_then(|a| match &a.v {
            AV::I(v) => Some(*v),
            AV::T(_, v) => Some(*v),
            _ => None,
        })
    }
    fn get_s(&self, name: &str) -> Option<String> {
        self.attrs.iter().find(|a| a.name == name).and_then(|a| match &a.v {
            AV::S(v) => Some(v.clone()),
            _ => None,
        })
    }
    fn push(&mut self, t: TIn) {
        self.inputs.push(Some(t));
    }
    fn push_none(&mut self) {
        self.inputs.push(None);
    }

    fn request(&self) -> String {
        let mut s = String::from(self.op);
        for a in &self.attrs {
            if !a.to_model {
                continue;
            }
            match &a.v {
                AV::I(v) => s += &format!(" {}={}", a.name, v),
                AV::Is(v) => s += &format!(" {}={}", a.name, hcommon::join(v.iter(), ",")),
                AV::S(v) => s += &format!(" {}=${}", a.name, v),
                AV::T(_, v) => s += &format!(" {}={}", a.name, v),
            }
        }
        let mut ins = self.inputs.clone();
        while matches!(ins.last(), Some(None)) {
            ins.pop();
        }
        let mut dts = vec![];
        let mut vias = vec![];
        for i in &ins {
            match i {
                None => s += " -",
                Some(t) => {
                    s += &format!(" i:{}:{}", hcommon::join(t.shape.iter(), ","), hcommon::join(t.data.iter(), ","));
                    dts.push(match t.dtype {
                        dt::INT32 => "i",
                        dt::INT64 => "l",
                        dt::BOOL => "b",
                        dt::FLOAT => "f",
                        _ => "?",
                    });
                    vias.push(match t.via {
                        Via::Run => "r",
                        Via::Init => "c",
                        Via::Attr(_) | Via::AttrInt(_) => "a",
                    });
                }
            }
        }
        s += &format!(" @opset={} @dt={} @via={} @opt={}", self.opset, dts.join(""), vias.join(""), self.optimize as u8);
        if self.owned {
            s += &format!(" @own={}", if self.own_kind == 0 { "identity" } else { "addzero" });
        }
        s
    }
}

fn sat32(v: i64) -> i32 {
    v.clamp(i32::MIN as i64, i32::MAX as i64) as i32
}

fn make_init(name: &str, t: &TIn) -> Tensor {
    let dims: Vec<i64> = t.shape.iter().map(|&d| d as i64).collect();
    match t.dtype {
        dt::INT64 => Tensor::i64s(name, &dims, &t.data),
        dt::BOOL => Tensor::bools(name, &dims, &t.data.iter().map(|&v| v != 0).collect::<Vec<_>>()),
        dt::FLOAT => Tensor::f32s(name, &dims, &t.data.iter().map(|&v| v as f32).collect::<Vec<_>>()),
        _ => Tensor::i32s(name, &dims, &t.data.iter().map(|&v| sat32(v)).collect::<Vec<_>>()),
    }
}

/// Build, load and run the single-node model. Ok(outputs as text) / Err(class).
fn run_case(c: &Case, ran_in_place: &mut Option<bool>) -> Result<Vec<(char, Vec<usize>, Vec<i64>)>, String> {
    let mut node_inputs: Vec<String> = vec![];
    let mut graph_inputs = vec![];
    let mut inits = vec![];
    let mut feeds: Vec<(String, RTensor<i32>)> = vec![];
    let mut ffeeds: Vec<(String, RTensor<f32>)> = vec![];
    let mut extra_attrs: Vec<(String, Attr)> = vec![];
    let mut producers: Vec<Node> = vec![];
    for (k, i) in c.inputs.iter().enumerate() {
        let mut name = format!("in{k}");
        if c.owned {
            if let Some(t) = i {
                if matches!(t.via, Via::Run | Via::Init) {
                    // in{k} = producer(src{k}): an intermediate value owned by the executor
                    let src = format!("src{k}");
                    if c.own_kind == 1 && t.dtype != dt::BOOL {
                        let z = format!("zero{k}");
                        inits.push(match t.dtype {
                            dt::FLOAT => Tensor::f32s(&z, &[], &[0.0]),
                            dt::INT64 => Tensor::i64s(&z, &[], &[0]),
                            _ => Tensor::i32s(&z, &[], &[0]),
                        });
                        producers.push(Node::new("Add", &format!("p{k}"), &[&src, &z], &[&name]));
                    } else {
                        producers.push(Node::new("Identity", &format!("p{k}"), &[&src], &[&name]));
                    }
                    node_inputs.push(name.clone());
                    name = src;
                    match &t.via {
                        Via::Run => {
                            let dims: Vec<i64> = t.shape.iter().map(|&d| d as i64).collect();
                            graph_inputs.push(ValueInfo::fixed(&name, t.dtype, &dims));
                            if t.dtype == dt::FLOAT {
                                ffeeds.push((
                                    name.clone(),
                                    RTensor::<f32>::from_data(&t.shape[..], t.data.iter().map(|&v| v as f32).collect::<Vec<_>>()),
                                ));
                            } else {
                                feeds.push((
                                    name.clone(),
                                    RTensor::<i32>::from_data(&t.shape[..], t.data.iter().map(|&v| sat32(v)).collect::<Vec<_>>()),
                                ));
                            }
                        }
                        _ => inits.push(make_init(&name, t)),
                    }
                    continue;
                }
            }
        }
        match i {
            None => node_inputs.push(String::new()),
            Some(t) => match &t.via {
                Via::Run => {
                    let dims: Vec<i64> = t.shape.iter().map(|&d| d as i64).collect();
                    graph_inputs.push(ValueInfo::fixed(&name, t.dtype, &dims));
                    if t.dtype == dt::FLOAT {
                        ffeeds.push((
                            name.clone(),
                            RTensor::<f32>::from_data(&t.shape[..], t.data.iter().map(|&v| v as f32).collect::<Vec<_>>()),
                        ));
                    } else {
                        feeds.push((
                            name.clone(),
                            RTensor::<i32>::from_data(&t.shape[..], t.data.iter().map(|&v| sat32(v)).collect::<Vec<_>>()),
                        ));
                    }
                    node_inputs.push(name);
                }
                Via::Init => {
                    inits.push(make_init(&name, t));
                    node_inputs.push(name);
                }
                Via::Attr(an) => {
                    extra_attrs.push((an.to_string(), Attr::Ints(t.data.clone())));
                    node_inputs.push(String::new());
                }
                Via::AttrInt(an) => {
                    extra_attrs.push((an.to_string(), Attr::Int(t.data[0])));
                    node_inputs.push(String::new());
                }
            },
        }
    }
    while matches!(node_inputs.last(), Some(s) if s.is_empty()) {
        node_inputs.pop();
    }
    let out_names: Vec<String> = (0..c.nout).map(|k| format!("out{k}")).collect();
    let mut node = Node::new(
        c.op,
        "n",
        &node_inputs.iter().map(|s| s.as_str()).collect::<Vec<_>>(),
        &out_names.iter().map(|s| s.as_str()).collect::<Vec<_>>(),
    );
    for a in &c.attrs {
        if !a.to_onnx {
            continue;
        }
        let v = match &a.v {
            AV::I(v) => Attr::Int(*v),
            AV::Is(v) => Attr::Ints(v.clone()),
            AV::S(v) => Attr::Str(v.clone()),
            AV::T(t, _) => Attr::Tensor(t.clone()),
        };
        node = node.attr(&a.name, v);
    }
    for (n, a) in extra_attrs {
        node = node.attr(&n, a);
    }
    producers.push(node);
    let g = Graph {
        nodes: producers,
        initializers: inits,
        inputs: graph_inputs,
        outputs: out_names.iter().map(|n| ValueInfo::new(n, dt::INT32, None)).collect(),
        ..Default::default()
    };
    let bytes = model_bytes(&g, c.opset);
    let mut opts = ModelOptions::with_all_ops();
    opts.enable_optimization(c.optimize);
    let model = opts.load(bytes).map_err(|e| format!("load: {e}"))?;
    let mut run_inputs = vec![];
    for (n, t) in &feeds {
        let id = model.node_id(n).map_err(|e| format!("node_id: {e}"))?;
        run_inputs.push((id, t.view().into()));
    }
    for (n, t) in &ffeeds {
        let id = model.node_id(n).map_err(|e| format!("node_id: {e}"))?;
        run_inputs.push((id, t.view().into()));
    }
    let mut out_ids = vec![];
    for n in &out_names {
        out_ids.push(model.node_id(n).map_err(|e| format!("node_id: {e}"))?);
    }
    if c.owned {
        rten::verif::exec_trace::start_trace();
    }
    let run_res = model.run(run_inputs, &out_ids, None);
    if c.owned {
        // the tested node is the last step of the top-level plan
        use rten::verif::exec_trace::Event;
        for ev in rten::verif::exec_trace::take_trace() {
            if let Event::InPlace { depth: 0, run_in_place, .. } = ev {
                *ran_in_place = Some(run_in_place);
            }
        }
    }
    let outs = run_res.map_err(|e| format!("run: {e}"))?;
    let mut res = vec![];
    for o in outs {
        match o {
            Value::Int32Tensor(t) => res.push(('i', t.shape().to_vec(), t.iter().map(|&v| v as i64).collect())),
            Value::FloatTensor(t) => match c.fscale {
                // integer-valued float operator: value * scale must be an integer up to f32 rounding
                Some(sc) => {
                    let scaled: Vec<f64> = t.iter().map(|&v| v as f64 * sc as f64).collect();
                    let exact = scaled.iter().all(|v| v.is_finite() && (v - v.round()).abs() <= 3e-7 * v.abs() + 1e-9);
                    res.push((if exact { 'i' } else { 'x' }, t.shape().to_vec(), scaled.iter().map(|v| v.round() as i64).collect()))
                }
                None => res.push(('f', t.shape().to_vec(), t.iter().map(|&v| v as i64).collect())),
            },
            Value::Int8Tensor(t) => res.push(('c', t.shape().to_vec(), t.iter().map(|&v| v as i64).collect())),
            Value::UInt8Tensor(t) => res.push(('u', t.shape().to_vec(), t.iter().map(|&v| v as i64).collect())),
            _ => return Err("run: non-tensor output".into()),
        }
    }
    Ok(res)
}

// ---------------------------------------------------------------------------------------------
// Random building blocks
// ---------------------------------------------------------------------------------------------

fn rand_dim(rng: &mut Rng) -> usize {
    match rng.below(20) {
        0 | 1 => 0,
        2..=5 => 1,
        6..=10 => 2,
        11..=15 => 3,
        _ => 4,
    }
}

fn rand_dim_pos(rng: &mut Rng) -> usize {
    1 + rng.usize_below(4)
}

fn rand_shape(rng: &mut Rng, min_rank: usize, max_rank: usize) -> Vec<usize> {
    let r = min_rank + rng.usize_below(max_rank - min_rank + 1);
    (0..r).map(|_| rand_dim(rng)).collect()
}

fn rand_shape_pos(rng: &mut Rng, min_rank: usize, max_rank: usize) -> Vec<usize> {
    let r = min_rank + rng.usize_below(max_rank - min_rank + 1);
    (0..r).map(|_| rand_dim_pos(rng)).collect()
}

fn numel(s: &[usize]) -> usize {
    s.iter().product()
}

fn int_dtype(rng: &mut Rng) -> i32 {
    if rng.chance(1, 2) {
        dt::INT32
    } else {
        dt::INT64
    }
}

fn data_via(rng: &mut Rng) -> Via {
    if rng.chance(3, 4) {
        Via::Run
    } else {
        Via::Init
    }
}

fn param_via(rng: &mut Rng) -> Via {
    if rng.chance(2, 3) {
        Via::Init
    } else {
        Via::Run
    }
}

fn rand_vals(rng: &mut Rng, n: usize, lo: i64, hi: i64) -> Vec<i64> {
    (0..n).map(|_| rng.range_i64(lo, hi)).collect()
}

fn rand_tensor(rng: &mut Rng, shape: Vec<usize>, lo: i64, hi: i64) -> TIn {
    let n = numel(&shape);
    TIn { dtype: int_dtype(rng), data: rand_vals(rng, n, lo, hi), shape, via: data_via(rng) }
}

fn rand_bool_tensor(rng: &mut Rng, shape: Vec<usize>) -> TIn {
    let n = numel(&shape);
    TIn { dtype: dt::BOOL, data: rand_vals(rng, n, 0, 1), shape, via: data_via(rng) }
}

fn vec_param(rng: &mut Rng, vals: Vec<i64>) -> TIn {
    TIn { dtype: dt::INT64, shape: vec![vals.len()], data: vals, via: param_via(rng) }
}

fn scalar_param(rng: &mut Rng, v: i64, dtype: i32) -> TIn {
    TIn { dtype, shape: vec![], data: vec![v], via: param_via(rng) }
}

/// A shape that broadcasts (mostly) with `out`.
fn operand_shape(rng: &mut Rng, out: &[usize]) -> Vec<usize> {
    let drop = if rng.chance(1, 3) { rng.usize_below(out.len() + 1) } else { 0 };
    let mut s: Vec<usize> = out[drop..].to_vec();
    for d in s.iter_mut() {
        if rng.chance(1, 4) {
            *d = 1;
        }
    }
    if rng.chance(1, 25) && !s.is_empty() {
        let k = rng.usize_below(s.len());
        s[k] = rand_dim(rng);
    }
    s
}

fn rand_axis(rng: &mut Rng, rank: usize) -> i64 {
    // valid axis (positive or negative form), occasionally out of range
    if rank == 0 || rng.chance(1, 30) {
        return rng.range_i64(-(rank as i64) - 2, rank as i64 + 1);
    }
    let a = rng.usize_below(rank) as i64;
    if rng.chance(1, 2) {
        a - rank as i64
    } else {
        a
    }
}

fn neg_form(rng: &mut Rng, a: usize, rank: usize) -> i64 {
    if rng.chance(1, 2) {
        a as i64 - rank as i64
    } else {
        a as i64
    }
}

fn rand_subset(rng: &mut Rng, n: usize) -> Vec<usize> {
    let mut v: Vec<usize> = (0..n).filter(|_| rng.chance(1, 2)).collect();
    rng.shuffle(&mut v);
    v
}

// ---------------------------------------------------------------------------------------------
// Generators
// ---------------------------------------------------------------------------------------------

const BINARY: &[&str] = &[
    "Add", "Sub", "Mul", "Div", "Mod", "Equal", "Less", "LessOrEqual", "Greater", "GreaterOrEqual", "And", "Or", "Xor", "Pow",
];

fn gen_binary(rng: &mut Rng) -> Case {
    let op = *rng.pick(BINARY);
    let mut c = Case::new(op);
    let out = rand_shape(rng, 0, 4);
    let sa = operand_shape(rng, &out);
    let sb = operand_shape(rng, &out);
    let logical = matches!(op, "And" | "Or" | "Xor");
    if logical {
        c.push(rand_bool_tensor(rng, sa));
        c.push(rand_bool_tensor(rng, sb));
    } else {
        let dty = int_dtype(rng);
        let mut a = rand_tensor(rng, sa, -9, 9);
        let mut b = rand_tensor(rng, sb, -9, 9);
        if matches!(op, "Div" | "Mod") && !rng.chance(1, 40) {
            for v in b.data.iter_mut() {
                if *v == 0 {
                    *v = 3;
                }
            }
        }
        if op == "Pow" {
            a.data.iter_mut().for_each(|v| *v = *v % 4);
            b.data.iter_mut().for_each(|v| *v = v.abs() % 4);
        }
        a.dtype = dty;
        b.dtype = dty;
        c.push(a);
        c.push(b);
        if op == "Mod" && rng.chance(2, 3) {
            c.attr_i("fmod", rng.range_i64(0, 1));
        }
    }
    c
}

fn gen_unary(rng: &mut Rng) -> Case {
    let op = *rng.pick(&["Neg", "Abs", "Sign", "Not", "Identity", "Relu"]);
    let mut c = Case::new(op);
    let s = rand_shape(rng, 0, 4);
    if op == "Not" {
        c.push(rand_bool_tensor(rng, s));
    } else {
        c.push(rand_tensor(rng, s, -9, 9));
    }
    c
}

fn gen_variadic(rng: &mut Rng) -> Case {
    let op = *rng.pick(&["Min", "Max", "Sum"]);
    let mut c = Case::new(op);
    let out = rand_shape(rng, 0, 4);
    let n = 1 + rng.usize_below(3);
    let dty = int_dtype(rng);
    for _ in 0..n {
        let s = operand_shape(rng, &out);
        let mut t = rand_tensor(rng, s, -9, 9);
        t.dtype = dty;
        c.push(t);
    }
    c
}

fn gen_where(rng: &mut Rng) -> Case {
    let mut c = Case::new("Where");
    let out = rand_shape(rng, 0, 4);
    let sc = operand_shape(rng, &out);
    let sx = operand_shape(rng, &out);
    let sy = operand_shape(rng, &out);
    c.push(rand_bool_tensor(rng, sc));
    let dty = int_dtype(rng);
    let mut x = rand_tensor(rng, sx, -9, 9);
    let mut y = rand_tensor(rng, sy, -9, 9);
    x.dtype = dty;
    y.dtype = dty;
    c.push(x);
    c.push(y);
    c
}

fn gen_clip(rng: &mut Rng) -> Case {
    let mut c = Case::new("Clip");
    let s = rand_shape(rng, 0, 4);
    let x = rand_tensor(rng, s, -9, 9);
    let dty = x.dtype;
    c.push(x);
    let lo = rng.range_i64(-6, 4);
    let hi = rng.range_i64(lo - 1, 7);
    if rng.chance(2, 3) {
        c.push(scalar_param(rng, lo, dty));
    } else {
        c.push_none();
    }
    if rng.chance(2, 3) {
        c.push(scalar_param(rng, hi, dty));
    } else {
        c.push_none();
    }
    c
}

fn gen_cast(rng: &mut Rng) -> Case {
    let mut c = Case::new("Cast");
    let s = rand_shape(rng, 0, 4);
    if rng.chance(1, 3) {
        c.push(rand_bool_tensor(rng, s));
    } else {
        c.push(rand_tensor(rng, s, -3, 3));
    }
    c.attr_i("to", *rng.pick(&[6i64, 7, 9]));
    c
}

fn gen_reshape(rng: &mut Rng) -> Case {
    let mut c = Case::new("Reshape");
    let s = rand_shape(rng, 0, 4);
    let n = numel(&s);
    // target: a random regrouping of the element count
    let mut target: Vec<i64> = match rng.below(5) {
        0 => vec![n as i64],
        1 => s.iter().rev().map(|&d| d as i64).collect(),
        2 => {
            let mut t: Vec<i64> = s.iter().map(|&d| d as i64).collect();
            if t.len() >= 2 {
                let k = rng.usize_below(t.len() - 1);
                let m = t[k] * t[k + 1];
                t[k] = m;
                t.remove(k + 1);
            }
            t
        }
        3 => {
            let mut t: Vec<i64> = s.iter().map(|&d| d as i64).collect();
            let k = rng.usize_below(t.len() + 1);
            t.insert(k, 1);
            t
        }
        _ => {
            // split the count into two factors
            let mut f = 1;
            for d in [4usize, 3, 2] {
                if n % d == 0 && rng.chance(1, 2) {
                    f = d;
                    break;
                }
            }
            if n == 0 {
                vec![0, rng.range_i64(0, 3)]
            } else {
                vec![f as i64, (n / f) as i64]
            }
        }
    };
    // sprinkle -1 / 0
    if !target.is_empty() && rng.chance(1, 2) {
        let k = rng.usize_below(target.len());
        target[k] = -1;
    }
    if !target.is_empty() && rng.chance(1, 4) {
        let k = rng.usize_below(target.len());
        if k < s.len() && (target[k] == s[k] as i64 || rng.chance(1, 5)) {
            target[k] = 0;
        }
    }
    if rng.chance(1, 30) && !target.is_empty() {
        let k = rng.usize_below(target.len());
        target[k] = rng.range_i64(-2, 5);
    }
    match rng.below(3) {
        0 => {}
        1 => c.attr_i("allowzero", 0),
        _ => c.attr_i("allowzero", 1),
    }
    c.push(rand_tensor(rng, s, -9, 9));
    let mut p = vec_param(rng, target);
    if rng.chance(1, 8) && c.get_i("allowzero").is_none() {
        p.via = Via::Attr("shape");
        c.opset = 1;
    }
    c.push(p);
    c
}

fn gen_flatten(rng: &mut Rng) -> Case {
    let mut c = Case::new("Flatten");
    let s = rand_shape(rng, 0, 4);
    let r = s.len() as i64;
    if rng.chance(4, 5) {
        let a = if rng.chance(1, 25) { rng.range_i64(-r - 2, r + 2) } else { rng.range_i64(-r, r) };
        c.attr_i("axis", a);
    }
    c.push(rand_tensor(rng, s, -9, 9));
    c
}

fn gen_squeeze(rng: &mut Rng) -> Case {
    let mut c = Case::new("Squeeze");
    let mut s = rand_shape(rng, 0, 4);
    for d in s.iter_mut() {
        if rng.chance(1, 3) {
            *d = 1;
        }
    }
    let r = s.len();
    c.push(rand_tensor(rng, s.clone(), -9, 9));
    if rng.chance(3, 4) {
        let mut axes: Vec<i64> = vec![];
        for k in 0..r {
            if (s[k] == 1 && rng.chance(2, 3)) || rng.chance(1, 40) {
                axes.push(neg_form(rng, k, r));
            }
        }
        if rng.chance(1, 40) {
            axes.push(rng.range_i64(-6, 6));
        }
        let mut tmp = axes.clone();
        rng.shuffle(&mut tmp);
        let mut p = vec_param(rng, tmp);
        if rng.chance(1, 4) {
            p.via = Via::Attr("axes");
            c.opset = 11;
        }
        c.push(p);
    }
    c
}

fn gen_unsqueeze(rng: &mut Rng) -> Case {
    let mut c = Case::new("Unsqueeze");
    let s = rand_shape(rng, 0, 3);
    let r = s.len();
    let k = 1 + rng.usize_below(2);
    let out_r = r + k;
    let mut pos: Vec<usize> = (0..out_r).collect();
    rng.shuffle(&mut pos);
    let mut axes: Vec<i64> = pos[..k].iter().map(|&p| neg_form(rng, p, out_r)).collect();
    if rng.chance(1, 30) {
        axes[0] = rng.range_i64(-(out_r as i64) - 2, out_r as i64 + 1);
    }
    c.push(rand_tensor(rng, s, -9, 9));
    let mut p = vec_param(rng, axes);
    if rng.chance(1, 4) {
        p.via = Via::Attr("axes");
        c.opset = 11;
    }
    c.push(p);
    c
}

fn gen_transpose(rng: &mut Rng) -> Case {
    let mut c = Case::new("Transpose");
    let s = rand_shape(rng, 0, 4);
    let r = s.len();
    if rng.chance(4, 5) {
        let mut p: Vec<usize> = (0..r).collect();
        rng.shuffle(&mut p);
        let mut perm: Vec<i64> = p.iter().map(|&v| v as i64).collect();
        if rng.chance(1, 30) && r > 0 {
            let k = rng.usize_below(r);
            perm[k] = rng.range_i64(-1, r as i64);
        }
        c.attr_is("perm", perm);
    }
    c.push(rand_tensor(rng, s, -9, 9));
    c
}

fn gen_expand(rng: &mut Rng) -> Case {
    let mut c = Case::new("Expand");
    let out = rand_shape(rng, 0, 4);
    let sx = operand_shape(rng, &out);
    let spec = operand_shape(rng, &out);
    c.push(rand_tensor(rng, sx, -9, 9));
    c.push(vec_param(rng, spec.iter().map(|&d| d as i64).collect()));
    c
}

fn gen_tile(rng: &mut Rng) -> Case {
    let mut c = Case::new("Tile");
    let s = rand_shape(rng, 0, 3);
    let mut reps: Vec<i64> = s.iter().map(|_| rng.range_i64(0, 3)).collect();
    if rng.chance(1, 30) {
        reps.push(1);
    }
    c.push(rand_tensor(rng, s, -9, 9));
    c.push(vec_param(rng, reps));
    c
}

fn special_index(rng: &mut Rng, dim: usize) -> i64 {
    let d = dim as i64;
    match rng.below(12) {
        0 => i64::MAX,
        1 => i64::MIN,
        2 => i32::MAX as i64,
        3 => i32::MIN as i64,
        4 => i64::MAX - 1,
        5 => i64::MIN + 1,
        _ => rng.range_i64(-d - 2, d + 2),
    }
}

fn gen_slice(rng: &mut Rng) -> Case {
    let mut c = Case::new("Slice");
    let s = rand_shape(rng, 1, 4);
    let r = s.len();
    let use_axes = rng.chance(2, 3);
    let axes_u: Vec<usize> = if use_axes {
        let mut a = rand_subset(rng, r);
        if a.is_empty() {
            a.push(rng.usize_below(r));
        }
        a
    } else {
        (0..1 + rng.usize_below(r)).collect()
    };
    let n = axes_u.len();
    let starts: Vec<i64> = axes_u.iter().map(|&a| special_index(rng, s[a])).collect();
    let ends: Vec<i64> = axes_u.iter().map(|&a| special_index(rng, s[a])).collect();
    let use_steps = rng.chance(2, 3);
    let steps: Vec<i64> = (0..n)
        .map(|_| match rng.below(16) {
            0 => i64::MAX,
            1 => i64::MIN,
            2 => {
                if rng.chance(1, 4) {
                    0
                } else {
                    1
                }
            }
            3 => i32::MIN as i64,
            _ => {
                let v = rng.range_i64(1, 3);
                if rng.chance(2, 5) {
                    -v
                } else {
                    v
                }
            }
        })
        .collect();
    let mut steps = steps;
    if n >= 2 && use_steps && rng.chance(1, 3) {
        // mixed unit / non-unit steps over several axes (in-place clipping must not ignore steps)
        for st in steps.iter_mut() {
            *st = 1;
        }
        let k = rng.usize_below(n);
        steps[k] = *rng.pick(&[2i64, 3, -1, -2]);
    }
    let idt = if rng.chance(1, 4) { dt::INT32 } else { dt::INT64 };
    let mk = |rng: &mut Rng, vals: Vec<i64>| -> TIn {
        let mut p = vec_param(rng, vals);
        p.dtype = idt;
        if idt == dt::INT32 {
            p.data.iter_mut().for_each(|v| *v = sat32(*v) as i64);
        }
        p
    };
    c.push(rand_tensor(rng, s, -9, 9));
    let attr_form = !use_steps && rng.chance(1, 5);
    let mut st = mk(rng, starts);
    let mut en = mk(rng, ends);
    if attr_form {
        st.via = Via::Attr("starts");
        en.via = Via::Attr("ends");
        c.opset = 9;
    }
    c.push(st);
    c.push(en);
    if use_axes {
        let axv: Vec<i64> = axes_u.iter().map(|&a| neg_form(rng, a, r)).collect();
        let mut ax = mk(rng, axv);
        if attr_form {
            ax.via = Via::Attr("axes");
        }
        c.push(ax);
    } else if use_steps {
        c.push_none();
    }
    if use_steps {
        c.push(mk(rng, steps));
    }
    c
}

fn gen_concat(rng: &mut Rng) -> Case {
    let mut c = Case::new("Concat");
    let s = rand_shape(rng, 1, 4);
    let r = s.len();
    let ax = rng.usize_below(r);
    let n = 1 + rng.usize_below(3);
    let dty = int_dtype(rng);
    for _ in 0..n {
        let mut si = s.clone();
        si[ax] = rand_dim(rng);
        if rng.chance(1, 40) {
            let k = rng.usize_below(r);
            si[k] = rand_dim(rng);
        }
        let mut t = rand_tensor(rng, si, -9, 9);
        t.dtype = dty;
        c.push(t);
    }
    let a = if rng.chance(1, 40) { rng.range_i64(-6, 6) } else { neg_form(rng, ax, r) };
    c.attr_i("axis", a);
    c
}

fn gen_split(rng: &mut Rng) -> Case {
    let mut c = Case::new("Split");
    let s = rand_shape(rng, 1, 4);
    let r = s.len();
    let ax = rng.usize_below(r);
    let dim = s[ax];
    c.push(rand_tensor(rng, s.clone(), -9, 9));
    if rng.chance(4, 5) {
        c.attr_i("axis", neg_form(rng, ax, r));
    } else {
        // default axis 0: regenerate on axis 0
        return {
            let nout = 1 + rng.usize_below(3);
            if s[0] % nout == 0 {
                c.nout = nout;
                c.model_only_i("nout", nout as i64);
                c.opset = 13;
            } else {
                c.nout = nout;
                c.model_only_i("nout", nout as i64);
                c.attr_i("num_outputs", nout as i64);
            }
            c
        };
    }
    match rng.below(3) {
        0 => {
            // explicit sizes
            let nout = 1 + rng.usize_below(3);
            let mut sizes = vec![0i64; nout];
            for _ in 0..dim {
                let k = rng.usize_below(nout);
                sizes[k] += 1;
            }
            if rng.chance(1, 30) {
                sizes[0] += 1;
            }
            c.nout = nout;
            c.model_only_i("nout", nout as i64);
            let mut p = vec_param(rng, sizes);
            if rng.chance(1, 4) {
                p.via = Via::Attr("split");
                c.opset = 11;
            }
            c.push(p);
        }
        1 => {
            let nout = 1 + rng.usize_below(4);
            c.nout = nout;
            c.model_only_i("nout", nout as i64);
            c.attr_i("num_outputs", nout as i64);
        }
        _ => {
            // neither: equal parts by output count (only meaningful when divisible)
            let mut nout = 1 + rng.usize_below(3);
            if dim % nout != 0 {
                nout = 1;
            }
            c.nout = nout;
            c.model_only_i("nout", nout as i64);
            c.opset = 13;
        }
    }
    c
}

fn rand_index(rng: &mut Rng, dim: usize) -> i64 {
    let d = dim as i64;
    if rng.chance(1, 60) {
        return rng.range_i64(-d - 2, d + 1);
    }
    if d == 0 {
        return 0;
    }
    rng.range_i64(-d, d - 1)
}

fn gen_gather(rng: &mut Rng) -> Case {
    let mut c = Case::new("Gather");
    let s = rand_shape(rng, 1, 4);
    let r = s.len();
    let ax = rng.usize_below(r);
    let is = rand_shape(rng, 0, 2);
    let n = numel(&is);
    let idata: Vec<i64> = (0..n).map(|_| rand_index(rng, s[ax])).collect();
    c.push(rand_tensor(rng, s, -9, 9));
    c.push(TIn { dtype: int_dtype(rng), shape: is, data: idata, via: param_via(rng) });
    if ax != 0 || rng.chance(1, 2) {
        c.attr_i("axis", neg_form(rng, ax, r));
    }
    c
}

fn gen_gather_elements(rng: &mut Rng) -> Case {
    let mut c = Case::new("GatherElements");
    let s = rand_shape(rng, 1, 4);
    let r = s.len();
    let ax = rng.usize_below(r);
    let mut is = s.clone();
    for k in 0..r {
        if k == ax {
            is[k] = rand_dim(rng);
        } else if rng.chance(1, 3) && s[k] > 0 {
            is[k] = 1 + rng.usize_below(s[k]);
        }
    }
    let n = numel(&is);
    let idata: Vec<i64> = (0..n).map(|_| rand_index(rng, s[ax])).collect();
    c.push(rand_tensor(rng, s, -9, 9));
    c.push(TIn { dtype: int_dtype(rng), shape: is, data: idata, via: param_via(rng) });
    if ax != 0 || rng.chance(1, 2) {
        c.attr_i("axis", neg_form(rng, ax, r));
    }
    c
}

fn gen_gather_nd(rng: &mut Rng) -> Case {
    let mut c = Case::new("GatherND");
    let s = rand_shape_pos(rng, 1, 4);
    let r = s.len();
    let b = if rng.chance(1, 3) && r >= 2 { 1 + rng.usize_below(r - 1).min(1) } else { 0 };
    let k = 1 + rng.usize_below(r - b);
    let mut is: Vec<usize> = s[..b].to_vec();
    is.extend(rand_shape(rng, 0, 2));
    is.push(k);
    let outer = numel(&is[..is.len() - 1]);
    let mut idata = vec![];
    for _ in 0..outer {
        for j in 0..k {
            idata.push(rand_index(rng, s[b + j]));
        }
    }
    c.push(rand_tensor(rng, s, -9, 9));
    c.push(TIn { dtype: dt::INT64, shape: is, data: idata, via: param_via(rng) });
    if b != 0 || rng.chance(1, 3) {
        c.attr_i("batch_dims", b as i64);
    }
    c
}

const REDUCE: &[&str] = &["ReduceSum", "ReduceProd", "ReduceMin", "ReduceMax", "ReduceL1", "ReduceSumSquare"];

fn gen_reduce(rng: &mut Rng) -> Case {
    let op = *rng.pick(REDUCE);
    let mut c = Case::new(op);
    let s = rand_shape(rng, 0, 4);
    let r = s.len();
    let mut x = rand_tensor(rng, s, -4, 4);
    if op == "ReduceProd" {
        // keep every product far from int32 overflow: +-1 everywhere, at most 8 larger factors
        x.data.iter_mut().for_each(|v| *v = if *v < 0 { -1 } else { 1 });
        for _ in 0..8 {
            if !x.data.is_empty() {
                let k = rng.usize_below(x.data.len());
                x.data[k] = rng.range_i64(-3, 3);
            }
        }
    }
    c.push(x);
    if rng.chance(3, 4) {
        let ax = rand_subset(rng, r);
        let mut axes: Vec<i64> = ax.iter().map(|&a| neg_form(rng, a, r)).collect();
        if rng.chance(1, 40) {
            axes.push(rng.range_i64(-6, 6));
        }
        let mut p = vec_param(rng, axes);
        if rng.chance(1, 3) {
            p.via = Via::Attr("axes");
            c.opset = if op == "ReduceSum" { 11 } else { 13 };
        }
        c.push(p);
    }
    if rng.chance(2, 3) {
        c.attr_i("keepdims", rng.range_i64(0, 1));
    }
    if rng.chance(1, 2) && c.opset == 21 {
        c.attr_i("noop_with_empty_axes", rng.range_i64(0, 1));
    }
    c
}

fn gen_argreduce(rng: &mut Rng) -> Case {
    let op = *rng.pick(&["ArgMax", "ArgMin"]);
    let mut c = Case::new(op);
    let s = rand_shape(rng, 1, 4);
    let r = s.len();
    c.push(rand_tensor(rng, s, -3, 3));
    let ax = rng.usize_below(r);
    if ax != 0 || rng.chance(1, 2) {
        c.attr_i("axis", if rng.chance(1, 40) { rng.range_i64(-6, 6) } else { neg_form(rng, ax, r) });
    }
    if rng.chance(2, 3) {
        c.attr_i("keepdims", rng.range_i64(0, 1));
    }
    if rng.chance(1, 3) {
        c.attr_i("select_last_index", if rng.chance(1, 4) { 1 } else { 0 });
    }
    c
}

fn gen_cumsum(rng: &mut Rng) -> Case {
    let mut c = Case::new("CumSum");
    let s = rand_shape(rng, 1, 4);
    let r = s.len();
    c.push(rand_tensor(rng, s, -9, 9));
    let ax = rng.usize_below(r);
    let a = if rng.chance(1, 40) { rng.range_i64(-6, 6) } else { neg_form(rng, ax, r) };
    let dty = int_dtype(rng);
    c.push(scalar_param(rng, a, dty));
    if rng.chance(2, 3) {
        c.attr_i("exclusive", rng.range_i64(0, 1));
    }
    if rng.chance(2, 3) {
        c.attr_i("reverse", rng.range_i64(0, 1));
    }
    c
}

fn gen_pad(rng: &mut Rng) -> Case {
    let mut c = Case::new("Pad");
    let mode = *rng.pick(&["constant", "constant", "edge", "reflect", "wrap"]);
    let s = if mode == "constant" { rand_shape(rng, 0, 4) } else { rand_shape_pos(rng, 0, 4) };
    let r = s.len();
    let use_axes = rng.chance(1, 3) && r > 0;
    let axes_u: Vec<usize> = if use_axes { rand_subset(rng, r) } else { (0..r).collect() };
    let n = axes_u.len();
    let mut pads = vec![0i64; 2 * n];
    for (j, &a) in axes_u.iter().enumerate() {
        let d = s[a] as i64;
        for side in 0..2 {
            let v = match mode {
                "constant" => {
                    if rng.chance(1, 6) {
                        -rng.range_i64(0, d + 1)
                    } else {
                        rng.range_i64(0, 3)
                    }
                }
                "reflect" => rng.range_i64(0, (d - 1).max(0)),
                "wrap" => rng.range_i64(0, d),
                _ => rng.range_i64(0, 3),
            };
            pads[side * n + j] = v;
        }
    }
    let x = rand_tensor(rng, s, -9, 9);
    let dty = x.dtype;
    c.push(x);
    c.push(vec_param(rng, pads));
    let has_cval = rng.chance(1, 2);
    if has_cval {
        c.push(scalar_param(rng, rng.clone().range_i64(-9, 9), dty));
    } else if use_axes {
        c.push_none();
    }
    if use_axes {
        let axv: Vec<i64> = axes_u.iter().map(|&a| neg_form(rng, a, r)).collect();
        c.push(vec_param(rng, axv));
    }
    if mode != "constant" || rng.chance(1, 2) {
        c.attr_s("mode", mode);
    }
    c
}

fn gen_trilu(rng: &mut Rng) -> Case {
    let mut c = Case::new("Trilu");
    let s = rand_shape(rng, 2, 4);
    c.push(rand_tensor(rng, s, 1, 9));
    if rng.chance(2, 3) {
        c.push(scalar_param(rng, rng.clone().range_i64(-5, 5), dt::INT64));
    }
    if rng.chance(2, 3) {
        c.attr_i("upper", rng.range_i64(0, 1));
    }
    c
}

fn gen_range(rng: &mut Rng) -> Case {
    let mut c = Case::new("Range");
    let dty = int_dtype(rng);
    let start = rng.range_i64(-6, 6);
    let limit = rng.range_i64(-8, 8);
    let mut delta = rng.range_i64(-3, 3);
    if delta == 0 && !rng.chance(1, 20) {
        delta = 1;
    }
    c.push(scalar_param(rng, start, dty));
    c.push(scalar_param(rng, limit, dty));
    c.push(scalar_param(rng, delta, dty));
    c
}

fn gen_onehot(rng: &mut Rng) -> Case {
    let mut c = Case::new("OneHot");
    let s = rand_shape(rng, 0, 3);
    let r = s.len() as i64;
    let depth = rng.range_i64(1, 4);
    let n = numel(&s);
    let idata: Vec<i64> = (0..n).map(|_| rng.range_i64(-depth - 1, depth + 1)).collect();
    c.push(TIn { dtype: int_dtype(rng), shape: s, data: idata, via: data_via(rng) });
    let ddt = int_dtype(rng);
    let mut dp = scalar_param(rng, depth, ddt);
    if rng.chance(1, 3) {
        dp.shape = vec![1];
    }
    c.push(dp);
    let vals = vec![rng.range_i64(-3, 3), rng.range_i64(-3, 3)];
    let mut vp = vec_param(rng, vals);
    vp.dtype = int_dtype(rng);
    c.push(vp);
    if rng.chance(2, 3) {
        c.attr_i("axis", if rng.chance(1, 30) { rng.range_i64(-r - 3, r + 2) } else { rng.range_i64(-r - 1, r) });
    }
    c
}

fn gen_matmul(rng: &mut Rng) -> Case {
    let mut c = Case::new("MatMul");
    let k = rand_dim(rng);
    let m = rand_dim(rng);
    let n = rand_dim(rng);
    let batch = rand_shape(rng, 0, 2);
    let (sa, sb) = match rng.below(5) {
        0 => (vec![k], vec![k, n]),
        1 => (vec![m, k], vec![k]),
        2 => (vec![k], vec![k]),
        _ => {
            let mut a = operand_shape(rng, &batch);
            let mut b = operand_shape(rng, &batch);
            a.extend([m, k]);
            b.extend([if rng.chance(1, 30) { k + 1 } else { k }, n]);
            (a, b)
        }
    };
    let dty = dt::INT32;
    let mut a = rand_tensor(rng, sa, -5, 5);
    let mut b = rand_tensor(rng, sb, -5, 5);
    a.dtype = dty;
    b.dtype = dty;
    c.push(a);
    c.push(b);
    c
}

fn gen_scatter_elements(rng: &mut Rng) -> Case {
    let mut c = Case::new("ScatterElements");
    let s = rand_shape_pos(rng, 1, 3);
    let r = s.len();
    let ax = rng.usize_below(r);
    let red = *rng.pick(&["", "none", "add", "mul", "min", "max"]);
    let mut is = s.clone();
    for k in 0..r {
        if rng.chance(1, 2) {
            is[k] = 1 + rng.usize_below(s[k]);
        }
    }
    if rng.chance(1, 15) {
        is[ax] = 0;
    }
    let n = numel(&is);
    // mostly unique targets along the axis: a per-lane permutation
    let mut idata = vec![0i64; n];
    let strides: Vec<usize> = (0..r).map(|k| is[k + 1..].iter().product()).collect();
    for lin in 0..n {
        let idx: Vec<usize> = (0..r).map(|k| (lin / strides[k]) % is[k]).collect();
        let v = if red == "" || red == "none" {
            // position along axis, shifted by a lane-dependent amount modulo dim → unique when is[ax] <= s[ax]
            let lane: usize = (0..r).filter(|&k| k != ax).map(|k| idx[k]).sum();
            ((idx[ax] + lane) % s[ax]) as i64
        } else {
            rng.range_i64(0, s[ax] as i64 - 1)
        };
        idata[lin] = if rng.chance(1, 3) { v - s[ax] as i64 } else { v };
        if rng.chance(1, 200) {
            idata[lin] = rng.range_i64(-(s[ax] as i64) - 2, s[ax] as i64 + 1);
        }
    }
    let x = rand_tensor(rng, s, -4, 4);
    let dty = x.dtype;
    c.push(x);
    c.push(TIn { dtype: int_dtype(rng), shape: is.clone(), data: idata, via: param_via(rng) });
    let mut u = rand_tensor(rng, is, -4, 4);
    u.dtype = dty;
    c.push(u);
    if ax != 0 || rng.chance(1, 2) {
        c.attr_i("axis", neg_form(rng, ax, r));
    }
    if !red.is_empty() {
        c.attr_s("reduction", red);
    }
    c
}

fn gen_scatter_nd(rng: &mut Rng) -> Case {
    let mut c = Case::new("ScatterND");
    let s = rand_shape_pos(rng, 1, 3);
    let r = s.len();
    let k = 1 + rng.usize_below(r);
    let red = *rng.pick(&["", "none", "add", "mul", "min", "max"]);
    let outer = rand_shape(rng, 0, 2);
    let no = numel(&outer);
    let total: usize = s[..k].iter().product();
    let mut idata = vec![];
    // unique tuples for reduction none: choose distinct linear prefixes
    let mut lin: Vec<usize> = (0..total).collect();
    rng.shuffle(&mut lin);
    for t in 0..no {
        let l = if (red.is_empty() || red == "none") && t < total { lin[t] } else { rng.usize_below(total) };
        let mut rem = l;
        let mut tup = vec![0i64; k];
        for j in (0..k).rev() {
            tup[j] = (rem % s[j]) as i64;
            rem /= s[j];
        }
        for j in 0..k {
            let mut v = tup[j];
            if rng.chance(1, 4) {
                v -= s[j] as i64;
            }
            if rng.chance(1, 200) {
                v = rng.range_i64(-(s[j] as i64) - 2, s[j] as i64 + 1);
            }
            idata.push(v);
        }
    }
    let mut is = outer.clone();
    is.push(k);
    let mut us = outer.clone();
    us.extend(&s[k..]);
    let x = rand_tensor(rng, s, -4, 4);
    let dty = x.dtype;
    c.push(x);
    c.push(TIn { dtype: dt::INT64, shape: is, data: idata, via: param_via(rng) });
    let mut u = rand_tensor(rng, us, -4, 4);
    u.dtype = dty;
    c.push(u);
    if !red.is_empty() {
        c.attr_s("reduction", red);
    }
    c
}

fn gen_topk(rng: &mut Rng) -> Case {
    let mut c = Case::new("TopK");
    c.nout = 2;
    let s = rand_shape(rng, 1, 3);
    let r = s.len();
    let ax = rng.usize_below(r);
    let k = if rng.chance(1, 30) { s[ax] as i64 + 1 } else { rng.range_i64(0, s[ax] as i64) };
    c.push(rand_tensor(rng, s, -3, 3));
    let mut kp = vec_param(rng, vec![k]);
    if rng.chance(1, 6) {
        kp.via = Via::AttrInt("k");
        c.opset = 1;
    }
    c.push(kp);
    if ax != r - 1 || rng.chance(1, 2) {
        c.attr_i("axis", neg_form(rng, ax, r));
    }
    if rng.chance(2, 3) && c.opset > 1 {
        c.attr_i("largest", rng.range_i64(0, 1));
    }
    if rng.chance(1, 3) && c.opset > 1 {
        c.attr_i("sorted", 1);
    }
    c
}

fn gen_depth_to_space(rng: &mut Rng) -> Case {
    let mut c = Case::new("DepthToSpace");
    let b = rng.range_i64(1, 3) as usize;
    let cp = 1 + rng.usize_below(2);
    let mut ch = cp * b * b;
    if rng.chance(1, 30) {
        ch += 1;
    }
    let s = vec![rand_dim_pos(rng).min(2), ch, rand_dim_pos(rng).min(3), rand_dim_pos(rng).min(3)];
    c.push(rand_tensor(rng, s, -9, 9));
    c.attr_i("blocksize", b as i64);
    match rng.below(3) {
        0 => {}
        1 => c.attr_s("mode", "DCR"),
        _ => c.attr_s("mode", "CRD"),
    }
    c
}

fn gen_shape_size(rng: &mut Rng) -> Case {
    let op = *rng.pick(&["Shape", "Shape", "Size", "NonZero", "EyeLike"]);
    let mut c = Case::new(op);
    let s = match op {
        "EyeLike" => rand_shape(rng, 2, 2),
        "NonZero" => rand_shape(rng, 1, 4),
        _ => rand_shape(rng, 0, 4),
    };
    let r = s.len() as i64;
    c.push(rand_tensor(rng, s, -1, 1));
    if op == "Shape" {
        if rng.chance(1, 2) {
            c.attr_i("start", rng.range_i64(-r - 2, r + 2));
        }
        if rng.chance(1, 2) {
            c.attr_i("end", rng.range_i64(-r - 2, r + 2));
        }
    }
    if op == "EyeLike" {
        if rng.chance(2, 3) {
            c.attr_i("k", rng.range_i64(-4, 4));
        }
        c.attr_i("dtype", 6);
    }
    c
}

fn gen_constant_of_shape(rng: &mut Rng) -> Case {
    let mut c = Case::new("ConstantOfShape");
    let s = rand_shape(rng, 0, 4);
    c.push(vec_param(rng, s.iter().map(|&d| d as i64).collect()));
    let v = rng.range_i64(-9, 9);
    let t = if rng.chance(1, 2) { Tensor::i32s("value", &[1], &[v as i32]) } else { Tensor::i64s("value", &[1], &[v]) };
    c.attrs.push(At { name: "value".into(), v: AV::T(t, v), to_model: true, to_onnx: true });
    c
}

fn float_tensor(rng: &mut Rng, shape: Vec<usize>, lo: i64, hi: i64) -> TIn {
    let n = numel(&shape);
    TIn { dtype: dt::FLOAT, data: rand_vals(rng, n, lo, hi), shape, via: data_via(rng) }
}

fn odd_size(rng: &mut Rng) -> usize {
    *rng.pick(&[1usize, 2, 3, 3, 4, 5, 5, 6, 7, 7, 9])
}

/// Random spatial geometry attributes shared by pooling and convolution.
fn spatial_attrs(rng: &mut Rng, c: &mut Case, nsp: usize, kernel: &[usize], allow_dil: bool) {
    if rng.chance(3, 4) {
        c.attr_is("strides", (0..nsp).map(|_| rng.range_i64(1, 3)).collect());
    }
    if allow_dil && rng.chance(1, 3) {
        c.attr_is("dilations", (0..nsp).map(|_| rng.range_i64(1, 2)).collect());
    }
    match rng.below(8) {
        0 => c.attr_s("auto_pad", "SAME_UPPER"),
        1 => c.attr_s("auto_pad", "SAME_LOWER"),
        2 => c.attr_s("auto_pad", "VALID"),
        3 => {
            if rng.chance(1, 2) {
                c.attr_s("auto_pad", "NOTSET");
            }
        }
        _ => {
            // explicit, mostly asymmetric pads below the kernel extent
            let mut pads = vec![0i64; 2 * nsp];
            for a in 0..nsp {
                let k = kernel[a] as i64;
                pads[a] = rng.range_i64(0, (k - 1).max(0).min(2));
                pads[nsp + a] = rng.range_i64(0, (k - 1).max(0).min(2));
            }
            c.attr_is("pads", pads);
        }
    }
}

fn gen_pool(rng: &mut Rng) -> Case {
    let op = *rng.pick(&["MaxPool", "MaxPool", "AveragePool", "AveragePool", "GlobalMaxPool", "GlobalAveragePool"]);
    let mut c = Case::new(op);
    let nsp = 1 + rng.usize_below(2);
    let mut shape = vec![1 + rng.usize_below(2), *rng.pick(&[1usize, 2, 3, 5])];
    for _ in 0..nsp {
        shape.push(odd_size(rng));
    }
    let global = op.starts_with("Global");
    if global {
        let cnt: usize = shape[2..].iter().product();
        c.fscale = Some(if op == "GlobalAveragePool" { cnt as i64 } else { 1 });
        if op == "GlobalAveragePool" {
            c.model_only_i("scale", cnt as i64);
        }
        c.push(float_tensor(rng, shape, -9, 9));
        return c;
    }
    let kernel: Vec<usize> = (0..nsp).map(|_| 1 + rng.usize_below(3)).collect();
    c.attr_is("kernel_shape", kernel.iter().map(|&k| k as i64).collect());
    spatial_attrs(rng, &mut c, nsp, &kernel, op == "MaxPool");
    if rng.chance(2, 3) {
        c.attr_i("ceil_mode", rng.range_i64(0, 1));
    }
    if op == "AveragePool" {
        if rng.chance(2, 3) {
            c.attr_i("count_include_pad", rng.range_i64(0, 1));
        }
        // 2520 = lcm(1..9): every possible divisor of a window of at most 3x3 elements
        c.fscale = Some(2520);
        c.model_only_i("scale", 2520);
    } else {
        c.fscale = Some(1);
    }
    c.push(float_tensor(rng, shape, -9, 9));
    c
}

fn gen_conv(rng: &mut Rng) -> Case {
    let mut c = Case::new("Conv");
    c.fscale = Some(1);
    let nsp = 1 + rng.usize_below(2);
    let group = *rng.pick(&[1usize, 1, 2, 3]);
    let cg = 1 + rng.usize_below(2);
    let mg = 1 + rng.usize_below(2);
    let mut xs = vec![1 + rng.usize_below(2), cg * group];
    let mut ws = vec![mg * group, cg];
    let mut kernel = vec![];
    for _ in 0..nsp {
        xs.push(odd_size(rng));
        let k = 1 + rng.usize_below(3);
        kernel.push(k);
        ws.push(k);
    }
    if rng.chance(7, 8) {
        c.attr_is("kernel_shape", kernel.iter().map(|&k| k as i64).collect());
    }
    spatial_attrs(rng, &mut c, nsp, &kernel, true);
    if group != 1 || rng.chance(1, 3) {
        c.attr_i("group", group as i64);
    }
    c.push(float_tensor(rng, xs, -4, 4));
    let mut w = float_tensor(rng, ws, -3, 3);
    w.via = param_via(rng);
    c.push(w);
    if rng.chance(1, 2) {
        let mut b = float_tensor(rng, vec![mg * group], -9, 9);
        b.via = param_via(rng);
        c.push(b);
    }
    c
}

type Gen = fn(&mut Rng) -> Case;

const GENS: &[(&str, Gen, u64)] = &[
    ("binary", gen_binary, 14),
    ("unary", gen_unary, 3),
    ("variadic", gen_variadic, 3),
    ("where", gen_where, 3),
    ("clip", gen_clip, 2),
    ("cast", gen_cast, 2),
    ("reshape", gen_reshape, 5),
    ("flatten", gen_flatten, 2),
    ("squeeze", gen_squeeze, 3),
    ("unsqueeze", gen_unsqueeze, 3),
    ("transpose", gen_transpose, 4),
    ("expand", gen_expand, 3),
    ("tile", gen_tile, 3),
    ("slice", gen_slice, 10),
    ("concat", gen_concat, 4),
    ("split", gen_split, 5),
    ("gather", gen_gather, 5),
    ("gather_elements", gen_gather_elements, 4),
    ("gather_nd", gen_gather_nd, 4),
    ("reduce", gen_reduce, 8),
    ("argreduce", gen_argreduce, 4),
    ("cumsum", gen_cumsum, 4),
    ("pad", gen_pad, 6),
    ("trilu", gen_trilu, 3),
    ("range", gen_range, 2),
    ("onehot", gen_onehot, 3),
    ("matmul", gen_matmul, 4),
    ("scatter_elements", gen_scatter_elements, 4),
    ("scatter_nd", gen_scatter_nd, 4),
    ("topk", gen_topk, 4),
    ("depth_to_space", gen_depth_to_space, 2),
    ("shape_size", gen_shape_size, 3),
    ("constant_of_shape", gen_constant_of_shape, 1),
    ("pool", gen_pool, 14),
    ("conv", gen_conv, 8),
];

// ---------------------------------------------------------------------------------------------
// Independent oracle on the implementation's output
// ---------------------------------------------------------------------------------------------

fn unravel(mut lin: usize, shape: &[usize]) -> Vec<usize> {
    let mut idx = vec![0; shape.len()];
    for k in (0..shape.len()).rev() {
        if shape[k] > 0 {
            idx[k] = lin % shape[k];
            lin /= shape[k];
        }
    }
    idx
}

fn ravel_b(idx: &[usize], shape: &[usize]) -> usize {
    // index of a broadcast operand (right aligned, size-1 dims pinned)
    let off = idx.len() - shape.len();
    let mut lin = 0;
    for k in 0..shape.len() {
        let i = if shape[k] == 1 { 0 } else { idx[off + k] };
        lin = lin * shape[k] + i;
    }
    lin
}

fn scalar_fn(op: &str, fmod: bool, x: i64, y: i64) -> Option<i64> {
    Some(match op {
        "Add" | "Sum" => x + y,
        "Sub" => x - y,
        "Mul" => x * y,
        "Div" => {
            if y == 0 {
                return None;
            }
            x / y
        }
        "Mod" => {
            if y == 0 {
                return None;
            }
            if fmod {
                x % y
            } else {
                ((x % y) + y) % y
            }
        }
        "Equal" => (x == y) as i64,
        "Less" => (x < y) as i64,
        "LessOrEqual" => (x <= y) as i64,
        "Greater" => (x > y) as i64,
        "GreaterOrEqual" => (x >= y) as i64,
        "And" => (x != 0 && y != 0) as i64,
        "Or" => (x != 0 || y != 0) as i64,
        "Xor" => ((x != 0) != (y != 0)) as i64,
        "Min" => x.min(y),
        "Max" => x.max(y),
        "Pow" => {
            if y < 0 {
                return None;
            }
            x.pow(y as u32)
        }
        _ => return None,
    })
}

/// Independent evaluation of ONNX Slice (specification text: negative indices count from the end, clamping
/// into [0,dim] / [0,dim-1] resp. [-1,dim-1], length = ceil). `None` = input outside the compared domain
/// (invalid or ambiguous), `Some(None)` = output agrees, `Some(Some(msg))` = it does not.
fn slice_oracle(c: &Case, oshape: &[usize], odata: &[i64]) -> Option<Option<String>> {
    let x = c.inputs.first()?.as_ref()?;
    let starts = &c.inputs.get(1)?.as_ref()?.data;
    let ends = &c.inputs.get(2)?.as_ref()?.data;
    let r = x.shape.len();
    let n = starts.len();
    if ends.len() != n {
        return None;
    }
    let axes: Vec<usize> = match c.inputs.get(3).and_then(|a| a.as_ref()) {
        Some(a) => {
            if a.data.len() != n {
                return None;
            }
            let mut v = vec![];
            for &ax in &a.data {
                let k = if ax < 0 { ax + r as i64 } else { ax };
                if k < 0 || k >= r as i64 || v.contains(&(k as usize)) {
                    return None;
                }
                v.push(k as usize);
            }
            v
        }
        None => {
            if n != r {
                return None;
            }
            (0..n).collect()
        }
    };
    let steps: Vec<i64> = match c.inputs.get(4).and_then(|a| a.as_ref()) {
        Some(a) => a.data.clone(),
        None => vec![1; n],
    };
    if steps.len() != n || steps.iter().any(|&s| s == 0) {
        return None;
    }
    // (start, step, len) per input axis, in i128 to stay clear of overflow with INT64 extremes
    let mut per: Vec<(i128, i128, usize)> = x.shape.iter().map(|&d| (0, 1, d)).collect();
    for j in 0..n {
        let d = x.shape[axes[j]] as i128;
        let (st, en, sp) = (starts[j] as i128, ends[j] as i128, steps[j] as i128);
        let ns = if st < 0 { st + d } else { st };
        let ne = if en < 0 { en + d } else { en };
        if d == 0 {
            per[axes[j]] = (0, sp, 0);
        } else if sp > 0 {
            let (s, e) = (ns.clamp(0, d), ne.clamp(0, d));
            per[axes[j]] = (s, sp, ((e - s + sp - 1).div_euclid(sp)).max(0) as usize);
        } else {
            if st + d < 0 && ne < 0 {
                return None; // text vs numpy ambiguity
            }
            let (s, e) = (ns.clamp(0, d - 1), ne.clamp(-1, d - 1));
            per[axes[j]] = (s, sp, ((s - e + (-sp) - 1).div_euclid(-sp)).max(0) as usize);
        }
    }
    let want_shape: Vec<usize> = per.iter().map(|p| p.2).collect();
    if oshape != want_shape.as_slice() {
        return Some(Some(format!("Slice output shape {oshape:?}, ONNX gives {want_shape:?}")));
    }
    let xs: Vec<usize> = (0..r).map(|k| x.shape[k + 1..].iter().product()).collect();
    for lin in 0..odata.len() {
        let idx = unravel(lin, &want_shape);
        let off: usize = (0..r).map(|k| ((per[k].0 + idx[k] as i128 * per[k].1) as usize) * xs[k]).sum();
        if x.data[off] != odata[lin] {
            return Some(Some(format!("Slice element {idx:?} is {} but the selected input element is {}", odata[lin], x.data[off])));
        }
    }
    Some(None)
}

type OutT = (char, Vec<usize>, Vec<i64>);

fn oracle(c: &Case, outs: &[OutT]) -> Option<String> {
    for (k, (ty, shape, data)) in outs.iter().enumerate() {
        if *ty == 'x' {
            return Some(format!("float output {k} times the common denominator is not an integer: not an exact sum/count quotient"));
        }
        if *ty != 'i' {
            return Some(format!("output {k} has element type {ty}, expected int32"));
        }
        if data.len() != numel(shape) {
            return Some(format!("output {k}: {} elements for shape {:?}", data.len(), shape));
        }
    }
    if outs.len() != c.nout {
        return Some(format!("{} outputs, expected {}", outs.len(), c.nout));
    }
    let ins: Vec<&TIn> = c.inputs.iter().flatten().collect();
    let (_, oshape, odata) = &outs[0];
    if c.op == "GatherElements" {
        let x = ins[0];
        let r = x.shape.len();
        let a = c.get_i("axis").unwrap_or(0);
        let ax = if a < 0 { a + r as i64 } else { a };
        if ax >= 0 && (ax as usize) < r && x.shape[ax as usize] == 0 && !odata.is_empty() {
            return Some("returned elements for indices into an empty axis (no valid index exists; uninitialized output)".into());
        }
    }
    match c.op {
        "Add" | "Sub" | "Mul" | "Div" | "Mod" | "Equal" | "Less" | "LessOrEqual" | "Greater" | "GreaterOrEqual" | "And" | "Or" | "Xor" | "Pow"
        | "Min" | "Max" | "Sum" => {
            let fmod = c.get_i("fmod").unwrap_or(0) != 0;
            let rank = ins.iter().map(|t| t.shape.len()).max().unwrap_or(0);
            if oshape.len() != rank {
                return Some(format!("output rank {} but broadcast rank {}", oshape.len(), rank));
            }
            for lin in 0..odata.len() {
                let idx = unravel(lin, oshape);
                let mut acc = ins[0].data[ravel_b(&idx, &ins[0].shape)];
                for t in &ins[1..] {
                    match scalar_fn(c.op, fmod, acc, t.data[ravel_b(&idx, &t.shape)]) {
                        Some(v) => acc = v,
                        None => return None,
                    }
                }
                if acc != odata[lin] {
                    return Some(format!("element {idx:?} is {} but operands give {}", odata[lin], acc));
                }
            }
            None
        }
        "Reshape" | "Flatten" | "Squeeze" | "Unsqueeze" | "Identity" => {
            if *odata != ins[0].data.iter().map(|&v| sat32(v) as i64).collect::<Vec<_>>() {
                return Some("shape-only operator changed the element sequence".into());
            }
            None
        }
        "Slice" if slice_oracle(c, oshape, odata).is_some() => slice_oracle(c, oshape, odata).unwrap(),
        "Slice" | "Gather" | "GatherElements" | "GatherND" | "Transpose" | "Expand" | "Tile" | "Concat" | "Split" | "DepthToSpace" => {
            let mut pool: Vec<i64> = ins.iter().filter(|t| t.dtype != dt::INT64 || true).flat_map(|t| t.data.iter().cloned()).collect();
            if matches!(c.op, "Slice" | "Gather" | "GatherElements" | "GatherND" | "Expand" | "Tile" | "Split") {
                pool = ins[0].data.clone();
            }
            for (_, _, d) in outs {
                for v in d {
                    if !pool.contains(v) {
                        return Some(format!("output element {v} does not occur in the input"));
                    }
                }
            }
            if matches!(c.op, "Transpose" | "DepthToSpace") {
                let mut a = odata.clone();
                let mut b = ins[0].data.clone();
                a.sort();
                b.sort();
                if a != b {
                    return Some("output is not a permutation of the input".into());
                }
            }
            if c.op == "Concat" || c.op == "Split" {
                let mut a: Vec<i64> = outs.iter().flat_map(|o| o.2.iter().cloned()).collect();
                let mut b: Vec<i64> = if c.op == "Concat" { ins.iter().flat_map(|t| t.data.iter().cloned()).collect() } else { ins[0].data.clone() };
                a.sort();
                b.sort();
                if a != b {
                    return Some("outputs are not a rearrangement of the inputs".into());
                }
            }
            None
        }
        "ReduceSum" | "ReduceProd" | "ReduceMin" | "ReduceMax" => {
            // when every axis is reduced the single result is the fold of all elements
            let x = ins[0];
            let all = c.inputs.len() < 2 || c.inputs[1].as_ref().map(|t| t.data.len() == x.shape.len() && {
                let mut a: Vec<i64> = t.data.iter().map(|&v| if v < 0 { v + x.shape.len() as i64 } else { v }).collect();
                a.sort();
                a.dedup();
                a.len() == x.shape.len() && a.iter().all(|&v| v >= 0 && (v as usize) < x.shape.len())
            }) == Some(true);
            let noop = c.get_i("noop_with_empty_axes").unwrap_or(0) != 0 && c.inputs.len() < 2;
            if all && !noop && !x.data.is_empty() && odata.len() == 1 {
                let want = match c.op {
                    "ReduceSum" => x.data.iter().sum::<i64>(),
                    "ReduceProd" => x.data.iter().product::<i64>(),
                    "ReduceMin" => *x.data.iter().min().unwrap(),
                    _ => *x.data.iter().max().unwrap(),
                };
                if odata[0] != want {
                    return Some(format!("full reduction gives {} but the fold of all elements is {}", odata[0], want));
                }
            }
            None
        }
        "TopK" => {
            if outs.len() != 2 {
                return None;
            }
            let x = ins[0];
            let r = x.shape.len();
            let ax = {
                let a = c.get_i("axis").unwrap_or(-1);
                (if a < 0 { a + r as i64 } else { a }) as usize
            };
            let largest = c.get_i("largest").unwrap_or(1) != 0;
            let (_, ishape, idata) = &outs[1];
            if ishape != oshape {
                return Some("values and indices differ in shape".into());
            }
            let xs: Vec<usize> = (0..r).map(|k| x.shape[k + 1..].iter().product()).collect();
            for lin in 0..odata.len() {
                let mut idx = unravel(lin, oshape);
                let pos = idx[ax];
                let j = idata[lin];
                if j < 0 || j as usize >= x.shape[ax] {
                    return Some(format!("index {j} out of range"));
                }
                idx[ax] = j as usize;
                let xl: usize = (0..r).map(|k| idx[k] * xs[k]).sum();
                if x.data[xl] != odata[lin] {
                    return Some("values[i] != x[indices[i]]".into());
                }
                if pos > 0 {
                    let os: Vec<usize> = (0..r).map(|k| oshape[k + 1..].iter().product()).collect();
                    let prev = lin - os[ax];
                    let (pv, pj) = (odata[prev], idata[prev]);
                    let ordered = if largest { pv > odata[lin] } else { pv < odata[lin] } || (pv == odata[lin] && pj < j);
                    if !ordered {
                        return Some(format!("lane not ordered at position {pos}: ({pv},{pj}) then ({},{j})", odata[lin]));
                    }
                }
            }
            None
        }
        "ArgMax" | "ArgMin" => {
            let x = ins[0];
            let r = x.shape.len();
            let a = c.get_i("axis").unwrap_or(0);
            let ax = (if a < 0 { a + r as i64 } else { a }) as usize;
            if ax >= r {
                return None;
            }
            let keep = c.get_i("keepdims").unwrap_or(1) != 0;
            let xs: Vec<usize> = (0..r).map(|k| x.shape[k + 1..].iter().product()).collect();
            let mut kshape = x.shape.clone();
            kshape[ax] = 1;
            let want_shape: Vec<usize> = if keep { kshape.clone() } else { (0..r).filter(|&k| k != ax).map(|k| x.shape[k]).collect() };
            if *oshape != want_shape {
                return Some(format!("shape {oshape:?}, expected {want_shape:?}"));
            }
            for lin in 0..odata.len() {
                let mut idx = unravel(lin, &kshape);
                let j = odata[lin];
                if j < 0 || j as usize >= x.shape[ax] {
                    return Some(format!("index {j} out of range"));
                }
                idx[ax] = j as usize;
                let chosen = x.data[(0..r).map(|k| idx[k] * xs[k]).sum::<usize>()];
                for jj in 0..x.shape[ax] {
                    idx[ax] = jj;
                    let v = x.data[(0..r).map(|k| idx[k] * xs[k]).sum::<usize>()];
                    let better = if c.op == "ArgMax" { v > chosen } else { v < chosen };
                    if better || (v == chosen && (jj as i64) < j && c.get_i("select_last_index").unwrap_or(0) == 0) {
                        return Some(format!("index {j} (value {chosen}) is not the first extreme: position {jj} holds {v}"));
                    }
                }
            }
            None
        }
        "Cast" => {
            let to = c.get_i("to").unwrap_or(0);
            for (k, &v) in ins[0].data.iter().enumerate() {
                let want = if to == 9 { (v != 0) as i64 } else { v };
                if odata.get(k) != Some(&want) {
                    return Some(format!("Cast to={to} of {v} gives {:?}, expected {want} (bool is 0/1)", odata.get(k)));
                }
            }
            None
        }
        "ScatterElements" => {
            let (x, ind, upd) = (ins[0], ins[1], ins[2]);
            let r = x.shape.len();
            let a = c.get_i("axis").unwrap_or(0);
            let ax = (if a < 0 { a + r as i64 } else { a }) as usize;
            let red = c.get_s("reduction").unwrap_or("none".into());
            let xs: Vec<usize> = (0..r).map(|k| x.shape[k + 1..].iter().product()).collect();
            let mut want = x.data.clone();
            let mut seen = std::collections::HashSet::new();
            for lin in 0..ind.data.len() {
                let mut idx = unravel(lin, &ind.shape);
                let d = x.shape[ax] as i64;
                let mut j = ind.data[lin];
                if j < 0 {
                    j += d;
                }
                if j < 0 || j >= d || (0..r).any(|k| k != ax && idx[k] >= x.shape[k]) {
                    return None;
                }
                idx[ax] = j as usize;
                let off: usize = (0..r).map(|k| idx[k] * xs[k]).sum();
                if red == "none" && !seen.insert(off) {
                    return None;
                }
                let u = upd.data[lin];
                want[off] = match red.as_str() {
                    "add" => want[off] + u,
                    "mul" => want[off] * u,
                    "min" => want[off].min(u),
                    "max" => want[off].max(u),
                    _ => u,
                };
            }
            if *odata != want {
                return Some(format!("differs from the sequential scatter {}", hcommon::join(want.iter(), ",")));
            }
            None
        }
        "MaxPool" | "AveragePool" => {
            // output extent per the ONNX formula (explicit padding only)
            let ints = |name: &str| -> Option<Vec<i64>> {
                c.attrs.iter().find(|a| a.name == name).and_then(|a| match &a.v {
                    AV::Is(v) => Some(v.clone()),
                    _ => None,
                })
            };
            let auto = c.get_s("auto_pad").unwrap_or("NOTSET".into());
            if auto != "NOTSET" {
                return None;
            }
            let x = ins[0];
            let nsp = x.shape.len() - 2;
            let kernel = ints("kernel_shape")?;
            let strides = ints("strides").unwrap_or(vec![1; nsp]);
            let dils = ints("dilations").unwrap_or(vec![1; nsp]);
            let pads = ints("pads").unwrap_or(vec![0; 2 * nsp]);
            let ceil = c.get_i("ceil_mode").unwrap_or(0) != 0;
            let mut want = x.shape[..2].to_vec();
            for a in 0..nsp {
                let eff = (kernel[a] - 1) * dils[a] + 1;
                let padded = x.shape[2 + a] as i64 + pads[a] + pads[nsp + a];
                if padded < eff || pads[a] >= eff || pads[nsp + a] >= eff {
                    return None;
                }
                let w = padded - eff;
                let mut o = if ceil { (w + strides[a] - 1) / strides[a] + 1 } else { w / strides[a] + 1 };
                // windows that would start in the end padding are ignored
                if ceil && (o - 1) * strides[a] >= x.shape[2 + a] as i64 + pads[a] {
                    o -= 1;
                }
                want.push(o as usize);
            }
            if *oshape != want {
                return Some(format!("output shape {oshape:?} but the ONNX pooling formula gives {want:?}"));
            }
            None
        }
        "CumSum" => {
            let x = ins[0];
            if *oshape != x.shape {
                return Some("CumSum changed the shape".into());
            }
            None
        }
        _ => None,
    }
}

// ---------------------------------------------------------------------------------------------

fn show_out(outs: &[OutT]) -> String {
    outs.iter()
        .map(|(ty, s, d)| format!("{ty}:{}:{}", hcommon::join(s.iter(), ","), hcommon::join(d.iter(), ",")))
        .collect::<Vec<_>>()
        .join(" ")
}

static PANIC_LOC: std::sync::Mutex<String> = std::sync::Mutex::new(String::new());

fn do_case(out: &mut Out, dbg: &mut Option<std::fs::File>, fam: &str, c: &Case) {
    use std::io::Write;
    let req = c.request();
    let mut ran_in_place = None;
    let res = hcommon::catch(|| run_case(c, &mut ran_in_place));
    if c.owned {
        out.bucket("owned_variant");
        match ran_in_place {
            Some(true) => {
                out.bucket("owned_variant_ran_in_place");
                out.bucket(&format!("in_place:{}", c.op));
            }
            Some(false) => out.bucket("owned_variant_not_in_place"),
            None => out.bucket("owned_variant_no_run"),
        }
    }
    if let Some(f) = dbg {
        let m = match &res {
            Ok(Ok(_)) => "ok".to_string(),
            Ok(Err(e)) => e.replace('\n', " "),
            Err(m) => format!("panic: {m} @ {}", PANIC_LOC.lock().unwrap()),
        };
        writeln!(f, "{m}").unwrap();
    }
    out.bucket(&format!("op:{}", c.op));
    out.bucket(&format!("family:{fam}"));
    for t in c.inputs.iter().flatten() {
        match t.via {
            Via::Attr(_) | Via::AttrInt(_) => out.bucket("param_as_attribute"),
            Via::Init => out.bucket("input_as_initializer"),
            Via::Run => out.bucket("input_at_runtime"),
        }
        if numel(&t.shape) == 0 {
            out.bucket("zero_sized_input");
        }
    }
    match res {
        Ok(Ok(outs)) => {
            let fail = oracle(c, &outs);
            out.bucket("impl_ok");
            let nontrivial = outs.iter().any(|o| o.2.len() > 1);
            out.case(&req, &show_out(&outs), fail.as_deref(), nontrivial);
        }
        Ok(Err(e)) => {
            if e.contains("unsupported") || e.contains("unavailable") || e.contains("expected tensor with type") {
                // attribute value / operator rten documents as unsupported: outside the property
                out.bucket("impl_unsupported");
                out.bucket(&format!("unsupported:{}", c.op));
                out.case(&format!("# unsupported {req} :: {e}"), "err", None, false);
            } else {
                out.bucket("impl_err");
                out.bucket(&format!("err:{}", c.op));
                // the error text travels in an `@err=` annotation of the request line (ignored by the
                // reference driver) so that known findings can pin the specific failure
                let core = e.rsplit("failed: ").next().unwrap_or(&e);
                let core = core.split(". Inputs were").next().unwrap_or(core);
                let slug: String = core.chars().map(|ch| if ch.is_ascii_alphanumeric() { ch } else { '_' }).take(100).collect();
                out.case(&format!("{req} @err={slug}"), "err", None, true);
            }
        }
        Err(m) => {
            out.bucket("impl_panic");
            out.case(&req, "panic", Some(&format!("panicked: {m}")), true);
        }
    }
}

/// Assumption check: the reference answers `skip` where the specification is ambiguous; a generator
/// that mostly lands there silently tests nothing. The compiled reference (`model_C15`, built by
/// bin/check before the harness runs) is asked for every generated request; per operator the numbers of
/// cases / skipped / reference-error answers go to stats.json (`cases:<Op>`, `ref_skip:<Op>`,
/// `ref_err:<Op>`) and an operator with more than 50 % skipped cases is reported as a failed assumption.
fn skip_rates(out: &mut Out, dir: &str, reqs: &[(&'static str, String)]) {
    use std::io::Write;
    let verif = std::env::var("VERIF_DIR").unwrap_or_else(|_| "/verif".into());
    let exe = format!("{verif}/lean/.lake/build/bin/model_C15");
    if !std::path::Path::new(&exe).exists() {
        out.note("skip rates unavailable: model_C15 not built");
        return;
    }
    let tmp = format!("{dir}/skipcheck_req.txt");
    {
        let mut f = std::io::BufWriter::new(std::fs::File::create(&tmp).unwrap());
        for (_, r) in reqs {
            writeln!(f, "{r}").unwrap();
        }
    }
    let res = std::process::Command::new(&exe).stdin(std::fs::File::open(&tmp).unwrap()).output();
    let _ = std::fs::remove_file(&tmp);
    let Ok(res) = res else {
        out.note("skip rates unavailable: model_C15 could not be run");
        return;
    };
    let text = String::from_utf8_lossy(&res.stdout);
    let answers: Vec<&str> = text.lines().collect();
    if answers.len() != reqs.len() {
        out.note("skip rates unavailable: model_C15 answered a different number of lines");
        return;
    }
    let mut per: std::collections::BTreeMap<&str, (u64, u64, u64)> = Default::default();
    for ((op, _), a) in reqs.iter().zip(&answers) {
        let e = per.entry(op).or_insert((0, 0, 0));
        e.0 += 1;
        if *a == "skip" {
            e.1 += 1;
        } else if *a == "err" {
            e.2 += 1;
        }
    }
    for (op, (n, sk, er)) in &per {
        for _ in 0..*sk {
            out.bucket(&format!("ref_skip:{op}"));
        }
        for _ in 0..*er {
            out.bucket(&format!("ref_err:{op}"));
        }
        out.note(&format!("{op}: {n} cases, {sk} skipped by the reference ({:.1}%), {er} reference errors", 100.0 * *sk as f64 / *n as f64));
        if *sk * 2 > *n {
            out.case(
                &format!("# assumption skip-rate {op}"),
                "skip",
                Some(&format!("assumption violated: {sk} of {n} generated {op} cases are answered `skip` by the reference (> 50 %): the operator is effectively untested")),
                false,
            );
        }
    }
}

fn main() {
    let args = hcommon::parse_args();
    hcommon::quiet_panics();
    let mut out = Out::new(&args.out);
    let mut rng = Rng::new(args.seed);
    // C15_DEBUG=1: also write dbg.txt (one line per case: the raw error / panic message)
    if std::env::var_os("C15_DEBUG").is_some() {
        std::panic::set_hook(Box::new(|info| {
            if let Some(l) = info.location() {
                *PANIC_LOC.lock().unwrap() = format!("{}:{}", l.file(), l.line());
            }
        }));
    }
    let mut dbg = std::env::var_os("C15_DEBUG").map(|_| std::fs::File::create(format!("{}/dbg.txt", args.out)).unwrap());
    let total: u64 = GENS.iter().map(|g| g.2).sum();
    let n_cases = if args.thorough { 250_000 } else { 25_000 };
    let mut all_reqs: Vec<(&'static str, String)> = Vec::with_capacity(n_cases);
    for _ in 0..n_cases {
        let mut pickv = rng.below(total);
        let mut chosen = &GENS[0];
        for g in GENS {
            if pickv < g.2 {
                chosen = g;
                break;
            }
            pickv -= g.2;
        }
        let mut c = (chosen.1)(&mut rng);
        c.optimize = rng.chance(3, 4);
        all_reqs.push((c.op, c.request()));
        do_case(&mut out, &mut dbg, chosen.0, &c);
        // the same case with every tensor input produced by an executor-owned intermediate
        if c.inputs.iter().flatten().any(|t| matches!(t.via, Via::Run | Via::Init)) {
            c.owned = true;
            c.own_kind = rng.below(2) as u8;
            c.optimize = rng.chance(1, 2);
            all_reqs.push((c.op, c.request()));
            do_case(&mut out, &mut dbg, chosen.0, &c);
        }
    }
    skip_rates(&mut out, &args.out, &all_reqs);
    out.note("single-operator ONNX models through ModelOptions::with_all_ops().load + Model::run; integer/bool operators only");
    out.finish("rten output (shape, int32 representation, elements) == Lean ONNX reference; independent structural oracle per operator family");
}
