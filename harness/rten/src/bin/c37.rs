//! C37: 4-bit block-quantized matmul vs dequantize-then-multiply.
//!
//! Exact part (compared line by line with the Lean model `model_C37`): inputs are chosen so that
//! every f32 operation is exact whatever the summation order (integer LHS `v·2^e`, |v| ≤ 127,
//! scales in {0,±0.5,±1,±2,±4}, K ≤ 512: every partial sum is a multiple of 0.5 below 2^23), and
//! – for the Int8 mode – so that the blockwise LHS quantisation is exact (every block has
//! absmax = 127·2^e).
//!
//! `bq mode=<float|int8|gemm> isa=<api|generic|avx2|avx512|avx512-vnni> bs= batch= m= n= nb= lhs= q= sc2=`
//!   * `float`/`int8`: `BlockQuantizedGemm` (isa=api → public `batched_gemm_uninit`, which dispatches
//!     to the best ISA and uses Int8 only when m = 1; other isa → the `VecDotMatrix(Quant)` kernel
//!     evaluated with that ISA through `rten_gemm::verif::block_quant`);
//!   * `gemm`: `GemmExecutor::<f32>` with `GemmInputB::BlockQuantized` (MatMulNBits path for rows > 1);
//!   * `lhs` = batch·m·K integers, `q` = n·nb·(bs/2) bytes, `sc2` = 2·scale (n·nb integers), all RLE.
//!   Answer: 2·out as integers (RLE), `err:<class>` or `panic`.
//! `bqerr bits= bb= nb= n= k= out= m= batch=`: argument checks of `BlockQuantizedMatrix::new` and
//!   `batched_gemm_uninit` (`ok` or `err:<class>`), incl. K that is not a whole number of blocks.
//! `bqscales bb= nb= n= sn= snb=`: scales tensor whose shape does not match the quantized data.
//! `sidx mode= isa= bs= nb=`: scale index the real kernel uses for every element position (one-hot LHS
//!   x all-ones weights with scale 2^b for block b), per ISA hook; compared with the Lean transcription
//!   of the kernel's index arithmetic (`scaleIdxFloat` / `scaleIdxInt8`) and with k / bs (PROPFAIL).
//! `hot … col= kb= byte= nib= q=`: one-hot weight probe of the nibble order / [N, k_blocks, bs/2] layout.
//! `qrow bs= x=`: `quantize` (LHS blockwise int8 quantisation, via `verif::quantize_row`) on exactly
//!   representable rows, compared with the Lean `quantizeExact`; `# qrowr` (oracle-only): on random reals the
//!   NearestQ law |q·scale − x| ≤ (1+4e-5)·scale/2 and |q| ≤ 127.
//! `# tol …` lines (not compared with the model): random real-valued data, PROPFAIL only if the
//!   result differs from dequantize + naive f64 by more than `1e-4·Σ|a_k·w_k| + 1e-6` (Float, gemm)
//!   plus exactly the bound of theorem `c37_int8_error_bound`, `Σ_k (rs_{k/bs}/2)·|w_k|` with the row scales
//!   the real `quantize` produced, widened by (1+4e-5) for f32 (Int8).
//!
//! Independent oracle for `bq` lines: i64 dequantize-then-multiply (PROPFAIL on any difference).
use hcommon::{Args, Out, Rng};
use rten_gemm::verif::block_quant as hook;
use rten_gemm::{
    BlockQuantizedGemm, BlockQuantizedMatrix, ComputeMode, GemmExecutor, GemmInputA, GemmInputB, GemmOptions,
};
use rten_tensor::prelude::*;
use rten_tensor::{Contiguous, NdTensorView};
use std::mem::MaybeUninit;

fn rle<T: PartialEq + std::fmt::Display + Copy>(xs: &[T]) -> String {
    if xs.is_empty() {
        return "_".into();
    }
    let mut out = String::new();
    let mut i = 0;
    while i < xs.len() {
        let mut j = i + 1;
        while j < xs.len() && xs[j] == xs[i] {
            j += 1;
        }
        if !out.is_empty() {
            out.push(',');
        }
        if j - i >= 3 {
            out += &format!("{}*{}", xs[i], j - i);
        } else {
            out += &hcommon::join(xs[i..j].iter(), ",");
        }
        i = j;
    }
    out
}

#[derive(Clone)]
struct Case {
    bs: usize,
    batch: usize,
    m: usize,
    n: usize,
    nb: usize,
    lhs: Vec<i32>, // batch*m*K
    q: Vec<u8>,    // n*nb*bs/2
    sc2: Vec<i32>, // n*nb, = 2*scale
    int8_exact: bool,
}

impl Case {
    fn k(&self) -> usize {
        self.nb * self.bs
    }
}

fn elem(c: &Case, col: usize, k: usize) -> i64 {
    let byte = c.q[col * c.nb * (c.bs / 2) + k / 2];
    (if k % 2 == 0 { byte & 0x0F } else { byte >> 4 }) as i64 - 8
}

/// 2·(dequantize-then-multiply), exact in i64.
fn oracle2(c: &Case) -> Vec<i64> {
    let k = c.k();
    let mut out = vec![0i64; c.batch * c.m * c.n];
    for r in 0..c.batch * c.m {
        for col in 0..c.n {
            let mut acc = 0i64;
            for ki in 0..k {
                acc += c.lhs[r * k + ki] as i64 * elem(c, col, ki) * c.sc2[col * c.nb + ki / c.bs] as i64;
            }
            out[r * c.n + col] = acc;
        }
    }
    out
}

fn to_int2(v: &[f32]) -> Result<Vec<i64>, String> {
    v.iter()
        .map(|&x| {
            let y = x as f64 * 2.0;
            if y.is_finite() && y.fract() == 0.0 {
                Ok(y as i64)
            } else {
                Err(format!("non-integral:{x}"))
            }
        })
        .collect()
}

fn with_matrix<T>(c: &Case, qf: &[u8], sf: &[f32], f: impl FnOnce(BlockQuantizedMatrix<f32>) -> T) -> T {
    let qv = NdTensorView::from_data([c.n, c.nb, c.bs / 2], qf);
    let sv = NdTensorView::from_data([c.n, c.nb], sf);
    let mat = BlockQuantizedMatrix::new(Contiguous::new(qv).unwrap(), Contiguous::new(sv).unwrap(), 4).unwrap();
    f(mat)
}

fn run_case(c: &Case, mode: &str, isa: &str, lhs_f: &[f32], sf: &[f32]) -> Result<Option<Vec<f32>>, String> {
    let k = c.k();
    let rows = c.batch * c.m;
    let mut out: Vec<MaybeUninit<f32>> = vec![MaybeUninit::new(f32::NAN); rows * c.n];
    let ok = with_matrix(c, &c.q, sf, |mat| -> Result<bool, String> {
        match (mode, isa) {
            ("gemm", _) => {
                let a = NdTensorView::from_data([rows, k], lhs_f);
                let g = GemmExecutor::<f32, f32, f32>::default();
                let mut o = vec![f32::NAN; rows * c.n];
                g.gemm(&mut o, GemmInputA::Unpacked(a), GemmInputB::BlockQuantized(mat), GemmOptions::default())
                    .map_err(|e| format!("{e:?}"))?;
                for (d, s) in out.iter_mut().zip(o) {
                    *d = MaybeUninit::new(s);
                }
                Ok(true)
            }
            (_, "api") => {
                let g = BlockQuantizedGemm::new().with_compute(if mode == "int8" { ComputeMode::Int8 } else { ComputeMode::Float });
                let l = NdTensorView::from_data([c.batch, c.m, k], lhs_f);
                g.batched_gemm_uninit(&mut out, l, mat).map_err(|e| format!("{e:?}"))?;
                Ok(true)
            }
            ("float", isa) => {
                for r in 0..rows {
                    if !hook::vec_dot_matrix_float(isa, &lhs_f[r * k..(r + 1) * k], mat, &mut out[r * c.n..(r + 1) * c.n]) {
                        return Ok(false);
                    }
                }
                Ok(true)
            }
            ("int8", isa) => {
                for r in 0..rows {
                    if !hook::vec_dot_matrix_int8(isa, &lhs_f[r * k..(r + 1) * k], mat, &mut out[r * c.n..(r + 1) * c.n]) {
                        return Ok(false);
                    }
                }
                Ok(true)
            }
            _ => Ok(false),
        }
    })?;
    if !ok {
        return Ok(None);
    }
    Ok(Some(out.iter().map(|x| unsafe { x.assume_init() }).collect()))
}

fn exact_case(out: &mut Out, c: &Case) {
    let want = oracle2(c);
    let lhs_f: Vec<f32> = c.lhs.iter().map(|&x| x as f32).collect();
    let sf: Vec<f32> = c.sc2.iter().map(|&x| x as f32 / 2.0).collect();
    let mut variants: Vec<(&str, &str)> = vec![("float", "api"), ("int8", "api"), ("gemm", "api")];
    if c.k() > 0 {
        // the kernels are only ever entered with K > 0 (K = 0 is handled by `batched_gemm_uninit`)
        for isa in hook::FLOAT_ISAS {
            variants.push(("float", isa));
        }
        for isa in rten_gemm::verif::INT8_DOT_ISAS {
            variants.push(("int8", isa));
        }
    }
    for (mode, isa) in variants {
        // Int8 mode promises exactness only when the LHS quantisation is exact
        let demand = mode != "int8" || c.int8_exact || (isa == "api" && c.m != 1);
        let req = format!(
            "bq mode={mode} isa={isa} bs={} batch={} m={} n={} nb={} lhs={} q={} sc2={}",
            c.bs,
            c.batch,
            c.m,
            c.n,
            c.nb,
            rle(&c.lhs),
            rle(&c.q),
            rle(&c.sc2)
        );
        let res = hcommon::catch(|| run_case(c, mode, isa, &lhs_f, &sf));
        let mut fail = None;
        let ans = match res {
            Ok(Ok(Some(v))) => match to_int2(&v) {
                Ok(iv) => {
                    if demand {
                        if let Some(p) = (0..iv.len()).find(|&i| iv[i] != want[i]) {
                            fail = Some(format!(
                                "mode={mode} isa={isa}: out[{}]={} but dequantize-then-multiply gives {} (exact-arithmetic inputs)",
                                p,
                                iv[p] as f64 / 2.0,
                                want[p] as f64 / 2.0
                            ));
                        }
                    }
                    rle(&iv)
                }
                Err(e) => {
                    if demand {
                        fail = Some(format!("mode={mode} isa={isa}: {e} on exact-arithmetic inputs"));
                        e
                    } else {
                        "inexact".to_string()
                    }
                }
            },
            Ok(Ok(None)) => continue, // ISA not available on this host
            Ok(Err(e)) => {
                fail = Some(format!("mode={mode} isa={isa}: error {e} for a well-formed request"));
                format!("err:{e}")
            }
            Err(m) => {
                fail = Some(format!("mode={mode} isa={isa}: panic {m}"));
                "panic".into()
            }
        };
        out.bucket(&format!("exact_{mode}_{isa}"));
        out.bucket(&format!("bs{}", c.bs));
        out.bucket(&format!("m{}", c.m.min(4)));
        out.case(&req, &ans, fail.as_deref(), c.k() > 0 && c.n > 0);
    }
}

fn gen_exact(rng: &mut Rng) -> Case {
    let bs = *rng.pick(&[16usize, 16, 32, 32, 64, 128, 256]);
    let max_nb = (512 / bs).max(1);
    let nb = if rng.chance(1, 25) { 0 } else { 1 + rng.usize_below(max_nb) };
    let n = match rng.below(6) {
        0 => 1,
        1 => 16 + rng.usize_below(3),
        2 => 31 + rng.usize_below(10),
        _ => 1 + rng.usize_below(12),
    };
    let m = *rng.pick(&[1usize, 1, 1, 1, 2, 3, 5, 9]);
    let batch = *rng.pick(&[1usize, 1, 1, 2, 3]);
    let k = nb * bs;
    let int8_exact = rng.chance(3, 4);
    let mut lhs = vec![0i32; batch * m * k];
    for blk in lhs.chunks_mut(bs.max(1)) {
        let e = rng.below(2) as i32;
        if int8_exact {
            if rng.chance(1, 12) {
                continue; // all-zero block (absmax = 0)
            }
            for x in blk.iter_mut() {
                *x = (rng.range_i64(-127, 127) as i32) << e;
                if rng.chance(1, 4) {
                    *x = 0;
                }
            }
            let p = rng.usize_below(blk.len());
            blk[p] = if rng.chance(1, 2) { 127 << e } else { -(127 << e) };
        } else {
            for x in blk.iter_mut() {
                *x = (rng.range_i64(-100, 100) as i32) << e;
            }
        }
    }
    let nbytes = n * nb * (bs / 2);
    let q: Vec<u8> = (0..nbytes)
        .map(|_| if rng.chance(1, 3) { *rng.pick(&[0x00u8, 0xFF, 0x88, 0x0F, 0xF0, 0x80, 0x08, 0x7F]) } else { rng.below(256) as u8 })
        .collect();
    let sc2: Vec<i32> = (0..n * nb).map(|_| *rng.pick(&[1i32, 2, 2, 4, 8, -2, -1, 0, 4])).collect();
    Case { bs, batch, m, n, nb, lhs, q, sc2, int8_exact }
}

fn err_case(out: &mut Out, bits: u8, bb: usize, nb: usize, n: usize, k: usize, out_len: usize, m: usize, batch: usize) {
    let req = format!("bqerr bits={bits} bb={bb} nb={nb} n={n} k={k} out={out_len} m={m} batch={batch}");
    let res = hcommon::catch(|| -> String {
        let qf = vec![0x88u8; n * nb * bb];
        let sf = vec![1.0f32; n * nb];
        let qv = NdTensorView::from_data([n, nb, bb], qf.as_slice());
        let sv = NdTensorView::from_data([n, nb], sf.as_slice());
        let mat = match BlockQuantizedMatrix::new(Contiguous::new(qv).unwrap(), Contiguous::new(sv).unwrap(), bits) {
            Ok(m) => m,
            Err(e) => return format!("err:{e:?}"),
        };
        let lf = vec![1.0f32; batch * m * k];
        let l = NdTensorView::from_data([batch, m, k], lf.as_slice());
        let mut o: Vec<MaybeUninit<f32>> = vec![MaybeUninit::new(0.0); out_len];
        match BlockQuantizedGemm::new().batched_gemm_uninit(&mut o, l, mat) {
            Ok(_) => "ok".into(),
            Err(e) => format!("err:{e:?}"),
        }
    });
    let ans = res.unwrap_or_else(|_| "panic".into());
    // property-side expectation: a K that is not a whole number of blocks can only be rejected
    let mut fail = None;
    if ans == "panic" {
        fail = Some("argument check panicked".to_string());
    }
    out.bucket(&format!("err_{}", ans.replace(':', "_")));
    out.case(&req, &ans, fail.as_deref(), true);
}

/// `bqscales bb= nb= n= sn= snb=`: quant of shape (n, nb, bb) with scales of shape (sn, snb).
/// A safe API must reject inconsistent shapes or initialise every output: the output buffer is
/// pre-filled with a sentinel and the answer reports how many sentinels survive.
fn scales_case(out: &mut Out, bb: usize, nb: usize, n: usize, sn: usize, snb: usize) {
    let req = format!("bqscales bb={bb} nb={nb} n={n} sn={sn} snb={snb}");
    let res = hcommon::catch(|| -> String {
        let qf = vec![0x99u8; n * nb * bb];
        let sf = vec![1.0f32; sn * snb];
        let qv = NdTensorView::from_data([n, nb, bb], qf.as_slice());
        let sv = NdTensorView::from_data([sn, snb], sf.as_slice());
        let mat = match BlockQuantizedMatrix::new(Contiguous::new(qv).unwrap(), Contiguous::new(sv).unwrap(), 4) {
            Ok(m) => m,
            Err(e) => return format!("err:{e:?}"),
        };
        let k = nb * bb * 2;
        let lf = vec![1.0f32; k];
        let l = NdTensorView::from_data([1, 1, k], lf.as_slice());
        let mut o: Vec<MaybeUninit<f32>> = vec![MaybeUninit::new(-777.0); n];
        match BlockQuantizedGemm::new().batched_gemm_uninit(&mut o, l, mat) {
            Ok(_) => {
                let stale = o.iter().filter(|x| unsafe { x.assume_init() } == -777.0).count();
                format!("ok unwritten={stale}")
            }
            Err(e) => format!("err:{e:?}"),
        }
    });
    let ans = res.unwrap_or_else(|_| "panic".into());
    let mut fail = None;
    if ans.starts_with("ok") && !ans.ends_with("unwritten=0") {
        fail = Some(format!("batched_gemm_uninit returned Ok but left output elements unwritten ({ans}): uninitialised memory through a safe API"));
    }
    if ans == "panic" {
        fail = Some("panic on inconsistent scales shape".to_string());
    }
    out.bucket(&format!("scales_{}", ans.split(' ').next().unwrap_or("").replace(':', "_")));
    out.case(&req, &ans, fail.as_deref(), true);
}

/// Run one row through a per-ISA hook (`mode` = "float" | "int8").
fn hook_row(mode: &str, isa: &str, lhs: &[f32], mat: BlockQuantizedMatrix<f32>, n: usize) -> Option<Vec<f32>> {
    let mut out: Vec<MaybeUninit<f32>> = vec![MaybeUninit::new(f32::NAN); n];
    let ok = if mode == "int8" {
        hook::vec_dot_matrix_int8(isa, lhs, mat, &mut out)
    } else {
        hook::vec_dot_matrix_float(isa, lhs, mat, &mut out)
    };
    ok.then(|| out.iter().map(|x| unsafe { x.assume_init() }).collect())
}

/// `sidx mode= isa= bs= nb=`: one-hot LHS at every position k x all-ones weights with scale 2^b for
/// block b: the output is the scale of the block index the real kernel used for position k.
fn sidx_case(out: &mut Out, mode: &str, isa: &str, bs: usize, nb: usize) {
    let k_total = nb * bs;
    let req = format!("sidx mode={mode} isa={isa} bs={bs} nb={nb}");
    let qf = vec![0x99u8; nb * bs / 2];
    let sf: Vec<f32> = (0..nb).map(|b| 2f32.powi(b as i32)).collect();
    let unit = if mode == "int8" { 127.0f32 } else { 1.0 };
    let res = hcommon::catch(|| -> Option<Vec<i64>> {
        let qv = NdTensorView::from_data([1, nb, bs / 2], qf.as_slice());
        let sv = NdTensorView::from_data([1, nb], sf.as_slice());
        let mat = BlockQuantizedMatrix::new(Contiguous::new(qv).unwrap(), Contiguous::new(sv).unwrap(), 4).unwrap();
        let mut idx = vec![];
        for k in 0..k_total {
            let mut lhs = vec![0f32; k_total];
            lhs[k] = unit;
            let v = hook_row(mode, isa, &lhs, mat, 1)?[0] as f64 / unit as f64;
            let l = v.log2();
            idx.push(if v > 0.0 && l.fract() == 0.0 { l as i64 } else { -1 });
        }
        Some(idx)
    });
    let (ans, fail) = match res {
        Ok(Some(idx)) => {
            let bad = (0..k_total).find(|&k| idx[k] != (k / bs) as i64);
            (
                format!("idx={}", rle(&idx)),
                bad.map(|k| format!("{mode} kernel on {isa}: element {k} (block {}) was scaled with the scale of block {}", k / bs, idx[k])),
            )
        }
        Ok(None) => return, // ISA not available
        Err(m) => ("panic".to_string(), Some(format!("panic {m}"))),
    };
    out.bucket(&format!("sidx_{mode}_{isa}_bs{bs}"));
    out.case(&req, &ans, fail.as_deref(), true);
}

/// `hot …`: a single non-zero dequantised weight at (col, block kb, byte, nibble); unit LHS vectors.
fn hot_case(out: &mut Out, mode: &str, isa: &str, bs: usize, nb: usize, n: usize, col: usize, kb: usize, byte: usize, nib: usize, q: u8) {
    let k_total = nb * bs;
    let req = format!("hot mode={mode} isa={isa} bs={bs} nb={nb} n={n} col={col} kb={kb} byte={byte} nib={nib} q={q}");
    let mut qf = vec![0x88u8; n * nb * bs / 2];
    let pos = (col * nb + kb) * (bs / 2) + byte;
    qf[pos] = if nib == 0 { 0x80 | q } else { (q << 4) | 0x08 };
    let sf: Vec<f32> = (0..n * nb).map(|i| (1u32 << ((i / nb + i % nb) % 4)) as f32 / 2.0).collect();
    let unit = if mode == "int8" { 127.0f32 } else { 1.0 };
    let res = hcommon::catch(|| -> Option<Vec<(usize, usize, f64)>> {
        let qv = NdTensorView::from_data([n, nb, bs / 2], qf.as_slice());
        let sv = NdTensorView::from_data([n, nb], sf.as_slice());
        let mat = BlockQuantizedMatrix::new(Contiguous::new(qv).unwrap(), Contiguous::new(sv).unwrap(), 4).unwrap();
        let mut hits = vec![];
        for k in 0..k_total {
            let mut lhs = vec![0f32; k_total];
            lhs[k] = unit;
            let v = hook_row(mode, isa, &lhs, mat, n)?;
            for (c, &y) in v.iter().enumerate() {
                if y != 0.0 {
                    hits.push((k, c, y as f64 / unit as f64));
                }
            }
        }
        Some(hits)
    });
    // independent expectation: element index of (kb, byte, nib) in K order, low nibble first
    let want_k = kb * bs + 2 * byte + nib;
    let want_v2 = (q as i64 - 8) * (1i64 << ((col + kb) % 4));
    let (ans, fail) = match res {
        Ok(Some(hits)) => {
            if hits.len() == 1 {
                let (k, c, v) = hits[0];
                let ans = format!("k={k} col={c} val2={}", (v * 2.0) as i64);
                let ok = k == want_k && c == col && (v * 2.0) == want_v2 as f64;
                (ans, (!ok).then(|| format!("{mode} on {isa}: the weight stored at block {kb} byte {byte} nibble {nib} of column {col} acted at LHS position {k}, column {c} with value {v}; expected position {want_k}, value {}", want_v2 as f64 / 2.0)))
            } else {
                (format!("count={}", hits.len()), Some(format!("{mode} on {isa}: {} (position, column) pairs saw the single non-zero weight", hits.len())))
            }
        }
        Ok(None) => return,
        Err(m) => ("panic".to_string(), Some(format!("panic {m}"))),
    };
    out.bucket(&format!("hot_{mode}_{isa}"));
    out.case(&req, &ans, fail.as_deref(), true);
}

fn index_probes(out: &mut Out, rng: &mut Rng, thorough: bool) {
    let float_isas: Vec<&str> = hook::FLOAT_ISAS.to_vec();
    let int8_isas: Vec<&str> = rten_gemm::verif::INT8_DOT_ISAS.to_vec();
    // block counts giving 0..7 tail blocks for every scales-per-vblock arm, and several vblocks
    let nbs: &[usize] = if thorough { &[1, 2, 3, 4, 5, 6, 7, 8, 9, 10, 11, 12, 13, 14, 15, 16, 17, 19, 21, 22, 23] } else { &[1, 2, 3, 5, 6, 7, 8, 11, 13, 14, 15, 23] };
    for &bs in &[16usize, 32, 64, 128, 256] {
        for &nb in nbs {
            if nb * bs > if thorough { 2048 } else { 768 } || nb > 23 {
                continue;
            }
            for isa in &float_isas {
                sidx_case(out, "float", isa, bs, nb);
            }
            for isa in &int8_isas {
                sidx_case(out, "int8", isa, bs, nb);
            }
        }
    }
    let n_hot = if thorough { 200 } else { 30 };
    for _ in 0..n_hot {
        let bs = *rng.pick(&[16usize, 32, 64, 128]);
        let nb = 1 + rng.usize_below((256 / bs).max(1) + 2);
        let n = 1 + rng.usize_below(5);
        let (col, kb, byte, nib) = (rng.usize_below(n), rng.usize_below(nb), rng.usize_below(bs / 2), rng.usize_below(2));
        let q = *rng.pick(&[0u8, 1, 7, 9, 15, 12]);
        for isa in &float_isas {
            hot_case(out, "float", isa, bs, nb, n, col, kb, byte, nib, q);
        }
        for isa in &int8_isas {
            hot_case(out, "int8", isa, bs, nb, n, col, kb, byte, nib, q);
        }
    }
}

/// `qrow bs= x=<rle>`: the real blockwise LHS quantisation on exactly representable rows.
fn qrow_case(out: &mut Out, c: &Case) {
    if c.k() == 0 || !c.int8_exact {
        return;
    }
    let k = c.k();
    let row: Vec<i32> = c.lhs[..k].to_vec();
    let req = format!("qrow bs={} x={}", c.bs, rle(&row));
    let xf: Vec<f32> = row.iter().map(|&v| v as f32).collect();
    let res = hcommon::catch(|| hook::quantize_row(&xf, c.bs));
    let (ans, fail) = match res {
        Ok((q, s)) => {
            let mut fail = None;
            let si: Vec<i64> = s.iter().map(|&v| if v.fract() == 0.0 { v as i64 } else { -1 }).collect();
            for (i, &qi) in q.iter().enumerate() {
                if qi as f64 * s[i / c.bs] as f64 != row[i] as f64 {
                    fail = Some(format!("quantize is not exact on an exactly representable block: x={} -> q={qi} scale={}", row[i], s[i / c.bs]));
                }
            }
            (format!("q={} s={}", rle(&q.iter().map(|&v| v as i64).collect::<Vec<_>>()), rle(&si)), fail)
        }
        Err(m) => ("panic".to_string(), Some(format!("panic {m}"))),
    };
    out.bucket("qrow_exact");
    out.case(&req, &ans, fail.as_deref(), true);
}

/// Relative slack on the half-step law of `quantize` in f32: `x * inv_scale` is rounded to f32
/// before `round()` (|x·inv| ≤ 127, so the absolute error is ≤ 127·2^-24 ≈ 7.6e-6 steps).
const HALF_STEP_EPS: f64 = 4e-5;

fn tol_case(out: &mut Out, rng: &mut Rng) {
    let bs = *rng.pick(&[16usize, 32, 64, 128, 256]);
    let nb = 1 + rng.usize_below((1024 / bs).max(1));
    let n = 1 + rng.usize_below(40);
    let m = *rng.pick(&[1usize, 1, 1, 2, 4]);
    let batch = *rng.pick(&[1usize, 1, 2]);
    let k = nb * bs;
    let amp = *rng.pick(&[1.0f32, 0.01, 100.0]);
    let lhs: Vec<f32> = (0..batch * m * k).map(|_| (rng.f32_unit() - 0.5) * 2.0 * amp).collect();
    let q: Vec<u8> = (0..n * nb * bs / 2).map(|_| rng.below(256) as u8).collect();
    let sf: Vec<f32> = (0..n * nb).map(|_| (rng.f32_unit() - 0.3) * 0.2).collect();
    let c = Case { bs, batch, m, n, nb, lhs: vec![], q, sc2: vec![], int8_exact: false };
    let mut variants: Vec<(&str, &str)> = vec![("float", "api"), ("int8", "api"), ("gemm", "api")];
    for isa in hook::FLOAT_ISAS {
        variants.push(("float", isa));
    }
    for isa in rten_gemm::verif::INT8_DOT_ISAS {
        variants.push(("int8", isa));
    }
    // The real LHS quantisation (`quantize` via the hook): per-row block scales, and the NearestQ
    // law |q·scale − x| ≤ scale/2 (ε-weakened for the f32 product x·inv_scale), |q| ≤ 127.
    let mut row_scales: Vec<Vec<f32>> = vec![];
    for r in 0..batch * m {
        let (qv, sc) = hook::quantize_row(&lhs[r * k..(r + 1) * k], bs);
        let mut bad = None;
        for (i, (&qi, &x)) in qv.iter().zip(&lhs[r * k..(r + 1) * k]).enumerate() {
            let s = sc[i / bs] as f64;
            let err = (qi as f64 * s - x as f64).abs();
            if !(err <= s / 2.0 * (1.0 + HALF_STEP_EPS) + 1e-30) || qi == i8::MIN {
                bad = Some(format!("quantize: x={x} -> q={qi} scale={s}: |q*scale - x| = {err} exceeds half a step"));
            }
        }
        out.bucket("qrow_random");
        out.case(&format!("# qrowr bs={bs} k={k} amp={amp}"), if bad.is_some() { "fail" } else { "ok" }, bad.as_deref(), true);
        row_scales.push(sc);
    }
    for (mode, isa) in variants {
        let res = hcommon::catch(|| run_case(&c, mode, isa, &lhs, &sf));
        let v = match res {
            Ok(Ok(Some(v))) => v,
            Ok(Ok(None)) => continue,
            _ => {
                out.case(&format!("# tol mode={mode} isa={isa} bs={bs} batch={batch} m={m} n={n} nb={nb} amp={amp}"), "panic-or-error", Some("panic or error on well-formed random data"), true);
                continue;
            }
        };
        let int8 = mode == "int8" && (isa != "api" || m == 1);
        let mut worst = 0.0f64;
        let mut bad = None;
        for r in 0..batch * m {
            for col in 0..n {
                let mut refv = 0.0f64;
                let mut bnd = 0.0f64;
                let mut qb = 0.0f64;
                for blk in 0..nb {
                    // row scale of this block as the real `quantize` computes it
                    let rs = row_scales[r][blk] as f64;
                    for ki in blk * bs..(blk + 1) * bs {
                        let w = elem(&c, col, ki) as f64 * sf[col * nb + blk] as f64;
                        let a = lhs[r * k + ki] as f64;
                        refv += a * w;
                        bnd += (a * w).abs();
                        qb += rs / 2.0 * w.abs();
                    }
                }
                // Int8: exactly the bound of theorem c37_int8_error_bound, Σ_k (rs_{k/bs}/2)·|w_k|,
                // widened by the f32 slack of `x * inv_scale` (HALF_STEP_EPS, checked on quantize_row)
                let tol = 1e-4 * bnd + 1e-6 + if int8 { (1.0 + HALF_STEP_EPS) * qb + 1e-4 * bnd } else { 0.0 };
                let d = (v[r * n + col] as f64 - refv).abs();
                if !(d <= tol) && bad.is_none() {
                    bad = Some(format!("out[{r},{col}]={} reference {refv} |diff| {d} > tolerance {tol}", v[r * n + col]));
                }
                if tol > 0.0 {
                    worst = worst.max(d / tol);
                }
            }
        }
        out.bucket(&format!("tol_{mode}_{isa}"));
        out.bucket(if worst < 0.1 { "tol_used_lt_10pct" } else if worst < 0.5 { "tol_used_lt_50pct" } else { "tol_used_ge_50pct" });
        let req = format!("# tol mode={mode} isa={isa} bs={bs} batch={batch} m={m} n={n} nb={nb} amp={amp}");
        out.case(&req, if bad.is_some() { "fail" } else { "ok" }, bad.as_deref(), true);
    }
}

// ---------------------------------------------------------------------------------------------
// MatMulNBits through the public operator API (single-node ONNX model, `com.microsoft` domain).
// Request lines reuse the `bq` format with mode `op-float` / `op-int8` (accuracy_level 1 / 4) and
// `isa=onnx2d` / `onnx1d` (2-D scales, or the legacy 1-D scales that the operator reshapes).
// ---------------------------------------------------------------------------------------------
#[path = "../onnx_enc.rs"]
mod onnx_enc;
use onnx_enc::{dt, Attr, Graph, Node, Tensor as OT, ValueInfo};

fn enc_attr(name: &str, a: &Attr) -> Vec<u8> {
    use onnx_enc::{f_i64, f_str};
    let mut o = Vec::new();
    f_str(&mut o, 1, name);
    match a {
        Attr::Int(v) => {
            f_i64(&mut o, 3, *v);
            f_i64(&mut o, 20, 2);
        }
        _ => panic!("attribute kind not used by this harness"),
    }
    o
}

fn model_bytes(g: &Graph) -> Vec<u8> {
    use onnx_enc::{f_bytes, f_i64, f_str};
    let mut gb = Vec::new();
    for n in &g.nodes {
        let mut o = Vec::new();
        for i in &n.inputs {
            f_str(&mut o, 1, i);
        }
        for i in &n.outputs {
            f_str(&mut o, 2, i);
        }
        f_str(&mut o, 3, &n.name);
        f_str(&mut o, 4, &n.op_type);
        for (name, a) in &n.attrs {
            f_bytes(&mut o, 5, &enc_attr(name, a));
        }
        if !n.domain.is_empty() {
            f_str(&mut o, 7, &n.domain);
        }
        f_bytes(&mut gb, 1, &o);
    }
    f_str(&mut gb, 2, "g");
    for t in &g.initializers {
        f_bytes(&mut gb, 5, &t.encode());
    }
    for v in &g.inputs {
        f_bytes(&mut gb, 11, &v.encode());
    }
    for v in &g.outputs {
        f_bytes(&mut gb, 12, &v.encode());
    }
    let mut o = Vec::new();
    f_i64(&mut o, 1, 8);
    f_str(&mut o, 2, "rten-verif");
    f_bytes(&mut o, 7, &gb);
    for (domain, version) in [("", 21i64), ("com.microsoft", 1)] {
        let mut ops = Vec::new();
        f_str(&mut ops, 1, domain);
        f_i64(&mut ops, 2, version);
        f_bytes(&mut o, 8, &ops);
    }
    o
}

/// Run MatMulNBits. `lhs` has shape [batch, m, k] (batch = 0: [m, k]). Returns the flat output.
fn run_matmul_nbits(
    c: &Case,
    lhs_f: &[f32],
    sf: &[f32],
    accuracy_level: i64,
    scales_1d: bool,
    extra_zero_points: bool,
    lhs_k_override: Option<usize>,
) -> Result<Vec<f32>, String> {
    let k = lhs_k_override.unwrap_or(c.k());
    let mut names = vec!["A", "B", "S"];
    let mut inits = vec![
        OT::u8s("B", &[c.n as i64, c.nb as i64, (c.bs / 2) as i64], &c.q),
        if scales_1d {
            OT::f32s("S", &[(c.n * c.nb) as i64], sf)
        } else {
            OT::f32s("S", &[c.n as i64, c.nb as i64], sf)
        },
    ];
    if extra_zero_points {
        names.push("Z");
        inits.push(OT::u8s("Z", &[c.n as i64, ((c.nb + 1) / 2) as i64], &vec![0x88u8; c.n * ((c.nb + 1) / 2)]));
    }
    let node = Node::new("MatMulNBits", "op", &names, &["Y"])
        .domain("com.microsoft")
        .attr("K", Attr::Int(c.k() as i64))
        .attr("N", Attr::Int(c.n as i64))
        .attr("bits", Attr::Int(4))
        .attr("block_size", Attr::Int(c.bs as i64))
        .attr("accuracy_level", Attr::Int(accuracy_level));
    let g = Graph {
        nodes: vec![node],
        initializers: inits,
        inputs: vec![ValueInfo::new("A", dt::FLOAT, None)],
        outputs: vec![ValueInfo::new("Y", dt::FLOAT, None)],
        ..Default::default()
    };
    let mut opts = rten::ModelOptions::with_all_ops();
    opts.enable_optimization(false);
    let model = opts.load(model_bytes(&g)).map_err(|e| format!("load: {e}"))?;
    let a_shape: Vec<usize> = if c.batch == 0 { vec![c.m, k] } else { vec![c.batch, c.m, k] };
    let a = rten_tensor::Tensor::from_data(a_shape.as_slice(), lhs_f.to_vec());
    let aid = model.node_id("A").map_err(|e| format!("node_id: {e}"))?;
    let yid = model.node_id("Y").map_err(|e| format!("node_id: {e}"))?;
    let outs = model.run(vec![(aid, a.view().into())], &[yid], None).map_err(|e| format!("run: {e}"))?;
    match &outs[0] {
        rten::Value::FloatTensor(t) => Ok(t.iter().copied().collect()),
        _ => Err("unexpected output type".into()),
    }
}

fn op_case(out: &mut Out, c: &Case) {
    if c.k() == 0 || c.batch == 0 {
        return;
    }
    let want = oracle2(c);
    let lhs_f: Vec<f32> = c.lhs.iter().map(|&x| x as f32).collect();
    let sf: Vec<f32> = c.sc2.iter().map(|&x| x as f32 / 2.0).collect();
    for (mode, level) in [("op-float", 1i64), ("op-int8", 4)] {
        for (isa, one_d) in [("onnx2d", false), ("onnx1d", true)] {
            let demand = mode != "op-int8" || c.int8_exact || c.m != 1;
            let req = format!(
                "bq mode={mode} isa={isa} bs={} batch={} m={} n={} nb={} lhs={} q={} sc2={}",
                c.bs,
                c.batch,
                c.m,
                c.n,
                c.nb,
                rle(&c.lhs),
                rle(&c.q),
                rle(&c.sc2)
            );
            let res = hcommon::catch(|| run_matmul_nbits(c, &lhs_f, &sf, level, one_d, false, None));
            let mut fail = None;
            let ans = match res {
                Ok(Ok(v)) => match to_int2(&v) {
                    Ok(iv) => {
                        if demand && iv != want {
                            let p = (0..iv.len().min(want.len())).find(|&i| iv[i] != want[i]).unwrap_or(0);
                            fail = Some(format!("MatMulNBits {mode} {isa}: out[{p}]={:?} but dequantize-then-multiply gives {:?} (x2)", iv.get(p), want.get(p)));
                        }
                        rle(&iv)
                    }
                    Err(e) => {
                        if demand {
                            fail = Some(format!("MatMulNBits {mode} {isa}: {e} on exact-arithmetic inputs"));
                            e
                        } else {
                            "inexact".to_string()
                        }
                    }
                },
                Ok(Err(e)) => {
                    fail = Some(format!("MatMulNBits {mode} {isa} failed on a well-formed model: {e}"));
                    "err".into()
                }
                Err(m) => {
                    fail = Some(format!("MatMulNBits {mode} {isa} panicked: {m}"));
                    "panic".into()
                }
            };
            out.bucket(&format!("op_{mode}_{isa}_m{}", c.m.min(2)));
            out.case(&req, &ans, fail.as_deref(), true);
        }
    }
}

/// Operator-level rejections: a `zero_points` input, and an LHS whose K is not `k_blocks * block_size`.
fn op_error_cases(out: &mut Out, c: &Case) {
    if c.k() == 0 || c.batch == 0 {
        return;
    }
    let sf: Vec<f32> = c.sc2.iter().map(|&x| x as f32 / 2.0).collect();
    for (kind, zp, kover) in [("zero_points", true, None), ("k_plus_1", false, Some(c.k() + 1)), ("k_minus_half_block", false, Some(c.k() - c.bs / 2))] {
        let k = kover.unwrap_or(c.k());
        let lhs_f = vec![1.0f32; c.batch * c.m * k];
        let req = format!("operr kind={kind} bs={} batch={} m={} n={} nb={}", c.bs, c.batch, c.m, c.n, c.nb);
        let res = hcommon::catch(|| run_matmul_nbits(c, &lhs_f, &sf, 1, false, zp, kover));
        let (ans, fail) = match res {
            Ok(Ok(_)) => ("ok".to_string(), Some(format!("MatMulNBits accepted an unsupported request ({kind})"))),
            Ok(Err(_)) => ("err".to_string(), None),
            Err(m) => ("panic".to_string(), Some(format!("MatMulNBits panicked instead of returning an error ({kind}): {m}"))),
        };
        out.bucket(&format!("operr_{kind}_{ans}"));
        out.case(&req, &ans, fail.as_deref(), true);
    }
}

fn main() {
    let args = hcommon::parse_args();
    hcommon::quiet_panics();
    run(&args)
}

fn run(args: &Args) {
    let mut out = Out::new(&args.out);
    let mut rng = Rng::new(args.seed);
    out.note(&format!(
        "float ISAs tried: {:?}; int8-dot ISAs tried: {:?}; Int8 compute optimized on this host: {}",
        hook::FLOAT_ISAS,
        rten_gemm::verif::INT8_DOT_ISAS,
        BlockQuantizedGemm::is_compute_optimized(ComputeMode::Int8)
    ));
    // argument checks (exhaustive small grid + the partial-block rejections)
    for bits in [0u8, 1, 2, 3, 4, 5, 8, 16] {
        for bb in [0usize, 1, 4, 6, 8, 12, 16, 24, 32, 64, 128] {
            err_case(&mut out, bits, bb, 2, 3, 2 * bb * 2, 3, 1, 1);
        }
    }
    for bb in [8usize, 16, 32, 64] {
        let bs = bb * 2;
        for nb in [0usize, 1, 2, 3] {
            for dk in [-1i64, 0, 1, (bs / 2) as i64, bs as i64] {
                let k = (nb * bs) as i64 + dk;
                if k < 0 {
                    continue;
                }
                for (m, batch) in [(1usize, 1usize), (2, 1), (1, 2)] {
                    let n = 3;
                    err_case(&mut out, 4, bb, nb, n, k as usize, n * m * batch, m, batch);
                    err_case(&mut out, 4, bb, nb, n, k as usize, n * m * batch + 1, m, batch);
                    err_case(&mut out, 8, bb, nb, n, k as usize, n * m * batch, m, batch);
                }
            }
        }
    }
    for &(bb, nb, n) in &[(8usize, 2usize, 4usize), (16, 1, 3), (16, 3, 2), (32, 2, 1)] {
        for (sn, snb) in [(n, nb), (n, nb - 1), (n, nb + 1), (n - 1, nb), (n + 1, nb), (nb, n), (1, 1), (0, 0), (n * nb, 1)] {
            scales_case(&mut out, bb, nb, n, sn, snb);
        }
    }
    index_probes(&mut out, &mut rng, args.thorough);
    let n_exact = if args.thorough { 6000 } else { 450 };
    for i in 0..n_exact {
        let c = gen_exact(&mut rng);
        exact_case(&mut out, &c);
        if i % 3 == 0 {
            op_case(&mut out, &c);
        }
        if i % 2 == 0 {
            qrow_case(&mut out, &c);
        }
        if i % 15 == 0 {
            op_error_cases(&mut out, &c);
        }
    }
    let n_tol = if args.thorough { 3000 } else { 250 };
    for _ in 0..n_tol {
        tol_case(&mut out, &mut rng);
    }
    out.finish("bq: exact equality (f32 arithmetic exact by construction) with i64 dequantize-then-multiply and with the Lean model, every mode x ISA; bqerr: argument-check verdicts equal the model; tol: |out - f64 reference| <= 1e-4*sum|a*w| + 1e-6 (+ LHS quantisation bound for Int8)");
}
