//! C21: external tensor data cannot escape the model directory or its file bounds.
//!
//! Runs the real `is_allowed_external_data_path`, `std::path` functions, the three
//! `DataLoader`s and the public `Model::load*` path of `rten`, and prints canonical
//! answers in the line protocol of `lean/RtenVerif/Driver/C21.lean`.
//!
//! Request kinds (strings travel as hex, `-` = empty):
//!   p <hex>                     predicate + components + file_name + extension
//!   j <dirhex> <phex>           PathBuf::push
//!   m|mm|f <off> <len> <flen>   MemLoader / MmapLoader / FileLoader on a file of `flen` pattern bytes
//!   u <hex>                     str::parse::<u64>
//!   L <loader> <lochex> <offhex> <lenhex> <flen|none> <dimlen>   whole Model::load* path
//!   c <loader> <namehex> <loc1hex> <loc2hex> <f1|none> <f2|none> <off> <len>
//!                               two loads through ONE loader instance (PathBuf-keyed cache):
//!                               files `name` (16 bytes) and `other.onnx_data` (8 bytes) exist
//!
//! Every answer is a pure function of the request line (plus the scratch directory), so
//! "risky" requests (file loader with a large declared length, which may make the process
//! abort inside the allocator) are executed in a child process (`--child`); a dead child
//! is reported as the answer `abort` with a PROPFAIL.
use hcommon::{Out, Rng};
use rten::verif::{
    verif_is_allowed_external_data_path as is_allowed, ConstantStorage, DataLoader, DataLocation,
    FileLoader, MemLoader, MmapLoader,
};
use rten_tensor::prelude::*;
use std::collections::HashMap;
use std::io::{BufRead, Write};
use std::os::unix::ffi::OsStrExt;
use std::path::{Component, Path, PathBuf};
use std::sync::Arc;

// ---------------------------------------------------------------- encoding helpers

fn hex(b: &[u8]) -> String {
    if b.is_empty() {
        return "-".into();
    }
    b.iter().map(|x| format!("{x:02x}")).collect()
}

fn unhex(s: &str) -> Vec<u8> {
    if s == "-" {
        return vec![];
    }
    (0..s.len() / 2).map(|i| u8::from_str_radix(&s[2 * i..2 * i + 2], 16).unwrap()).collect()
}

fn pattern(i: u64) -> u8 {
    ((i * 31 + 7) % 251) as u8
}

fn pattern_file(n: u64) -> Vec<u8> {
    (0..n).map(pattern).collect()
}

fn checksum(b: &[u8]) -> u64 {
    let mut acc = 0u64;
    for (k, &x) in b.iter().enumerate() {
        acc = (acc + (k as u64 + 1) * x as u64) % 1_000_003;
    }
    acc
}

// ---------------------------------------------------------------- scratch directory

struct Ctx {
    /// canonical scratch directory standing for "the directory of the model file"
    dir: PathBuf,
}

impl Ctx {
    fn new(out: &str) -> Ctx {
        let root = PathBuf::from(out).join("c21fs");
        let dir = root.join("modeldir");
        std::fs::create_dir_all(&dir).unwrap();
        let dir = dir.canonicalize().unwrap();
        let ctx = Ctx { dir };
        std::fs::write(ctx.model_path(), b"").unwrap();
        // decoys that must never be read: outside the model dir, in a sub directory,
        // and inside the dir but without a data extension
        std::fs::write(ctx.dir.parent().unwrap().join("outside.data"), pattern_file(64)).unwrap();
        std::fs::create_dir_all(ctx.dir.join("sub")).unwrap();
        std::fs::write(ctx.dir.join("sub").join("inner.data"), pattern_file(64)).unwrap();
        std::fs::write(ctx.dir.join("secret.txt"), pattern_file(64)).unwrap();
        // Windows-style spellings: on Unix `..\x.data` / `dir\file.data` are plain names; the
        // files a Windows reading would reach exist, and must not be what is served
        std::fs::write(ctx.dir.parent().unwrap().join("x.data"), pattern_file(64)).unwrap();
        std::fs::create_dir_all(ctx.dir.join("dir")).unwrap();
        std::fs::write(ctx.dir.join("dir").join("file.data"), pattern_file(64)).unwrap();
        ctx
    }
    fn model_path(&self) -> PathBuf {
        self.dir.join("model.onnx")
    }
    fn range_file(&self, flen: u64) -> String {
        let name = format!("r{flen}.data");
        let p = self.dir.join(&name);
        if !p.exists() {
            std::fs::write(&p, pattern_file(flen)).unwrap();
        }
        name
    }
    fn cleanup(&self) {
        let _ = std::fs::remove_dir_all(self.dir.parent().unwrap());
    }
}

// ---------------------------------------------------------------- error classification

fn classify_err(msg: &str) -> String {
    if msg.contains("disallowed path") {
        "err:disallowed".into()
    } else if msg.contains("invalid data length") {
        "err:invalidlength".into()
    } else if let Some(i) = msg.find("file too short. required ") {
        let rest = &msg[i + "file too short. required ".len()..];
        let mut it = rest.split(" actual ");
        let r = it.next().unwrap_or("?");
        let a: String = it.next().unwrap_or("?").chars().take_while(|c| c.is_ascii_digit()).collect();
        format!("err:tooshort {r} {a}")
    } else if msg.contains("io error") {
        "err:io".into()
    } else if msg.contains("invalid external data offset") {
        "err:badoffset".into()
    } else if msg.contains("invalid external data length") {
        "err:badlength".into()
    } else if msg.contains("does not match shape") {
        "err:shape".into()
    } else {
        format!("err:other {}", msg.replace(['\n', '\t'], " "))
    }
}

// ---------------------------------------------------------------- p / j / u

fn show_comps(p: &Path) -> String {
    let v: Vec<String> = p
        .components()
        .map(|c| match c {
            Component::RootDir => "R".to_string(),
            Component::CurDir => "C".to_string(),
            Component::ParentDir => "P".to_string(),
            Component::Normal(n) => format!("N{}", hex(n.as_bytes())),
            Component::Prefix(_) => "X".to_string(),
        })
        .collect();
    if v.is_empty() {
        "-".into()
    } else {
        v.join(",")
    }
}

/// Independent string-level statement of "a single plain filename": strip trailing
/// `/` and `/.` noise, what remains must be a name without `/`, not ``, `.`, `..`.
fn plain_name(s: &[u8]) -> Option<&[u8]> {
    let mut e = s.len();
    loop {
        if e > 0 && s[e - 1] == b'/' {
            e -= 1;
        } else if e >= 2 && s[e - 1] == b'.' && s[e - 2] == b'/' {
            e -= 2;
        } else {
            break;
        }
    }
    let n = &s[..e];
    if n.is_empty() || n == b"." || n == b".." || n.contains(&b'/') {
        None
    } else {
        Some(n)
    }
}

fn ext_rule(name: &[u8]) -> bool {
    // independent: text after the last dot (which must not be the first byte)
    match name.iter().rposition(|&b| b == b'.') {
        Some(i) if i > 0 => {
            let e = &name[i + 1..];
            e.starts_with(b"data") || e.starts_with(b"onnx_data")
        }
        _ => false,
    }
}

fn case_p(ctx: &Ctx, s: &str) -> (String, Option<String>) {
    let p = Path::new(s);
    let ok = is_allowed(p);
    let fname = p.file_name().map(|n| hex(n.as_bytes())).unwrap_or("none".into());
    let ext = p.extension().map(|n| hex(n.as_bytes())).unwrap_or("none".into());
    let ans = format!("allowed={} comps={} fname={} ext={}", ok as u8, show_comps(p), fname, ext);
    let mut fail = None;
    if ok {
        // (1) string level
        match plain_name(s.as_bytes()) {
            None => fail = Some("accepted location is not a single plain file name".to_string()),
            Some(n) if !ext_rule(n) => fail = Some("accepted location lacks a recognised data extension".to_string()),
            Some(n) => {
                // (2) lexical: dir.join(p) has exactly the components of dir plus the name
                let joined = ctx.dir.join(p);
                let mut jc: Vec<_> = joined.components().collect();
                let last = jc.pop();
                let dc: Vec<_> = ctx.dir.components().collect();
                if jc != dc || !matches!(last, Some(Component::Normal(x)) if x.as_bytes() == n) {
                    fail = Some("dir.join(location) is not a direct child of the model directory".to_string());
                } else if n.len() <= 200 && !n.contains(&0) {
                    // (3) file system: create the target (a directory when the location has
                    // trailing separators), canonicalise, check the parent
                    let target = ctx.dir.join(std::ffi::OsStr::from_bytes(n));
                    let is_dir = n.len() != s.len();
                    let pre_exists = target.exists();
                    if !pre_exists {
                        if is_dir {
                            let _ = std::fs::create_dir(&target);
                        } else {
                            let _ = std::fs::write(&target, b"x");
                        }
                    }
                    match joined.canonicalize() {
                        Ok(c) => {
                            if c.parent() != Some(ctx.dir.as_path()) {
                                fail = Some(format!("canonical path {} is not inside the model directory", c.display()));
                            }
                        }
                        Err(_) => {}
                    }
                    if !pre_exists {
                        let _ = if is_dir { std::fs::remove_dir(&target) } else { std::fs::remove_file(&target) };
                    }
                }
            }
        }
    }
    (ans, fail)
}

fn case_j(d: &str, s: &str) -> (String, Option<String>) {
    let mut b = PathBuf::from(d);
    b.push(s);
    (format!("{} comps={}", hex(b.as_os_str().as_bytes()), show_comps(&b)), None)
}

fn case_u(s: &str) -> (String, Option<String>) {
    match s.parse::<u64>() {
        Ok(n) => (format!("some {n}"), None),
        Err(_) => ("none".into(), None),
    }
}

// ---------------------------------------------------------------- range requests

/// Oracle on the implementation's own result for a range request.
fn range_oracle(off: u64, len: u64, flen: u64, res: &Result<Vec<u8>, String>) -> Option<String> {
    let end = off as u128 + len as u128;
    match res {
        Ok(bytes) => {
            if end > flen as u128 {
                return Some(format!(
                    "out-of-range request accepted: offset {off} + length {len} > file length {flen}"
                ));
            }
            let want: Vec<u8> = (off..off + len).map(pattern).collect();
            if *bytes != want {
                return Some("returned bytes differ from file[offset..offset+length]".into());
            }
            None
        }
        Err(_) => None,
    }
}

fn case_range(ctx: &Ctx, kind: &str, off: u64, len: u64, flen: u64) -> (String, Option<String>) {
    let name = if kind == "m" { format!("r{flen}.data") } else { ctx.range_file(flen) };
    let loc = DataLocation { path: name.clone(), offset: off, length: len };
    let res: Result<(usize, usize, Vec<u8>), String> = match kind {
        "m" => {
            let mut map = HashMap::new();
            map.insert(name, Arc::new(ConstantStorage::Buffer(pattern_file(flen))));
            let loader = MemLoader::new(map);
            loader.load(&loc).map(|s| (s.bytes.start, s.bytes.end, s.data().to_vec())).map_err(|e| e.to_string())
        }
        "mm" => {
            let loader = unsafe { MmapLoader::new(&ctx.model_path()) }.unwrap();
            loader.load(&loc).map(|s| (s.bytes.start, s.bytes.end, s.data().to_vec())).map_err(|e| e.to_string())
        }
        _ => {
            let loader = FileLoader::new(&ctx.model_path()).unwrap();
            loader.load(&loc).map(|s| (s.bytes.start, s.bytes.end, s.data().to_vec())).map_err(|e| e.to_string())
        }
    };
    let ans = match &res {
        Ok((s, e, b)) => format!("ok {s} {e} {}", checksum(b)),
        Err(m) => classify_err(m),
    };
    let fail = range_oracle(off, len, flen, &res.map(|(_, _, b)| b));
    (ans, fail)
}

// ---------------------------------------------------------------- whole path through Model::load*

fn varint(mut v: u64, out: &mut Vec<u8>) {
    loop {
        let b = (v & 0x7f) as u8;
        v >>= 7;
        if v == 0 {
            out.push(b);
            return;
        }
        out.push(b | 0x80);
    }
}
fn f_varint(field: u64, v: u64, out: &mut Vec<u8>) {
    varint(field << 3, out);
    varint(v, out);
}
fn f_bytes(field: u64, b: &[u8], out: &mut Vec<u8>) {
    varint((field << 3) | 2, out);
    varint(b.len() as u64, out);
    out.extend_from_slice(b);
}

/// A minimal ONNX model: one `uint8` initializer `w` with `dims = [dim]` stored
/// externally, `y = Identity(w)`, graph output `y`.
fn onnx_model(loc: &str, off: &str, len: &str, dim: u64) -> Vec<u8> {
    let entry = |k: &str, v: &str| {
        let mut e = vec![];
        f_bytes(1, k.as_bytes(), &mut e);
        f_bytes(2, v.as_bytes(), &mut e);
        e
    };
    let mut t = vec![];
    f_varint(1, dim, &mut t); // dims
    f_varint(2, 2, &mut t); // data_type = UINT8
    f_bytes(8, b"w", &mut t); // name
    f_bytes(13, &entry("location", loc), &mut t);
    f_bytes(13, &entry("offset", off), &mut t);
    f_bytes(13, &entry("length", len), &mut t);
    f_varint(14, 1, &mut t); // data_location = EXTERNAL
    let mut node = vec![];
    f_bytes(1, b"w", &mut node);
    f_bytes(2, b"y", &mut node);
    f_bytes(3, b"id", &mut node);
    f_bytes(4, b"Identity", &mut node);
    let mut vi = vec![];
    f_bytes(1, b"y", &mut vi);
    let mut g = vec![];
    f_bytes(1, &node, &mut g);
    f_bytes(2, b"g", &mut g);
    f_bytes(5, &t, &mut g);
    f_bytes(12, &vi, &mut g);
    let mut opset = vec![];
    f_varint(2, 17, &mut opset);
    let mut m = vec![];
    f_varint(1, 8, &mut m); // ir_version
    f_bytes(8, &opset, &mut m);
    f_bytes(7, &g, &mut m);
    m
}

/// Can the harness create a regular file of this name directly in the model dir?
fn creatable(name: &[u8]) -> bool {
    !name.is_empty() && name != b"." && name != b".." && !name.contains(&b'/') && !name.contains(&0) && name.len() <= 255
}

fn case_load(ctx: &Ctx, loader: &str, loc: &str, off: &str, len: &str, flen: Option<u64>, dim: u64) -> (String, Option<String>) {
    let bytes = onnx_model(loc, off, len, dim);
    // the file named by `loc` (if the harness says one exists)
    // (a file left behind by a request that killed a child process is replaced/removed)
    let mut created = None;
    let protected = ["model.onnx", "secret.txt", "sub", "dir"].contains(&loc);
    if loader != "mem" && creatable(loc.as_bytes()) && !protected {
        let p = ctx.dir.join(std::ffi::OsStr::from_bytes(loc.as_bytes()));
        let _ = std::fs::remove_file(&p);
        if let Some(fl) = flen {
            std::fs::write(&p, pattern_file(fl)).unwrap();
            created = Some(p);
        }
    }
    // a location with trailing `/`, `/.` … noise: the regular file `name` really exists, so an
    // io error below is the OS refusing `name/.` (ENOTDIR), not a missing file
    let mut noise_file = None;
    if loader != "mem" {
        if let Some(n) = plain_name(loc.as_bytes()) {
            if n.len() != loc.len() && creatable(n) && !["model.onnx", "secret.txt", "sub", "dir"].iter().any(|p| p.as_bytes() == n) {
                let p = ctx.dir.join(std::ffi::OsStr::from_bytes(n));
                if !p.exists() && std::fs::write(&p, pattern_file(16)).is_ok() {
                    noise_file = Some(p);
                }
            }
        }
    }
    let res = match loader {
        "mem" => {
            let mut opts = rten::ModelOptions::with_all_ops();
            if let Some(fl) = flen {
                opts.external_data(loc, pattern_file(fl));
            }
            opts.load(bytes)
        }
        "mmap" => {
            std::fs::write(ctx.model_path(), &bytes).unwrap();
            unsafe { rten::ModelOptions::with_all_ops().load_mmap(ctx.model_path()) }
        }
        _ => {
            std::fs::write(ctx.model_path(), &bytes).unwrap();
            rten::ModelOptions::with_all_ops().load_file(ctx.model_path())
        }
    };
    let out: Result<Vec<u8>, String> = match res {
        Err(e) => Err(e.to_string()),
        Ok(model) => {
            let id = model.find_node("y").expect("output y");
            match model.run(vec![], &[id], None) {
                Err(e) => Err(format!("run error {e}")),
                Ok(mut v) => match v.remove(0) {
                    rten::Value::UInt8Tensor(t) => Ok(t.to_vec()),
                    _ => Err("wrong output type".into()),
                },
            }
        }
    };
    if let Some(p) = created {
        let _ = std::fs::remove_file(p);
    }
    if let Some(p) = noise_file {
        let _ = std::fs::remove_file(p);
    }
    let ans = match &out {
        Ok(b) => format!("ok {} {}", b.len(), checksum(b)),
        Err(m) => classify_err(m),
    };
    // oracle: data may only come from a plain, data-extension file name directly in the
    // model dir, and only from inside that file
    let mut fail = None;
    if let Ok(b) = &out {
        let name_ok = plain_name(loc.as_bytes()).map(ext_rule).unwrap_or(false);
        let o = off.parse::<u64>().ok();
        let l = len.parse::<u64>().ok();
        if !name_ok {
            fail = Some("model loaded data from a location that is not a plain data file name".to_string());
        } else if let (Some(o), Some(l), Some(fl)) = (o, l, flen) {
            if o as u128 + l as u128 > fl as u128 {
                fail = Some(format!("out-of-range request accepted: offset {o} + length {l} > file length {fl}"));
            } else if *b != (o..o + l).map(pattern).collect::<Vec<u8>>() {
                fail = Some("tensor bytes differ from file[offset..offset+length]".to_string());
            }
        } else {
            fail = Some("model loaded although offset/length/file were invalid".to_string());
        }
    }
    (ans, fail)
}

// ---------------------------------------------------------------- two loads, one loader (cache key)

const OTHER: &str = "other.onnx_data";

fn case_cache(ctx: &Ctx, kind: &str, name: &str, loc1: &str, loc2: &str, off: u64, len: u64) -> (String, Option<String>) {
    let pn = ctx.dir.join(std::ffi::OsStr::from_bytes(name.as_bytes()));
    let po = ctx.dir.join(OTHER);
    let _ = std::fs::remove_file(&pn);
    std::fs::write(&pn, pattern_file(16)).unwrap();
    std::fs::write(&po, pattern_file(8)).unwrap();
    let loader: Box<dyn DataLoader> = match kind {
        "mem" => {
            let mut map = HashMap::new();
            map.insert(name.to_string(), Arc::new(ConstantStorage::Buffer(pattern_file(16))));
            map.insert(OTHER.to_string(), Arc::new(ConstantStorage::Buffer(pattern_file(8))));
            Box::new(MemLoader::new(map))
        }
        "mmap" => Box::new(unsafe { MmapLoader::new(&ctx.model_path()) }.unwrap()),
        _ => Box::new(FileLoader::new(&ctx.model_path()).unwrap()),
    };
    let mut answers = vec![];
    let mut fail = None;
    for loc in [loc1, loc2] {
        let r = loader
            .load(&DataLocation { path: loc.to_string(), offset: off, length: len })
            .map(|s| s.data().to_vec())
            .map_err(|e| e.to_string());
        match &r {
            Ok(b) => {
                // oracle: served bytes come from `name` or OTHER (direct children with a data
                // extension), from inside that file
                let size = match plain_name(loc.as_bytes()) {
                    Some(n) if n == name.as_bytes() && ext_rule(n) => Some(16u64),
                    Some(n) if n == OTHER.as_bytes() => Some(8),
                    _ => None,
                };
                match size {
                    None => fail = Some(format!("data served for a location that names neither data file: {loc:?}")),
                    Some(sz) if off + len > sz => fail = Some("out-of-range request accepted".to_string()),
                    Some(_) if *b != (off..off + len).map(pattern).collect::<Vec<u8>>() => {
                        fail = Some("served bytes differ from file[offset..offset+length]".to_string())
                    }
                    _ => {}
                }
                answers.push(format!("ok {} {}", b.len(), checksum(b)));
            }
            Err(m) => answers.push(classify_err(m)),
        }
    }
    drop(loader);
    let _ = std::fs::remove_file(&pn);
    let _ = std::fs::remove_file(&po);
    (answers.join(";"), fail)
}

// ---------------------------------------------------------------- dispatch

fn s_of(h: &str) -> String {
    String::from_utf8(unhex(h)).expect("harness only sends valid UTF-8")
}

fn exec(ctx: &Ctx, req: &str) -> (String, Option<String>) {
    let w: Vec<&str> = req.split(' ').collect();
    let r = hcommon::catch(|| match w[0] {
        "p" => case_p(ctx, &s_of(w[1])),
        "j" => case_j(&s_of(w[1]), &s_of(w[2])),
        "u" => case_u(&s_of(w[1])),
        "m" | "mm" | "f" => case_range(ctx, w[0], w[1].parse().unwrap(), w[2].parse().unwrap(), w[3].parse().unwrap()),
        "L" => case_load(
            ctx,
            w[1],
            &s_of(w[2]),
            &s_of(w[3]),
            &s_of(w[4]),
            if w[5] == "none" { None } else { Some(w[5].parse().unwrap()) },
            w[6].parse().unwrap(),
        ),
        "c" => case_cache(ctx, w[1], &s_of(w[2]), &s_of(w[3]), &s_of(w[4]), w[7].parse().unwrap(), w[8].parse().unwrap()),
        _ => ("bad-request".into(), None),
    });
    match r {
        Ok(x) => x,
        Err(m) => (format!("panic {m}"), Some(format!("panic instead of a load error: {m}"))),
    }
}

/// Requests whose execution might kill the process (huge declared lengths on the file
/// loader): run them in a child.
fn risky(req: &str) -> bool {
    let w: Vec<&str> = req.split(' ').collect();
    match w[0] {
        "f" => w[2].parse::<u64>().map(|l| l > (1 << 22)).unwrap_or(false),
        "L" if w[1] == "file" => s_of(w[4]).parse::<u64>().map(|l| l > (1 << 22)).unwrap_or(false),
        _ => false,
    }
}

fn child_main(out: &str) {
    let ctx = Ctx { dir: PathBuf::from(out).join("c21fs").join("modeldir").canonicalize().unwrap() };
    let stdin = std::io::stdin();
    let stdout = std::io::stdout();
    for line in stdin.lock().lines() {
        let line = line.unwrap();
        let (a, f) = exec(&ctx, &line);
        let mut o = stdout.lock();
        match f {
            Some(m) => writeln!(o, "{a}\t{}", m.replace(['\n', '\t'], " ")).unwrap(),
            None => writeln!(o, "{a}\t").unwrap(),
        }
        o.flush().unwrap();
    }
}

fn run_in_child(out: &str, reqs: &[String]) -> Vec<(String, Option<String>)> {
    let mut results = vec![];
    let exe = std::env::current_exe().unwrap();
    while results.len() < reqs.len() {
        let todo = &reqs[results.len()..];
        let mut ch = std::process::Command::new(&exe)
            .args(["--child", "--out", out])
            .stdin(std::process::Stdio::piped())
            .stdout(std::process::Stdio::piped())
            .stderr(std::process::Stdio::null())
            .spawn()
            .unwrap();
        // feed stdin from a separate thread: with thousands of requests both pipes fill up
        // and a single-threaded write-then-read would deadlock
        let mut si = ch.stdin.take().unwrap();
        let lines: Vec<String> = todo.to_vec();
        let feeder = std::thread::spawn(move || {
            for r in lines {
                if writeln!(si, "{r}").is_err() {
                    break;
                }
            }
        });
        let so = std::io::BufReader::new(ch.stdout.take().unwrap());
        let mut got = 0;
        for line in so.lines() {
            let line = line.unwrap();
            let (a, f) = line.split_once('\t').unwrap_or((&line, ""));
            results.push((a.to_string(), if f.is_empty() { None } else { Some(f.to_string()) }));
            got += 1;
        }
        let st = ch.wait().unwrap();
        let _ = feeder.join();
        if got < todo.len() {
            // the child died while executing request number `got`
            results.push((
                "abort".to_string(),
                Some(format!("process died ({st}) instead of reporting a load error")),
            ));
        }
    }
    results
}

// ---------------------------------------------------------------- generators

const TOKENS: &[&str] = &[
    "/", "/", "//", ".", "..", "...", "a", "b.data", "model.onnx_data", "w.onnx_data_1", ".data", "data",
    "x.txt", "x.datax", "x.mydata", "x.metadata", "x.dat", "x.Data", "x.DATA", "x.onnx", "x.onnx_dat", "\\", "..\\", "C:\\", "C:", "dir\\", "file.data", "x.data", "x.database", "m.data_evil", "é",
    "日本.data", "\u{0}", " ", "..data", "a.", "a..data", "%2e%2e", "\u{202e}", "\n", "\t", "~", "x.data.bak",
    "x.bak.data", ".onnx_data", "\u{2215}", "\u{ff0f}", "\u{2024}", "secret.txt", "sub", "inner.data", "outside.data",
];

/// Trailing-separator noise, the `data…` prefix rule, Windows-style names (on Unix a
/// backslash is an ordinary file-name byte).
const AUDIT_SPELLINGS: &[&str] = &[
    "m.data/", "m.data/.", "m.data//./", "m.data/./.", "m.data//", "x.database", "m.data_evil", "w.onnx_data_7",
    "w.onnx_database", "..\\x.data", "C:\\x.data", "dir\\file.data", "..\\..\\x.data", "\\\\server\\share\\x.data",
    "C:x.data", "C:/x.data", "dir\\..\\file.data", ".\\x.data", "x.data\\", "x.data\\.", "dir/file.data", "../x.data",
];

fn gen_location(rng: &mut Rng) -> String {
    match rng.below(10) {
        0..=3 => {
            let n = 1 + rng.usize_below(5);
            (0..n).map(|_| *rng.pick(TOKENS)).collect()
        }
        4..=7 => {
            // a plausible name with decorations around it
            let stem = *rng.pick(&["w", "model", "m.onnx", ".", "..", "a b", "é", ".hidden", ""]);
            let ext = *rng.pick(&[".data", ".onnx_data", ".onnx_data_3", ".datafile", ".txt", "", ".", ".dat", ".onnx"]);
            let pre = *rng.pick(&["", "", "", "./", "/", "../", "a/", "a/../", "//", ".//", "sub/", "..\\", "./../", "/tmp/"]);
            let post = *rng.pick(&["", "", "", "/", "/.", "//", "/./", "/..", "/x", "/./.", "/../x.data", "\\", "/.//./"]);
            format!("{pre}{stem}{ext}{post}")
        }
        8 => {
            // long
            let n = *rng.pick(&[199usize, 200, 250, 251, 255, 256, 300, 4096, 70000]);
            match rng.below(3) {
                0 => format!("{}.data", "a".repeat(n)),
                1 => format!("{}x.data", "../".repeat(n / 3)),
                _ => format!("x.data{}", "/.".repeat(n / 2)),
            }
        }
        _ => {
            // random bytes from a small alphabet (valid UTF-8)
            let n = rng.usize_below(9);
            (0..n).map(|_| *rng.pick(&['/', '.', 'a', 'd', '\\', 't'])).collect()
        }
    }
}

fn interesting_u64(rng: &mut Rng, flen: u64) -> u64 {
    let anchors = [
        0u64,
        1,
        flen,
        flen / 2,
        8192,
        16384,
        1 << 31,
        1 << 32,
        isize::MAX as u64,
        (isize::MAX as u64) + 1,
        u64::MAX,
        u64::MAX - flen,
        u64::MAX / 2,
        1 << 62,
        1 << 40,
    ];
    match rng.below(8) {
        0..=2 => rng.below(flen + 3),
        3..=5 => {
            let a = *rng.pick(&anchors);
            let d = rng.below(5);
            if rng.chance(1, 2) {
                a.saturating_add(d)
            } else {
                a.saturating_sub(d)
            }
        }
        6 => rng.next_u64(),
        _ => rng.next_u64() >> rng.below(64),
    }
}

fn main() {
    let args = hcommon::parse_args();
    hcommon::quiet_panics();
    if std::env::args().any(|a| a == "--child") {
        child_main(&args.out);
        return;
    }
    let ctx = Ctx::new(&args.out);
    let mut rng = Rng::new(args.seed);
    let mut reqs: Vec<(String, &'static str, bool)> = vec![]; // request, bucket, nontrivial

    // (a) exhaustive small alphabet × suffix
    let alpha = ["/", ".", "a", "\\"];
    let maxlen = if args.thorough { 8 } else { 6 };
    for n in 0..=maxlen {
        let total = alpha.len().pow(n as u32);
        for mut code in 0..total {
            let mut s = String::new();
            for _ in 0..n {
                s.push_str(alpha[code % alpha.len()]);
                code /= alpha.len();
            }
            for suf in ["", ".data", "data", ".data/"] {
                let t = format!("{s}{suf}");
                reqs.push((format!("p {}", hex(t.as_bytes())), "p_exhaustive", t.contains('/') || t.contains("..")));
            }
        }
    }
    // (a') the spellings named by the audit / the property's quantifier text, verbatim
    for t in AUDIT_SPELLINGS {
        reqs.push((format!("p {}", hex(t.as_bytes())), "p_audit_spellings", true));
    }
    // (b) generated locations
    let n_loc = if args.thorough { 200_000 } else { 20_000 };
    for _ in 0..n_loc {
        let s = gen_location(&mut rng);
        reqs.push((format!("p {}", hex(s.as_bytes())), "p_generated", true));
    }
    // (c) PathBuf::push
    let dirs = ["/m", "/m/", "/", "", ".", "m", "/a/b/..", "/a//b", "./m", "/a/."];
    let n_join = if args.thorough { 40_000 } else { 4_000 };
    for _ in 0..n_join {
        let d = *rng.pick(&dirs);
        let s = gen_location(&mut rng);
        if s.len() > 1000 {
            continue;
        }
        reqs.push((format!("j {} {}", hex(d.as_bytes()), hex(s.as_bytes())), "join", true));
    }
    // (d) u64 parsing
    let nums = [
        "", "0", "+0", "-0", "+", "-", "12", "0012", " 12", "12 ", "1_000", "0x10", "18446744073709551615",
        "18446744073709551616", "+18446744073709551615", "99999999999999999999", "9223372036854775807",
        "9223372036854775808", "1e3", "１２", "1.0", "++1", "+-1", "00000000000000000000000001",
    ];
    for s in nums {
        reqs.push((format!("u {}", hex(s.as_bytes())), "parse_u64", true));
    }
    for _ in 0..(if args.thorough { 5000 } else { 500 }) {
        let n = rng.usize_below(22);
        let s: String = (0..n).map(|_| *rng.pick(&['0', '1', '9', '5', '+', '-', ' ', 'a'])).collect();
        reqs.push((format!("u {}", hex(s.as_bytes())), "parse_u64", true));
    }
    // (e) range triples, all three loaders
    let flens: Vec<u64> = if args.thorough {
        vec![0, 1, 2, 7, 32, 33, 255, 4096, 8191, 8192, 8193, 16384, 16385, 20000, 70001]
    } else {
        vec![0, 1, 7, 32, 8191, 8192, 8193, 16385, 20000]
    };
    let n_rng = if args.thorough { 60_000 } else { 6_000 };
    for i in 0..n_rng {
        let flen = if rng.chance(3, 5) { *rng.pick(&flens[..4.min(flens.len())]) } else { *rng.pick(&flens) };
        let (off, len) = match rng.below(4) {
            0 => {
                // in range
                let off = rng.below(flen + 1);
                (off, rng.below(flen - off + 1))
            }
            1 => {
                // just outside
                let off = rng.below(flen + 2);
                (off, (flen + 1).saturating_sub(off) + rng.below(2))
            }
            _ => (interesting_u64(&mut rng, flen), interesting_u64(&mut rng, flen)),
        };
        let kind = ["m", "mm", "f"][i % 3];
        let b = match kind {
            "m" => "range_mem",
            "mm" => "range_mmap",
            _ => "range_file",
        };
        reqs.push((format!("{kind} {off} {len} {flen}"), b, true));
    }
    // fixed corner triples for every loader
    for kind in ["m", "mm", "f"] {
        for (o, l, f) in [
            (u64::MAX, 8u64, 32u64),
            (u64::MAX, u64::MAX, 32),
            (8, u64::MAX, 32),
            (1, u64::MAX, 32),
            (u64::MAX - 31, 32, 32),
            (u64::MAX - 7, 8, 32),
            (0, isize::MAX as u64, 32),
            (0, isize::MAX as u64 + 1, 32),
            (1 << 63, 1 << 63, 32),
            ((1 << 63) + 8, (1 << 63) + 8, 32),
            (0, 1 << 40, 32),
            (0, 1 << 46, 32),
            (33, 0, 32),
            (32, 0, 32),
            (u64::MAX, 0, 32),
            (1 << 63, 0, 32),
            (0, 0, 0),
            (0, 1, 0),
            (1, 0, 0),
        ] {
            reqs.push((format!("{kind} {o} {l} {f}"), "range_corner", true));
        }
    }
    // (f) whole path through Model::load / load_file / load_mmap
    let n_load = if args.thorough { 30_000 } else { 3_000 };
    for i in 0..n_load {
        let loader = ["mem", "mmap", "file"][i % 3];
        let loc = if rng.chance(1, 2) {
            (*rng.pick(&[
                "w.data", "w.onnx_data", "model.onnx.data", "w.onnx_data_2", "é.data", "a b.data", "..data",
                "x.datafile", "secret.txt", "../outside.data", "sub/inner.data", "./w.data", "w.data/", "w.data/.",
                "/etc/passwd", "..\\w.data", "w.txt", "w", "", ".data", "..", "model.onnx", "m.data/", "m.data/.",
                "m.data//./", "x.database", "m.data_evil", "..\\x.data", "C:\\x.data", "dir\\file.data", "dir/file.data",
                "../x.data",
            ]))
            .to_string()
        } else {
            gen_location(&mut rng)
        };
        if loc.len() > 2000 {
            continue;
        }
        let flen_v = *rng.pick(&[0u64, 1, 16, 32, 100, 8193]);
        let exists = rng.chance(5, 6);
        let flen = if loader == "mem" {
            if exists { Some(flen_v) } else { None }
        } else if exists && creatable(loc.as_bytes()) && !["model.onnx", "secret.txt", "sub", "dir"].contains(&loc.as_str()) {
            Some(flen_v)
        } else {
            None
        };
        let num = |rng: &mut Rng, flen: u64| -> String {
            match rng.below(12) {
                0 => (*rng.pick(&["", "+", "-1", "abc", "18446744073709551616", " 4", "4 ", "0x4"])).to_string(),
                1 => format!("+{}", rng.below(flen + 2)),
                2 => format!("00{}", rng.below(flen + 2)),
                3 | 4 => interesting_u64(rng, flen).to_string(),
                _ => rng.below(flen + 2).to_string(),
            }
        };
        let (off, len) = if rng.chance(1, 2) {
            let o = rng.below(flen_v + 1);
            (o.to_string(), rng.below(flen_v - o + 1).to_string())
        } else {
            (num(&mut rng, flen_v), num(&mut rng, flen_v))
        };
        let dim = match len.parse::<u64>() {
            Ok(l) if l <= 1 << 20 => {
                if rng.chance(1, 12) {
                    l + 1
                } else {
                    l
                }
            }
            _ => 1,
        };
        let f = flen.map(|x| x.to_string()).unwrap_or("none".into());
        reqs.push((
            format!("L {loader} {} {} {} {f} {dim}", hex(loc.as_bytes()), hex(off.as_bytes()), hex(len.as_bytes())),
            match loader {
                "mem" => "load_mem",
                "mmap" => "load_mmap",
                _ => "load_file",
            },
            true,
        ));
    }

    // (g) two loads through one loader: PathBuf-keyed cache, trailing noise, Windows-style names
    let names = ["w.data", "x.database", "m.data_evil", "..\\x.data", "C:\\x.data", "dir\\file.data", "w.txt", "m.onnx_data"];
    let n_cache = if args.thorough { 12_000 } else { 1_500 };
    for i in 0..n_cache {
        let kind = ["mem", "mmap", "file"][i % 3];
        let name = *rng.pick(&names);
        let variant = |rng: &mut Rng| -> String {
            match rng.below(10) {
                0 | 1 | 2 => name.to_string(),
                3 => format!("{name}/"),
                4 => format!("{name}/."),
                5 => format!("{name}//./"),
                6 => format!("./{name}"),
                7 => OTHER.to_string(),
                8 => format!("sub/../{name}"),
                _ => format!("{OTHER}/."),
            }
        };
        let (l1, l2) = (variant(&mut rng), variant(&mut rng));
        let fl = |l: &str| -> String {
            if l == name { "16".into() } else if l == OTHER { "8".into() } else { "none".into() }
        };
        let (off, len) = match rng.below(4) {
            0 => (4u64, 8u64),          // fits `name` (16) but not OTHER (8)
            1 => (0, 8),
            2 => (rng.below(18), rng.below(18)),
            _ => (0, 16),
        };
        reqs.push((
            format!("c {kind} {} {} {} {} {} {off} {len}", hex(name.as_bytes()), hex(l1.as_bytes()), hex(l2.as_bytes()), fl(&l1), fl(&l2)),
            match kind { "mem" => "cache_mem", "mmap" => "cache_mmap", _ => "cache_file" },
            true,
        ));
    }

    // ---- execute: risky requests in a child process, the rest in-process
    let risky_reqs: Vec<String> = reqs.iter().filter(|r| risky(&r.0)).map(|r| r.0.clone()).collect();
    let mut risky_res = run_in_child(&args.out, &risky_reqs).into_iter();
    let mut out = Out::new(&args.out);
    let mut times: HashMap<&str, f64> = HashMap::new();
    for (req, bucket, nontrivial) in &reqs {
        let t0 = std::time::Instant::now();
        let (ans, fail) = if risky(req) { risky_res.next().unwrap() } else { exec(&ctx, req) };
        *times.entry(bucket).or_insert(0.0) += t0.elapsed().as_secs_f64();
        out.bucket(bucket);
        let class = ans.split(' ').next().unwrap_or("");
        out.bucket(&format!("ans_{}", if class.starts_with("allowed=") || class.starts_with("err:") || class == "ok" || class == "abort" || class == "panic" || class == "some" || class == "none" { class } else { "other" }));
        if risky(req) {
            out.bucket("ran_in_child");
        }
        out.case(req, &ans, fail.as_deref(), *nontrivial);
    }
    ctx.cleanup();
    let mut tv: Vec<String> = times.iter().map(|(k, v)| format!("{k}={v:.1}s")).collect();
    tv.sort();
    out.note(&format!("in-process time per bucket: {}", tv.join(" ")));
    out.note("scratch model directory created under --out and removed at the end; file-loader requests with length > 2^22 run in a child process");
    out.finish("verdict/answer of the real code == Lean model per request; oracle: accepted locations are plain data file names whose canonical path is a direct child of the model dir, accepted ranges lie inside the file and return exactly file[offset..offset+length]");
}
